"""Automatic AST mutants of the functions a property is anchored in.

Thorough tier only, informational: measures how many generic one-point edits of
the anchored code the property's rules notice (REFUTED), cannot decide
(ANALYSIS-ERROR) or do not notice (silent: either equivalent/irrelevant to the
property or a gap in the rules -- listed in the evidence for triage).  Never a
verdict about the repository.
"""

from __future__ import annotations

import ast
import copy
import os

from .model import Repo, repo_root

CMP_SWAP = {ast.Lt: ast.GtE, ast.GtE: ast.Lt, ast.Gt: ast.LtE, ast.LtE: ast.Gt, ast.Eq: ast.NotEq, ast.NotEq: ast.Eq,
            ast.Is: ast.IsNot, ast.IsNot: ast.Is, ast.In: ast.NotIn, ast.NotIn: ast.In}
BIN_SWAP = {ast.Add: ast.Sub, ast.Sub: ast.Add, ast.Mult: ast.Div, ast.Div: ast.Mult}


class _Collector(ast.NodeVisitor):
    def __init__(self):
        self.sites = []  # (kind, node)

    def generic_visit(self, node):
        if isinstance(node, ast.Compare) and len(node.ops) == 1 and type(node.ops[0]) in CMP_SWAP:
            self.sites.append(("cmp", node))
        if isinstance(node, ast.BinOp) and type(node.op) in BIN_SWAP:
            self.sites.append(("bin", node))
        if isinstance(node, ast.AugAssign) and type(node.op) in BIN_SWAP:
            self.sites.append(("aug", node))
        if isinstance(node, ast.UnaryOp) and isinstance(node.op, (ast.USub, ast.Not)):
            self.sites.append(("unary", node))
        if isinstance(node, ast.BoolOp):
            self.sites.append(("bool", node))
        if isinstance(node, ast.Constant) and isinstance(node.value, (int, float)) and not isinstance(node.value, bool):
            self.sites.append(("const", node))
        if isinstance(node, ast.Constant) and isinstance(node.value, bool):
            self.sites.append(("boolconst", node))
        if isinstance(node, (ast.Assign, ast.AugAssign, ast.Expr)) and not (isinstance(node, ast.Expr) and isinstance(node.value, ast.Constant)):
            self.sites.append(("del", node))
        if isinstance(node, ast.Call) and len(node.keywords) >= 1:
            for i, k in enumerate(node.keywords):
                if k.arg is not None:
                    self.sites.append((f"kw{i}", node))
        if isinstance(node, ast.Call) and len(node.args) >= 2:
            self.sites.append(("swapargs", node))
        if isinstance(node, ast.If):
            self.sites.append(("ifnot", node))
        if isinstance(node, ast.Subscript) and isinstance(node.slice, ast.Constant) and isinstance(node.slice.value, int):
            self.sites.append(("idx", node))
        super().generic_visit(node)


def _mutate(fn_node, site_index):
    tree = copy.deepcopy(fn_node)
    col = _Collector()
    for st in tree.body:
        col.visit(st)
    kind, node = col.sites[site_index]
    desc = kind
    if kind == "cmp":
        node.ops = [CMP_SWAP[type(node.ops[0])]()]
        desc = f"comparison -> {type(node.ops[0]).__name__}"
    elif kind == "bin":
        node.op = BIN_SWAP[type(node.op)]()
        desc = f"operator -> {type(node.op).__name__}"
    elif kind == "aug":
        node.op = BIN_SWAP[type(node.op)]()
        desc = f"augmented operator -> {type(node.op).__name__}"
    elif kind == "unary":
        new = node.operand
        _replace(tree, node, new)
        desc = "unary operator removed"
    elif kind == "bool":
        node.op = ast.Or() if isinstance(node.op, ast.And) else ast.And()
        desc = "and <-> or"
    elif kind == "const":
        node.value = 0 if node.value != 0 else 1
        desc = "numeric constant changed"
    elif kind == "boolconst":
        node.value = not node.value
        desc = "boolean constant flipped"
    elif kind == "del":
        _replace(tree, node, ast.Pass())
        desc = "statement deleted"
    elif kind.startswith("kw"):
        i = int(kind[2:])
        desc = f"keyword {node.keywords[i].arg}= dropped"
        del node.keywords[i]
    elif kind == "swapargs":
        node.args[0], node.args[1] = node.args[1], node.args[0]
        desc = "first two arguments swapped"
    elif kind == "ifnot":
        node.test = ast.UnaryOp(op=ast.Not(), operand=node.test)
        desc = "if condition negated"
    elif kind == "idx":
        node.slice = ast.Constant(value=1 if node.slice.value == 0 else 0)
        desc = "constant index changed"
    ast.fix_missing_locations(tree)
    line = getattr(node, "lineno", fn_node.lineno)
    return tree, f"{desc} (line {line})"


def _replace(root, old, new):
    for parent in ast.walk(root):
        for fld, val in ast.iter_fields(parent):
            if val is old:
                setattr(parent, fld, new)
                return
            if isinstance(val, list):
                for i, v in enumerate(val):
                    if v is old:
                        val[i] = new
                        return


def count_sites(fn_node):
    col = _Collector()
    for st in fn_node.body:
        col.visit(st)
    return len(col.sites)


def splice(source: str, fn_node, new_fn) -> str:
    lines = source.splitlines(keepends=True)
    first = min([fn_node.lineno] + [d.lineno for d in fn_node.decorator_list])
    indent = len(lines[fn_node.lineno - 1]) - len(lines[fn_node.lineno - 1].lstrip())
    text = ast.unparse(new_fn)
    text = "\n".join((" " * indent + l) if l.strip() else l for l in text.splitlines()) + "\n"
    return "".join(lines[: first - 1]) + text + "".join(lines[fn_node.end_lineno:])


def generate(repo: Repo, idents, limit_per_function=60):
    """Yield (name, relpath, mutated source)."""
    for ident in idents:
        try:
            f = repo.func(ident)
        except Exception:
            continue
        n = count_sites(f.node)
        step = max(1, n // limit_per_function)
        for i in range(0, n, step):
            try:
                new_fn, desc = _mutate(f.node, i)
                src = splice(f.module.source, f.node, new_fn)
                ast.parse(src)
            except Exception:
                continue
            if src == f.module.source:
                continue
            yield (f"{ident}: {desc}", f.module.relpath, src)
