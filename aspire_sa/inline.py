"""Extract-method normalisation.

A refactoring that moves a few statements of a function into a new private method
(`x = self._apply(x, f)`) changes nothing a caller can observe, but it hides those
statements from every per-function rule.  Before the program model is built, calls
to *new* private helper methods are therefore inlined back into their callers.

"New" is relative to the method table of the pinned tree (aspire_sa/known_methods.txt,
written by tools/gen_known_methods.py): the helpers that exist there are part of the
shapes the rules were confirmed against and stay calls.  A helper is inlined only when
the transformation is plainly semantics-preserving:

  * private (`_name`, not dunder), defined in exactly one class of the package, undecorated,
    no *args / **kwargs / positional-only parameters, constant defaults;
  * single exit: at most one `return`, and it is the last statement of the body;
  * no nested def / lambda / class / yield / await / global / nonlocal, not recursive;
  * the call is `self._name(...)` from a method of the same class, without * / ** arguments,
    and is the whole right-hand side of an assignment / augmented assignment, an expression
    statement, or a return.

Parameters and locals of the helper are renamed apart (`_inl<k>_<name>`), arguments are bound
left to right by plain assignments (the evaluation order of a call), the body follows, and the
returned expression takes the place of the call.  Anything else is left alone (the rules then
see a call, as before).
"""

from __future__ import annotations

import ast
import copy
import os

_KNOWN = None


def known_methods() -> set:
    global _KNOWN
    if _KNOWN is None:
        p = os.path.join(os.path.dirname(os.path.abspath(__file__)), "known_methods.txt")
        with open(p, encoding="utf-8") as f:
            _KNOWN = {l.strip() for l in f if l.strip() and not l.startswith("#")}
    return _KNOWN


def _body_wo_doc(f):
    b = f.body
    if b and isinstance(b[0], ast.Expr) and isinstance(b[0].value, ast.Constant) and isinstance(b[0].value.value, str):
        return b[1:]
    return b


def _eligible(f: ast.FunctionDef) -> bool:
    a = f.args
    if f.decorator_list or a.vararg or a.kwarg or a.posonlyargs or not a.args:
        return False
    if any(not isinstance(d, ast.Constant) for d in list(a.defaults) + [d for d in a.kw_defaults if d is not None]):
        return False
    body = _body_wo_doc(f)
    if not body:
        return False
    rets = []
    for n in ast.walk(f):
        if n is f:
            continue
        if isinstance(n, (ast.FunctionDef, ast.AsyncFunctionDef, ast.Lambda, ast.ClassDef, ast.Yield, ast.YieldFrom, ast.Await, ast.Global, ast.Nonlocal)):
            return False
        if isinstance(n, ast.Return):
            rets.append(n)
        if isinstance(n, ast.Call) and isinstance(n.func, ast.Attribute) and n.func.attr == f.name and isinstance(n.func.value, ast.Name) and n.func.value.id == a.args[0].arg:
            return False
    if len(rets) > 1 or (rets and rets[0] is not body[-1]):
        return False
    return True


def find_helpers(trees: dict, known: set) -> dict:
    """{(module, class name, method name): FunctionDef} of inlinable new helpers."""
    seen = {}
    for mod, tree in trees.items():
        for c in ast.walk(tree):
            if isinstance(c, ast.ClassDef):
                for f in c.body:
                    if isinstance(f, ast.FunctionDef):
                        seen.setdefault(f.name, []).append((mod, c, f))
    out = {}
    for name, lst in seen.items():
        if len(lst) != 1 or not name.startswith("_") or name.startswith("__"):
            continue
        mod, c, f = lst[0]
        if f"{mod}:{c.name}.{name}" in known:
            continue
        if _eligible(f):
            out[(mod, c.name, name)] = f
    return out


class _Rename(ast.NodeTransformer):
    def __init__(self, mapping):
        self.m = mapping

    def visit_Name(self, n):
        if n.id in self.m:
            r = self.m[n.id]
            if isinstance(r, str):
                return ast.copy_location(ast.Name(id=r, ctx=n.ctx), n)
            return ast.copy_location(copy.deepcopy(r), n)  # a parameter that is never reassigned stands for its (name / constant) argument
        return n


def _locals_of(f):
    names = {a.arg for a in f.args.args + f.args.kwonlyargs}
    for n in ast.walk(f):
        if isinstance(n, ast.Name) and isinstance(n.ctx, (ast.Store, ast.Del)):
            names.add(n.id)
        elif isinstance(n, ast.ExceptHandler) and n.name:
            names.add(n.name)
    return names


class _Inliner:
    def __init__(self, helpers_of_class, me):
        self.h = helpers_of_class  # name -> FunctionDef
        self.me = me
        self.k = 0
        self.done = 0
        self.used = set()

    def _call(self, e):
        if isinstance(e, ast.Call) and isinstance(e.func, ast.Attribute) and isinstance(e.func.value, ast.Name) and e.func.value.id == self.me and e.func.attr in self.h \
                and not any(isinstance(a, ast.Starred) for a in e.args) and not any(k.arg is None for k in e.keywords):
            return self.h[e.func.attr]
        return None

    def _expand(self, call, f, at):
        """-> (statements, expression for the result or None)"""
        self.k += 1
        pre = f"_inl{self.k}_"
        params = [a.arg for a in f.args.args]
        kwonly = [a.arg for a in f.args.kwonlyargs]
        mapping = {n: pre + n for n in _locals_of(f)}
        mapping[params[0]] = self.me
        bound = {}
        pos = params[1:]
        if len(call.args) > len(pos):
            return None
        for p, a in zip(pos, call.args):
            bound[p] = a
        for k in call.keywords:
            if k.arg in bound or k.arg not in pos + kwonly:
                return None
            bound[k.arg] = k.value
        defaults = dict(zip(reversed(pos), reversed(f.args.defaults)))
        defaults.update({a: d for a, d in zip(kwonly, f.args.kw_defaults) if d is not None})
        stmts = []
        stored = {n.id for n in ast.walk(f) if isinstance(n, ast.Name) and isinstance(n.ctx, (ast.Store, ast.Del))}
        # arguments in call order first (positional, then keywords as written), defaults last
        order = [p for p in pos[: len(call.args)]] + [k.arg for k in call.keywords]
        for p in order + [p for p in pos + kwonly if p not in order]:
            if p in bound:
                val = bound[p]
            elif p in defaults:
                val = copy.deepcopy(defaults[p])
            else:
                return None
            if p not in stored and isinstance(val, (ast.Name, ast.Constant)):
                mapping[p] = val  # copy propagation: no temporary for a plain name / constant argument
                continue
            st = ast.Assign(targets=[ast.Name(id=pre + p, ctx=ast.Store())], value=val, lineno=at.lineno, col_offset=at.col_offset)
            stmts.append(ast.fix_missing_locations(ast.copy_location(st, at)))
        body = [copy.deepcopy(s) for s in _body_wo_doc(f)]
        ret = None
        if body and isinstance(body[-1], ast.Return):
            ret = body.pop().value
        rn = _Rename(mapping)
        body = [rn.visit(s) for s in body]
        if ret is not None:
            ret = rn.visit(ret)
        # positions: everything inlined sits at the call statement (rules that ask "is this inside the loop / before that line" then get the call site's answer)
        for top in body + ([ret] if ret is not None else []):
            for n in ast.walk(top):
                if hasattr(n, "lineno"):
                    n.lineno, n.col_offset = at.lineno, at.col_offset
                    n.end_lineno, n.end_col_offset = getattr(at, "end_lineno", at.lineno), getattr(at, "end_col_offset", at.col_offset)
        self.done += 1
        self.used.add(f.name)
        return stmts + body, ret

    def stmt(self, s):
        """-> list of statements replacing *s*"""
        for fld in ("body", "orelse", "finalbody"):
            if hasattr(s, fld) and isinstance(getattr(s, fld), list):
                setattr(s, fld, self.block(getattr(s, fld)))
        if isinstance(s, ast.Try):
            for h in s.handlers:
                h.body = self.block(h.body)
        if hasattr(ast, "Match") and isinstance(s, ast.Match):
            for c in s.cases:
                c.body = self.block(c.body)
        val = getattr(s, "value", None) if isinstance(s, (ast.Assign, ast.AugAssign, ast.AnnAssign, ast.Expr, ast.Return)) else None
        f = self._call(val) if val is not None else None
        if f is None:
            return [s]
        r = self._expand(val, f, s)
        if r is None:
            return [s]
        stmts, ret = r
        none = ast.copy_location(ast.Constant(value=None), s)
        if isinstance(s, ast.Expr):
            return stmts or [ast.copy_location(ast.Pass(), s)]
        s.value = ret if ret is not None else none
        return stmts + [s]

    def block(self, stmts):
        out = []
        for s in stmts:
            out.extend(self.stmt(s))
        return out


def normalise(trees: dict, known: set | None = None):
    """trees: {module name: ast.Module}.  Returns ({module name: new tree} for modules that changed, report list)."""
    known = known_methods() if known is None else known
    report = []
    changed = {}
    for _round in range(2):
        cur = dict(trees)
        cur.update(changed)
        helpers = find_helpers(cur, known)
        if not helpers:
            break
        by_mod = {}
        for (mod, cname, name), f in helpers.items():
            by_mod.setdefault(mod, {}).setdefault(cname, {})[name] = f
        progressed = False
        for mod, classes in by_mod.items():
            tree = copy.deepcopy(cur[mod])
            n_mod = 0
            for c in ast.walk(tree):
                if isinstance(c, ast.ClassDef) and c.name in classes:
                    hs = {n: next(f for f in c.body if isinstance(f, ast.FunctionDef) and f.name == n) for n in classes[c.name]}
                    for m in c.body:
                        if isinstance(m, ast.FunctionDef) and m.args.args and m.name not in hs:
                            inl = _Inliner(hs, m.args.args[0].arg)
                            m.body = inl.block(m.body)
                            if inl.done:
                                n_mod += inl.done
                                report.append((mod, c.name, m.name, inl.done, tuple(sorted(inl.used))))
            if n_mod:
                ast.fix_missing_locations(tree)
                changed[mod] = tree
                progressed = True
        if not progressed:
            break
    return changed, report
