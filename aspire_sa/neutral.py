"""Whole-package behaviour-preserving transformations used as negative controls.

``alpha_overlay`` renames every local variable of every function in the package
(parameters, attributes, imports and globals keep their names) and re-emits the
modules with ``ast.unparse`` (which also drops comments and changes the layout).
A rule that reports anything new on this overlay is keyed on the spelling of a
local or on the layout of the source -- a false alarm in waiting."""

from __future__ import annotations

import ast
import os


class _Renamer(ast.NodeTransformer):
    def __init__(self, mapping):
        self.m = mapping

    def visit_Name(self, n):
        if n.id in self.m:
            n.id = self.m[n.id]
        return n

    def visit_FunctionDef(self, n):
        if n.name in self.m:
            n.name = self.m[n.name]
        self.generic_visit(n)
        return n


def _locals_of(fn) -> list:
    def params_of(f):
        a = f.args
        out = {x.arg for x in a.posonlyargs + a.args + a.kwonlyargs}
        if a.vararg:
            out.add(a.vararg.arg)
        if a.kwarg:
            out.add(a.kwarg.arg)
        return out
    keep = params_of(fn)
    declared = set()
    nested_names = set()
    for n in ast.walk(fn):
        if isinstance(n, (ast.FunctionDef, ast.AsyncFunctionDef, ast.Lambda)) and n is not fn:
            keep |= params_of(n)
            if not isinstance(n, ast.Lambda):
                nested_names.add(n.name)
        if isinstance(n, (ast.Import, ast.ImportFrom)):
            keep |= {(a.asname or a.name).split(".")[0] for a in n.names}
        if isinstance(n, (ast.Global, ast.Nonlocal)):
            declared |= set(n.names)
        if isinstance(n, ast.ClassDef):
            keep.add(n.name)
    stored = {n.id for n in ast.walk(fn) if isinstance(n, ast.Name) and isinstance(n.ctx, ast.Store)}
    return sorted((stored | nested_names) - keep - declared)


def alpha_overlay(root: str) -> tuple:
    """(overlay {relpath: source}, number of functions touched, number of locals renamed)"""
    overlay = {}
    n_f = n_l = 0
    src_root = os.path.join(root, "src", "aspire")
    for dirpath, _dirs, files in os.walk(src_root):
        for fn in sorted(files):
            if not fn.endswith(".py"):
                continue
            path = os.path.join(dirpath, fn)
            rel = os.path.relpath(path, root)
            with open(path, encoding="utf-8") as fh:
                tree = ast.parse(fh.read())
            tops = []
            for n in tree.body:
                if isinstance(n, (ast.FunctionDef, ast.AsyncFunctionDef)):
                    tops.append(n)
                elif isinstance(n, ast.ClassDef):
                    tops += [m for m in n.body if isinstance(m, (ast.FunctionDef, ast.AsyncFunctionDef))]
            for f in tops:
                names = _locals_of(f)
                if names:
                    n_f += 1
                    n_l += len(names)
                    r_ = _Renamer({x: f"{x}_r" for x in names})
                    for st_ in f.body:
                        r_.visit(st_)
            overlay[rel] = ast.unparse(tree) + "\n"
    return overlay, n_f, n_l


class _KwReverse(ast.NodeTransformer):
    """Reverse the order of the keyword arguments of calls whose keyword values
    cannot have side effects (names, attributes, constants): same call."""
    n = 0

    def visit_Call(self, node):
        self.generic_visit(node)
        if len(node.keywords) > 1 and all(k.arg is not None and isinstance(k.value, (ast.Name, ast.Attribute, ast.Constant)) for k in node.keywords):
            node.keywords = list(reversed(node.keywords))
            _KwReverse.n += 1
        return node


def kwreverse_overlay(root: str) -> tuple:
    overlay = {}
    _KwReverse.n = 0
    src_root = os.path.join(root, "src", "aspire")
    for dirpath, _dirs, files in os.walk(src_root):
        for fn in sorted(files):
            if fn.endswith(".py"):
                path = os.path.join(dirpath, fn)
                with open(path, encoding="utf-8") as fh:
                    tree = ast.parse(fh.read())
                _KwReverse().visit(tree)
                overlay[os.path.relpath(path, root)] = ast.unparse(tree) + "\n"
    return overlay, _KwReverse.n


class _Hoist(ast.NodeTransformer):
    """`x = f(g(a), k=h(b))` -> `_t1 = g(a); _t2 = h(b); x = f(_t1, k=_t2)` for simple
    statements whose value is one call: evaluation order is unchanged (arguments are
    evaluated left to right, positionals before keywords)."""
    n = 0

    def _hoist_stmt(self, st):
        val = getattr(st, "value", None)
        if not isinstance(st, (ast.Assign, ast.Expr, ast.Return)) or not isinstance(val, ast.Call):
            return [st]
        if isinstance(val.func, ast.Call) or any(isinstance(a, ast.Starred) for a in val.args) or any(k.arg is None for k in val.keywords):
            return [st]
        if isinstance(val.func, ast.Attribute) and isinstance(val.func.value, ast.Call):
            return [st]  # super().m(...) and chained calls: the receiver is itself a call
        simple = (ast.Name, ast.Constant, ast.Attribute)
        slots = list(val.args) + [k.value for k in val.keywords]
        if all(isinstance(a, simple) for a in slots):
            return [st]
        if any(isinstance(x, (ast.Lambda, ast.GeneratorExp, ast.ListComp, ast.DictComp, ast.SetComp, ast.NamedExpr, ast.Yield, ast.Await, ast.IfExp, ast.BoolOp))
               for a in slots for x in ast.walk(a)):
            return [st]
        pre = []
        # once one argument is hoisted every later non-constant argument must follow (order of evaluation)
        started = False
        new_args, new_kws = [], []
        for a in val.args:
            if isinstance(a, ast.Constant) or (not started and isinstance(a, (ast.Name, ast.Attribute))):
                new_args.append(a)
                continue
            started = True
            _Hoist.n += 1
            nm = f"_h{_Hoist.n}"
            pre.append(ast.Assign(targets=[ast.Name(id=nm, ctx=ast.Store())], value=a))
            new_args.append(ast.Name(id=nm, ctx=ast.Load()))
        for k in val.keywords:
            a = k.value
            if isinstance(a, ast.Constant) or (not started and isinstance(a, (ast.Name, ast.Attribute))):
                new_kws.append(k)
                continue
            started = True
            _Hoist.n += 1
            nm = f"_h{_Hoist.n}"
            pre.append(ast.Assign(targets=[ast.Name(id=nm, ctx=ast.Store())], value=a))
            new_kws.append(ast.keyword(arg=k.arg, value=ast.Name(id=nm, ctx=ast.Load())))
        val.args, val.keywords = new_args, new_kws
        out = pre + [st]
        for o in out:
            ast.copy_location(o, st)
            ast.fix_missing_locations(o)
        return out

    def _block(self, stmts):
        out = []
        for st in stmts:
            self.generic_visit(st) if not isinstance(st, (ast.Assign, ast.Expr, ast.Return)) else None
            out.extend(self._hoist_stmt(st))
        return out

    def generic_visit(self, node):
        for field in ("body", "orelse", "finalbody"):
            blk = getattr(node, field, None)
            if isinstance(blk, list) and blk and isinstance(blk[0], ast.stmt):
                setattr(node, field, self._block(blk))
        for h in getattr(node, "handlers", []) or []:
            h.body = self._block(h.body)
        return node


def hoist_overlay(root: str) -> tuple:
    overlay = {}
    _Hoist.n = 0
    src_root = os.path.join(root, "src", "aspire")
    for dirpath, _dirs, files in os.walk(src_root):
        for fn in sorted(files):
            if fn.endswith(".py"):
                path = os.path.join(dirpath, fn)
                with open(path, encoding="utf-8") as fh:
                    tree = ast.parse(fh.read())
                h = _Hoist()
                for n in tree.body:
                    if isinstance(n, (ast.FunctionDef, ast.AsyncFunctionDef)):
                        h.generic_visit(n)
                    elif isinstance(n, ast.ClassDef):
                        for m in n.body:
                            if isinstance(m, (ast.FunctionDef, ast.AsyncFunctionDef)):
                                h.generic_visit(m)
                overlay[os.path.relpath(path, root)] = ast.unparse(tree) + "\n"
    return overlay, _Hoist.n


class _Swap(ast.NodeTransformer):
    """`if c: A else: B` -> `if not c: B else: A` (statements and conditional expressions)."""
    n = 0

    def visit_If(self, node):
        self.generic_visit(node)
        if node.orelse:
            node.test = ast.UnaryOp(op=ast.Not(), operand=node.test)
            node.body, node.orelse = node.orelse, node.body
            _Swap.n += 1
        return node

    def visit_IfExp(self, node):
        self.generic_visit(node)
        node.test = ast.UnaryOp(op=ast.Not(), operand=node.test)
        node.body, node.orelse = node.orelse, node.body
        _Swap.n += 1
        return node


def swap_overlay(root: str) -> tuple:
    overlay = {}
    _Swap.n = 0
    src_root = os.path.join(root, "src", "aspire")
    for dirpath, _dirs, files in os.walk(src_root):
        for fn in sorted(files):
            if fn.endswith(".py"):
                path = os.path.join(dirpath, fn)
                with open(path, encoding="utf-8") as fh:
                    tree = ast.parse(fh.read())
                _Swap().visit(tree)
                ast.fix_missing_locations(tree)
                overlay[os.path.relpath(path, root)] = ast.unparse(tree) + "\n"
    return overlay, _Swap.n
