"""CLI: ``python -m aspire_sa check <Cnn> --tier quick|thorough`` / ``replay <path>``.

Exit status: 0 held (possibly with KNOWN-FINDING lines), 1 VIOLATION,
2 ANALYSIS-ERROR (the analysis could not decide; never a silent pass).
"""

from __future__ import annotations

import argparse
import importlib
import json
import os
import sys
import time
import traceback

from . import AnalysisError
from .model import Repo
from .report import REFUTED, UNKNOWN, Ctx, finish

PROPS = [f"C{i:02d}" for i in range(2, 21)]


def load_rules(prop: str):
    return importlib.import_module(f"aspire_sa.rules.{prop.lower()}")


def run_rules(mod, prop, tier, repo) -> Ctx:
    ctx = Ctx(prop, tier, repo)
    mod.run(ctx)
    return ctx


def run_variant(mod, prop, tier, path, source):
    repo = Repo(overlay={path: source})
    return run_rules(mod, prop, tier, repo)


def _one_variant(job):
    """Worker: evaluate one variant; returns plain data."""
    prop, kind, m, base_bad = job
    from .mutants import apply
    from .model import repo_root

    mod = load_rules(prop)
    src = apply(repo_root(), m)
    if src is None:
        return (m.name, kind, "inapplicable", None, None)
    try:
        v = run_variant(mod, prop, "quick", m.path, src)
        new_ref = [(f.rule, f.key) for f in v.findings if f.verdict == REFUTED and f.key not in base_bad]
        new_unk = [(f.rule, f.key) for f in v.findings if f.verdict == UNKNOWN and f.key not in base_bad]
        err = None
    except AnalysisError as e:
        new_ref, new_unk, err = [], [], str(e)
    except Exception as e:  # a crash of the analysis on a variant is an analysis error, never a verdict
        new_ref, new_unk, err = [], [], f"internal error: {type(e).__name__}: {e}"
    return (m.name, kind, "ran", (new_ref, new_unk, err), m.expect)


GLOBAL_NEUTRALS = ("alpha", "kw", "hoist", "swap")


def self_validate(mod, prop, tier, base: Ctx, budget_s: float):
    """Seeded variants must be REFUTED by the named rule, neutral variants must
    stay silent.  Variants are in-memory overlays of the *current* source."""
    import concurrent.futures as cf
    import multiprocessing as mp

    res = {"seeded": 0, "detected": 0, "inapplicable": 0, "neutral": 0, "silent": 0,
           "missed": [], "false_alarm": [], "skipped_for_time": 0, "cases": []}
    base_bad = {f.key for f in base.findings if f.verdict in (REFUTED, UNKNOWN)}
    jobs = [(prop, "seeded", m, base_bad) for m in getattr(mod, "MUTANTS", [])]
    jobs += [(prop, "neutral", m, base_bad) for m in getattr(mod, "NEUTRALS", [])]
    workers = min(len(jobs) + len(GLOBAL_NEUTRALS), os.cpu_count() or 4, 16)
    results = []
    try:
        with cf.ProcessPoolExecutor(max_workers=workers, mp_context=mp.get_context("fork")) as ex:
            futs = [ex.submit(_one_variant, j) for j in jobs]
            futs += [ex.submit(_global_neutral, prop, base_bad, w) for w in GLOBAL_NEUTRALS]
            done, pending = cf.wait(futs, timeout=budget_s)
            for f in futs:
                if f in done:
                    results.append(f.result())
                else:
                    f.cancel()
                    res["skipped_for_time"] += 1
    except (OSError, PermissionError):
        results = [_one_variant(j) for j in jobs] + [_global_neutral(prop, base_bad, w) for w in GLOBAL_NEUTRALS]
    for name, kind, state, payload, expect in results:
        if state == "inapplicable":
            res["inapplicable"] += 1
            res["cases"].append({"variant": name, "kind": kind, "result": "inapplicable"})
            continue
        new_ref, new_unk, err = payload
        if kind == "seeded":
            res["seeded"] += 1
            hit = [k for r, k in new_ref if any(r.startswith(x) for x in expect)]
            if hit:
                res["detected"] += 1
                res["cases"].append({"variant": name, "kind": kind, "result": "detected", "by": hit[0]})
            else:
                what = f"seeded variant '{name}' not refuted by {expect}"
                if err:
                    what += f" (analysis error: {err})"
                elif new_unk:
                    what += f" (undecided: {new_unk[0][1]})"
                elif new_ref:
                    what += f" (refuted only by {new_ref[0][0]})"
                res["missed"].append(what)
        else:
            res["neutral"] += 1
            if not new_ref and not new_unk and not err:
                res["silent"] += 1
                res["cases"].append({"variant": name, "kind": kind, "result": "silent"})
            else:
                k = (new_ref or new_unk)[0][1] if (new_ref or new_unk) else err
                res["false_alarm"].append(f"neutral variant '{name}' raised {k}")
    return res


def _global_neutral(prop, base_bad, which="alpha"):
    """Whole-package behaviour-preserving rewrites (alpha-renaming of locals and closures with re-emission of
    every module; keyword arguments of side-effect-free calls reversed): must change no verdict."""
    from .model import repo_root
    from .neutral import alpha_overlay, hoist_overlay, kwreverse_overlay, swap_overlay

    mod = load_rules(prop)
    name = {"alpha": "every local variable and closure of the package renamed, modules re-emitted without comments/layout",
            "kw": "keyword arguments reversed in every call with side-effect-free keyword values",
            "hoist": "nested call arguments of simple statements hoisted into temporaries, package-wide",
            "swap": "every if/else and conditional expression rewritten with the negated test and swapped branches"}[which]
    try:
        if which == "alpha":
            overlay, n_f, n_l = alpha_overlay(repo_root())
            name += f" ({n_l} names in {n_f} functions)"
        elif which == "kw":
            overlay, n_c = kwreverse_overlay(repo_root())
            name += f" ({n_c} calls)"
        elif which == "hoist":
            overlay, n_c = hoist_overlay(repo_root())
            name += f" ({n_c} temporaries)"
        else:
            overlay, n_c = swap_overlay(repo_root())
            name += f" ({n_c} conditionals)"
        v = run_rules(mod, prop, "quick", Repo(overlay=overlay))
        new_ref = [(f.rule, f.key) for f in v.findings if f.verdict == REFUTED and f.key not in base_bad]
        new_unk = [(f.rule, f.key) for f in v.findings if f.verdict == UNKNOWN and f.key not in base_bad]
        err = None
        if any(g < fl for _n, g, fl in v.floors):
            err = "an instance floor is not met on the renamed package"
    except AnalysisError as e:
        new_ref, new_unk, err = [], [], str(e)
    except Exception as e:  # noqa: BLE001
        new_ref, new_unk, err = [], [], f"internal error: {type(e).__name__}: {e}"
    return (name, "neutral", "ran", (new_ref, new_unk, err), ())


def _one_auto(job):
    prop, name, path, src, base_bad = job
    mod = load_rules(prop)
    try:
        v = run_variant(mod, prop, "quick", path, src)
        ref = [f.key for f in v.findings if f.verdict == REFUTED and f.key not in base_bad]
        unk = [f.key for f in v.findings if f.verdict == UNKNOWN and f.key not in base_bad]
        if ref:
            return (name, "refuted", ref[0])
        if unk:
            return (name, "undecided", unk[0])
        return (name, "silent", "")
    except AnalysisError as e:
        return (name, "undecided", str(e)[:120])
    except Exception as e:
        return (name, "undecided", f"internal: {type(e).__name__}: {e}"[:120])


def auto_mutants(mod, prop, base: Ctx, budget_s: float):
    """Thorough tier: generic one-point AST edits of the anchored functions."""
    import concurrent.futures as cf
    import multiprocessing as mp

    from .automut import generate

    anchors = getattr(mod, "ANCHORS", [])
    base_bad = {f.key for f in base.findings if f.verdict in (REFUTED, UNKNOWN)}
    jobs = [(prop, name, path, src, base_bad) for name, path, src in generate(base.repo, anchors)]
    res = {"generated": len(jobs), "refuted": 0, "undecided": 0, "silent": 0, "silent_list": [], "not_run": 0}
    if not jobs:
        return res
    with cf.ProcessPoolExecutor(max_workers=min(16, os.cpu_count() or 4), mp_context=mp.get_context("fork")) as ex:
        futs = [ex.submit(_one_auto, j) for j in jobs]
        done, pending = cf.wait(futs, timeout=budget_s)
        for f in futs:
            if f in done:
                name, state, key = f.result()
                res[state] += 1
                if state == "silent":
                    res["silent_list"].append(name)
            else:
                f.cancel()
                res["not_run"] += 1
    return res


def _one_seed(job):
    """Worker: apply one kept seeded change (a patch written by an independent agent, see DESIGN section 12) to a scratch copy of the
    files it touches, and run this property's rules on the result through the overlay.  Returns (id, state, first key / reason)."""
    import shutil
    import subprocess
    import tempfile

    from .model import repo_root
    prop, sid, patch, base_bad = job
    root = repo_root()
    tmp = tempfile.mkdtemp(prefix="aspire_sa_seed_")
    try:
        files = []
        for line in open(patch, encoding="utf-8", errors="replace"):
            if line.startswith("+++ "):
                f = line[4:].strip().split("\t")[0]
                f = f[2:] if f.startswith(("a/", "b/")) else f
                if f != "/dev/null" and f not in files:
                    files.append(f)
        for f in files:
            src = os.path.join(root, f)
            dst = os.path.join(tmp, f)
            os.makedirs(os.path.dirname(dst), exist_ok=True)
            if os.path.exists(src):
                shutil.copy(src, dst)
        r = subprocess.run(["patch", "-p1", "-s", "-f", "-i", patch], cwd=tmp, capture_output=True, text=True)
        if r.returncode != 0:
            return (sid, "inapplicable", "patch does not apply to the current tree")
        overlay = {}
        for f in files:
            pth = os.path.join(tmp, f)
            if os.path.exists(pth) and f.endswith(".py"):
                overlay[f] = open(pth, encoding="utf-8").read()
        mod = load_rules(prop)
        try:
            v = run_rules(mod, prop, "quick", Repo(overlay=overlay))
        except AnalysisError as e:
            return (sid, "undecided", str(e)[:160])
        except Exception as e:  # noqa: BLE001
            return (sid, "undecided", f"internal: {type(e).__name__}: {e}"[:160])
        ref = [f.key for f in v.findings if f.verdict == REFUTED and f.key not in base_bad]
        unk = [f.key for f in v.findings if f.verdict == UNKNOWN and f.key not in base_bad]
        if ref:
            return (sid, "refuted", ref[0])
        return (sid, "undecided" if unk else "silent", unk[0] if unk else "")
    finally:
        shutil.rmtree(tmp, ignore_errors=True)


def seed_corpus(prop, base: Ctx, budget_s: float):
    """Thorough tier: every kept seeded change of this property (/verif/seeded/<prop>-*/patch.diff) must be REFUTED by this
    property's rules when applied to the current tree.  A change that is no longer reported means the checker lost sensitivity
    (ANALYSIS-ERROR, never a property verdict); one whose patch no longer applies is counted inapplicable."""
    import concurrent.futures as cf
    import multiprocessing as mp

    here = os.path.dirname(os.path.dirname(os.path.abspath(__file__)))
    sdir = os.path.join(here, "seeded")
    base_bad = {f.key for f in base.findings if f.verdict in (REFUTED, UNKNOWN)}
    jobs = []
    if os.path.isdir(sdir):
        for sid in sorted(os.listdir(sdir)):
            patch = os.path.join(sdir, sid, "patch.diff")
            if sid.startswith(prop + "-") and os.path.isfile(patch):
                jobs.append((prop, sid, patch, base_bad))
    res = {"kept_changes": len(jobs), "refuted": 0, "inapplicable": 0, "missed": [], "not_run": 0, "by": {}}
    if not jobs:
        return res
    with cf.ProcessPoolExecutor(max_workers=min(16, os.cpu_count() or 4, len(jobs)), mp_context=mp.get_context("fork")) as ex:
        futs = [ex.submit(_one_seed, j) for j in jobs]
        done, _pending = cf.wait(futs, timeout=budget_s)
        for f in futs:
            if f not in done:
                f.cancel()
                res["not_run"] += 1
                continue
            sid, state, key = f.result()
            if state == "refuted":
                res["refuted"] += 1
                res["by"][sid] = key
            elif state == "inapplicable":
                res["inapplicable"] += 1
            else:
                res["missed"].append(f"seeded change {sid} is no longer reported by {prop} ({state}{': ' + key if key else ''})")
    return res


def cmd_check(prop: str, tier: str, no_controls: bool = False) -> int:
    t0 = time.time()
    try:
        mod = load_rules(prop)
    except ModuleNotFoundError:
        print(f"ANALYSIS-ERROR property={prop} no rules module")
        return 2
    try:
        repo = Repo()
        ctx = run_rules(mod, prop, tier, repo)
        controls = None
        if not no_controls:
            budget = 30.0 if tier == "quick" else 600.0
            controls = self_validate(mod, prop, tier, ctx, budget)
        meta = dict(getattr(mod, "META", {}))
        if tier == "thorough" and not no_controls:
            am = auto_mutants(mod, prop, ctx, 900.0)
            ctx.analysed["auto_mutants"] = {k: (v if k != "silent_list" else v[:200]) for k, v in am.items()}
            print(f"   auto-mutants of the anchored functions: {am['generated']} generated, {am['refuted']} refuted, "
                  f"{am['undecided']} undecided, {am['silent']} silent (equivalent / outside the property / rule gap; listed in evidence)")
        if tier == "thorough" and not no_controls:
            sc = seed_corpus(prop, ctx, 600.0)
            ctx.analysed["seeded_corpus"] = sc
            print(f"   kept seeded changes of {prop}: {sc['kept_changes']} applied to the current tree, {sc['refuted']} refuted, "
                  f"{sc['inapplicable']} inapplicable, {len(sc['missed'])} no longer reported")
            if controls is not None:
                controls.setdefault("missed", []).extend(sc["missed"])
        meta["cmd"] = f"./sa check {prop} --tier {tier}"
        meta.setdefault("trusted_base", [
            "CPython ast parser", "aspire_sa engine (model, evaluator/GVN, CFG, rule tables)",
        ])
        return finish(ctx, t0, controls, meta)
    except AnalysisError as e:
        print(f"ANALYSIS-ERROR property={prop} {e}")
        return 2
    except Exception:
        traceback.print_exc()
        print(f"ANALYSIS-ERROR property={prop} internal error in the analysis (see traceback)")
        return 2


def cmd_replay(path: str) -> int:
    with open(path) as fh:
        rec = json.load(fh)
    prop = rec["property"]
    key = rec["finding"]["key"]
    mod = load_rules(prop)
    repo = Repo()
    ctx = run_rules(mod, prop, rec.get("tier", "quick"), repo)
    hit = [f for f in ctx.findings if f.key == key]
    if not hit:
        print(f"replay: rule instance {key!r} no longer exists on the current tree")
        return 2
    for f in hit:
        print(f"{f.verdict} {f.loc} [{f.rule}] {f.construct}\n  {f.detail}")
    return 1 if any(f.verdict == REFUTED for f in hit) else 0


def main(argv=None) -> int:
    ap = argparse.ArgumentParser(prog="sa")
    sub = ap.add_subparsers(dest="cmd", required=True)
    c = sub.add_parser("check")
    c.add_argument("prop")
    c.add_argument("--tier", default=os.environ.get("VERIF_TIER", "quick"), choices=["quick", "thorough"])
    c.add_argument("--no-controls", action="store_true")
    r = sub.add_parser("replay")
    r.add_argument("path")
    a = sub.add_parser("all")
    a.add_argument("--tier", default="quick")
    args = ap.parse_args(argv)
    if args.cmd == "check":
        return cmd_check(args.prop.upper(), args.tier, args.no_controls)
    if args.cmd == "replay":
        return cmd_replay(args.path)
    if args.cmd == "all":
        worst = 0
        for p in PROPS:
            try:
                load_rules(p)
            except ModuleNotFoundError:
                continue
            worst = max(worst, cmd_check(p, args.tier))
        return worst
    return 2


if __name__ == "__main__":
    sys.exit(main())
