"""Statement-level control-flow graph for one function.

Hand-built over the statement kinds the repository uses: If, While, For, With,
Try/Except/Finally, Return, Raise, Break, Continue and ``yield`` inside
``@contextmanager`` functions (an exceptional edge leaves the ``yield``).
Provides dominators, post-dominators, natural loop bodies, and min/max event
counting over the acyclic body of a loop.
"""

from __future__ import annotations

import ast
from dataclasses import dataclass, field

from . import AnalysisError


@dataclass(eq=False)
class Node:
    id: int
    kind: str  # entry exit raise stmt test for with handler finally join
    ast: ast.AST | None = None
    note: str = ""

    @property
    def lineno(self):
        return getattr(self.ast, "lineno", 0)

    def __repr__(self):
        src = ""
        if self.ast is not None:
            try:
                src = ast.unparse(self.ast).split("\n")[0][:60]
            except Exception:
                src = type(self.ast).__name__
        return f"<{self.id}:{self.kind}@{self.lineno} {src}>"


class CFG:
    def __init__(self, fn: ast.FunctionDef, exc_edges: bool = False):
        """*exc_edges*: also add an exceptional edge from every statement that
        contains a call / subscript / attribute access (it may raise)."""
        self.fn = fn
        self.nodes: list[Node] = []
        self.succ: dict = {}
        self.pred: dict = {}
        self.exc_edges = exc_edges
        self.entry = self._node("entry")
        self.exit = self._node("exit")
        self.raise_exit = self._node("raise")
        self.loops: list = []  # dicts: head, node(ast), body(set), breaks, continues
        self.stmt_node: dict = {}
        self._loop_stack: list = []
        self._try_stack: list = []  # each: dict(handlers=[Node], final=Node|None)
        out = self._seq(fn.body, [(self.entry, "next")])
        for n, lab in out:
            self._edge(n, self.exit, lab)

    # ------------------------------------------------------------ building
    def _node(self, kind, a=None, note=""):
        n = Node(len(self.nodes), kind, a, note)
        self.nodes.append(n)
        self.succ[n] = []
        self.pred[n] = []
        return n

    def _edge(self, a, b, label="next"):
        if (b, label) not in self.succ[a]:
            self.succ[a].append((b, label))
            self.pred[b].append((a, label))

    def _connect(self, preds, n):
        for p, lab in preds:
            self._edge(p, n, lab)

    def _exc_target(self):
        """Where an exception raised *here* goes: innermost handlers / finally,
        else the function's raise exit."""
        if self._try_stack:
            t = self._try_stack[-1]
            tg = list(t["handlers"])
            if t["final"] is not None:
                tg.append(t["final"])
            elif not t["catch_all"]:
                tg.append(("outer", len(self._try_stack) - 1))
            return tg
        return [self.raise_exit]

    def _add_exc(self, n, depth=None):
        stack = self._try_stack if depth is None else self._try_stack[:depth]
        if not stack:
            self._edge(n, self.raise_exit, "exc")
            return
        t = stack[-1]
        for h in t["handlers"]:
            self._edge(n, h, "exc")
        if t["final"] is not None:
            self._edge(n, t["final"], "exc")
        elif not t["catch_all"]:
            self._add_exc(n, len(stack) - 1)

    def _may_raise(self, s) -> bool:
        for x in ast.walk(s):
            if isinstance(x, (ast.Call, ast.Subscript, ast.Attribute, ast.BinOp, ast.Yield, ast.YieldFrom, ast.Await)):
                return True
        return False

    def _seq(self, stmts, preds):
        for s in stmts:
            preds = self._stmt(s, preds)
        return preds

    def _simple(self, s, preds, kind="stmt"):
        n = self._node(kind, s)
        self.stmt_node[s] = n
        self._connect(preds, n)
        in_try = bool(self._try_stack)
        has_yield = any(isinstance(x, (ast.Yield, ast.YieldFrom)) for x in ast.walk(s))
        if (in_try or self.exc_edges or has_yield) and (self._may_raise(s) or isinstance(s, ast.Raise)):
            self._add_exc(n)
        return n

    def _stmt(self, s, preds):
        if isinstance(s, (ast.FunctionDef, ast.AsyncFunctionDef, ast.ClassDef)):
            n = self._node("stmt", s, "def")
            self.stmt_node[s] = n
            self._connect(preds, n)
            return [(n, "next")]
        if isinstance(s, ast.Return):
            n = self._simple(s, preds)
            self._leave(n, "return")
            return []
        if isinstance(s, ast.Raise):
            n = self._node("stmt", s)
            self.stmt_node[s] = n
            self._connect(preds, n)
            self._add_exc(n)
            return []
        if isinstance(s, ast.Break):
            n = self._simple(s, preds)
            if not self._loop_stack:
                raise AnalysisError("break outside loop")
            self._loop_stack[-1]["breaks"].append(n)
            return []
        if isinstance(s, ast.Continue):
            n = self._simple(s, preds)
            lp = self._loop_stack[-1]
            lp["continues"].append(n)
            self._edge(n, lp["head"], "back")
            return []
        if isinstance(s, ast.If):
            t = self._node("test", s.test)
            self.stmt_node[s] = t
            self._connect(preds, t)
            if self._try_stack or self.exc_edges:
                if self._may_raise(s.test):
                    self._add_exc(t)
            a = self._seq(s.body, [(t, "true")])
            b = self._seq(s.orelse, [(t, "false")]) if s.orelse else [(t, "false")]
            return a + b
        if isinstance(s, (ast.While, ast.For)):
            head = self._node("test" if isinstance(s, ast.While) else "for", s.test if isinstance(s, ast.While) else s.iter)
            self.stmt_node[s] = head
            self._connect(preds, head)
            lp = {"head": head, "node": s, "breaks": [], "continues": [], "body": set()}
            self._loop_stack.append(lp)
            first = len(self.nodes)
            out = self._seq(s.body, [(head, "true")])
            for n, lab in out:
                self._edge(n, head, "back")
            lp["body"] = set(self.nodes[first:])
            self._loop_stack.pop()
            self.loops.append(lp)
            exits = []
            infinite = isinstance(s, ast.While) and isinstance(s.test, ast.Constant) and s.test.value is True
            if not infinite:
                exits = self._seq(s.orelse, [(head, "false")]) if s.orelse else [(head, "false")]
            exits += [(b, "break") for b in lp["breaks"]]
            return exits
        if isinstance(s, ast.With):
            n = self._simple(s, preds, "with")
            return self._seq(s.body, [(n, "next")])
        if isinstance(s, ast.Try):
            final = self._node("finally", s, "finally") if s.finalbody else None
            handlers = [self._node("handler", h) for h in s.handlers]
            catch_all = any(h.type is None or (isinstance(h.type, ast.Name) and h.type.id in ("Exception", "BaseException")) for h in s.handlers)
            tinfo = {"handlers": handlers, "final": final, "catch_all": catch_all}
            self._try_stack.append(tinfo)
            body_out = self._seq(s.body, preds)
            self._try_stack.pop()
            # handlers run with only the finally (if any) as exception target
            tinfo2 = {"handlers": [], "final": final, "catch_all": False}
            if final is not None:
                self._try_stack.append(tinfo2)
            else_out = self._seq(s.orelse, body_out) if s.orelse else body_out
            h_out = []
            for hn, h in zip(handlers, s.handlers):
                h_out += self._seq(h.body, [(hn, "next")])
            if final is not None:
                self._try_stack.pop()
            outs = else_out + h_out
            if final is not None:
                self._connect(outs, final)
                f_out = self._seq(s.finalbody, [(final, "next")])
                # after an exceptional entry the exception propagates
                for n, lab in f_out:
                    self._add_exc_from_finally(n)
                if tinfo.get("returns") or tinfo2.get("returns"):
                    for n, lab in f_out:
                        self._leave(n, "return")
                return f_out
            return outs
        # plain statement
        n = self._simple(s, preds)
        return [(n, "next")]

    def _add_exc_from_finally(self, n):
        if self._try_stack:
            self._add_exc(n)
        else:
            self._edge(n, self.raise_exit, "reraise")

    def _leave(self, n, label):
        """A return: runs the innermost enclosing finally block (which then
        leaves in turn), else reaches the function exit."""
        for t in reversed(self._try_stack):
            if t["final"] is not None:
                self._edge(n, t["final"], label)
                t["returns"] = True
                return
        self._edge(n, self.exit, label)

    # ------------------------------------------------------------ queries
    def node_for(self, stmt) -> Node:
        if stmt not in self.stmt_node:
            raise AnalysisError(f"statement at line {getattr(stmt, 'lineno', '?')} not in CFG")
        return self.stmt_node[stmt]

    def _dom(self, root, succ):
        nodes = self.reachable(root, succ)
        dom = {n: set(nodes) for n in nodes}
        dom[root] = {root}
        pred = {n: [] for n in nodes}
        for a in nodes:
            for b, _ in succ[a]:
                if b in pred:
                    pred[b].append(a)
        changed = True
        order = list(nodes)
        while changed:
            changed = False
            for n in order:
                if n is root:
                    continue
                ps = [dom[p] for p in pred[n]]
                new = set.intersection(*ps) if ps else set()
                new = new | {n}
                if new != dom[n]:
                    dom[n] = new
                    changed = True
        return dom

    def reachable(self, root, succ=None):
        succ = succ or self.succ
        seen, todo = [], [root]
        s = set()
        while todo:
            n = todo.pop()
            if n in s:
                continue
            s.add(n)
            seen.append(n)
            for m, _ in succ[n]:
                todo.append(m)
        return seen

    def dominators(self):
        return self._dom(self.entry, self.succ)

    def postdominators(self, include_raise: bool = False):
        """Post-dominators w.r.t. the normal exit (raise paths ignored unless
        *include_raise*, in which case a virtual sink joins both)."""
        rsucc = {n: [(p, l) for p, l in self.pred[n]] for n in self.nodes}
        if include_raise:
            sink = Node(-1, "sink")
            rsucc[sink] = [(self.exit, "v"), (self.raise_exit, "v")]
            return self._dom(sink, rsucc)
        return self._dom(self.exit, rsucc)

    def loop_of(self, stmt):
        for lp in self.loops:
            if lp["node"] is stmt:
                return lp
        raise AnalysisError("loop not found in CFG")

    def count_range(self, lp, weight, skip_edge=None) -> tuple:
        """(min, max) total *weight(node)* over every path through one
        iteration of loop *lp*: from the head's body entry to a back edge or a
        break, with inner loops contracted (their body counted 0..inf -> we
        report max as None if a weighted node sits inside an inner loop)."""
        head = lp["head"]
        body = lp["body"]
        inner = [l for l in self.loops if l is not lp and l["head"] in body]
        inner_nodes = set()
        for l in inner:
            inner_nodes |= l["body"]
        for n in inner_nodes:
            if weight(n):
                return (0, None)
        memo: dict = {}

        def rec(n):
            if n in memo:
                return memo[n]
            memo[n] = None  # cycle guard
            w = weight(n)
            outs = []
            for m, lab in self.succ[n]:
                if lab == "exc":
                    continue
                if skip_edge is not None and skip_edge(n, m, lab):
                    continue
                if lab == "back" and m is head:
                    outs.append((0, 0))
                elif m not in body:
                    outs.append((0, 0))  # left the loop (break / return)
                else:
                    if lab == "back":
                        continue  # inner loop back edge
                    r = rec(m)
                    if r is not None:
                        outs.append(r)
            if not outs:
                res = (w, w)
            else:
                res = (w + min(o[0] for o in outs), w + max(o[1] for o in outs))
            memo[n] = res
            return res

        firsts = [m for m, lab in self.succ[head] if lab == "true"]
        rs = [rec(m) for m in firsts]
        rs = [r for r in rs if r is not None]
        if not rs:
            return (0, 0)
        return (min(r[0] for r in rs), max(r[1] for r in rs))

    def paths_avoiding(self, src, dst, avoid, labels_skip=("exc",)) -> bool:
        """Is there a path src -> dst that avoids every node in *avoid*?"""
        seen = set()
        todo = [src]
        while todo:
            n = todo.pop()
            if n in seen:
                continue
            seen.add(n)
            if n is dst:
                return True
            for m, lab in self.succ[n]:
                if lab in labels_skip or m in avoid:
                    continue
                todo.append(m)
        return False


def calls_in(node_ast):
    """Call nodes inside a statement/expression (not descending into nested defs)."""
    if node_ast is None:
        return []
    if isinstance(node_ast, (ast.FunctionDef, ast.AsyncFunctionDef, ast.ClassDef)):
        return []
    out = []
    todo = [node_ast]
    while todo:
        n = todo.pop()
        if isinstance(n, ast.Call):
            out.append(n)
        if isinstance(n, ast.ExceptHandler):
            if n.type is not None:
                todo.append(n.type)
            continue
        if isinstance(n, (ast.If, ast.While, ast.For, ast.With, ast.Try)):
            # compound statement: only its header expression belongs to this node
            if isinstance(n, (ast.If, ast.While)):
                todo.append(n.test)
            elif isinstance(n, ast.For):
                todo.append(n.iter)
            elif isinstance(n, ast.With):
                todo.extend(i.context_expr for i in n.items)
            continue
        for c in ast.iter_child_nodes(n):
            if isinstance(c, (ast.FunctionDef, ast.AsyncFunctionDef, ast.ClassDef, ast.Lambda)):
                continue
            todo.append(c)
    return out
