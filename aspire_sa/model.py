"""Program model: modules, imports, classes (with MRO), methods, dataclass fields.

Built fresh from the repository source on every invocation.  An *overlay*
(``{relative path -> source text}``) replaces files in memory; the self-validation
corpus uses it to analyse seeded variants without touching the disk.
"""

from __future__ import annotations

import ast
import os
from dataclasses import dataclass, field

from . import AnalysisError

PKG = "aspire"
_PARSE_CACHE: dict = {}
_NORM_CACHE: dict = {}
MIN_MODULES = 15


def repo_root() -> str:
    return os.environ.get("ASPIRE_REPO", "/repo")


@dataclass(repr=False, eq=False)
class FuncInfo:
    name: str
    qualname: str  # e.g. Samples.compute_weights or sample.<locals>.maybe_checkpoint
    module: "ModuleInfo"
    node: ast.FunctionDef
    cls: "ClassInfo | None" = None
    parent: "FuncInfo | None" = None
    decorators: list = field(default_factory=list)
    nested: dict = field(default_factory=dict)

    def __repr__(self):
        return f"<Func {self.ident}>"

    @property
    def ident(self) -> str:
        return f"{self.module.name}:{self.qualname}"

    @property
    def params(self) -> list:
        a = self.node.args
        return [x.arg for x in a.posonlyargs + a.args + a.kwonlyargs]

    @property
    def positional_params(self) -> list:
        a = self.node.args
        return [x.arg for x in a.posonlyargs + a.args]

    def has_decorator(self, name: str) -> bool:
        return name in self.decorators

    def param_defaults(self) -> dict:
        """name -> default AST (only for parameters that have one)."""
        a = self.node.args
        out = {}
        pos = a.posonlyargs + a.args
        for p, d in zip(pos[len(pos) - len(a.defaults):], a.defaults):
            out[p.arg] = d
        for p, d in zip(a.kwonlyargs, a.kw_defaults):
            if d is not None:
                out[p.arg] = d
        return out

    @property
    def loc(self) -> str:
        return f"{self.module.relpath}:{self.node.lineno}"


@dataclass
class FieldInfo:
    name: str
    init: bool
    has_default: bool
    owner: str
    default: ast.AST | None = None
    factory: bool = False
    annotation: str = ""

    @property
    def per_sample(self) -> bool:
        """Array-valued field with one entry per sample."""
        return self.annotation.replace(" ", "").startswith("Array")


@dataclass(repr=False, eq=False)
class ClassInfo:
    name: str
    module: "ModuleInfo"
    node: ast.ClassDef
    base_exprs: list = field(default_factory=list)
    bases: list = field(default_factory=list)  # resolved ClassInfo (internal only)
    external_bases: list = field(default_factory=list)  # dotted names
    methods: dict = field(default_factory=dict)
    class_assigns: dict = field(default_factory=dict)
    decorators: list = field(default_factory=list)
    own_fields: list = field(default_factory=list)
    _mro: list | None = None

    def __repr__(self):
        return f"<Class {self.ident}>"

    @property
    def ident(self) -> str:
        return f"{self.module.name}:{self.name}"

    @property
    def is_dataclass(self) -> bool:
        return "dataclass" in self.decorators

    def mro(self) -> list:
        if self._mro is None:
            self._mro = _c3(self)
        return self._mro

    def resolve(self, name: str) -> FuncInfo | None:
        for c in self.mro():
            if name in c.methods:
                return c.methods[name]
        return None

    def resolve_after(self, owner: "ClassInfo", name: str) -> FuncInfo | None:
        """``super().name`` as seen from a method defined in *owner* on an
        instance whose concrete class is *self*."""
        mro = self.mro()
        if owner not in mro:
            raise AnalysisError(f"{owner.ident} not in MRO of {self.ident}")
        for c in mro[mro.index(owner) + 1:]:
            if name in c.methods:
                return c.methods[name]
        return None

    def fields(self) -> list:
        """Dataclass fields in definition order across the MRO (base first);
        a redefinition in a subclass keeps the base position."""
        out: dict = {}
        for c in reversed(self.mro()):
            if not c.is_dataclass:
                continue
            for f in c.own_fields:
                out[f.name] = f
        return list(out.values())

    def init_fields(self) -> list:
        return [f for f in self.fields() if f.init]

    def is_subclass_of(self, other: "ClassInfo") -> bool:
        return other in self.mro()

    def class_attr(self, name: str):
        for c in self.mro():
            if name in c.class_assigns:
                return c.class_assigns[name]
        return None


def _c3(cls: ClassInfo) -> list:
    seqs = [list(b.mro()) for b in cls.bases] + [list(cls.bases)]
    res = [cls]
    while True:
        seqs = [s for s in seqs if s]
        if not seqs:
            return res
        for s in seqs:
            cand = s[0]
            if not any(cand in t[1:] for t in seqs):
                break
        else:
            raise AnalysisError(f"inconsistent MRO for {cls.ident}")
        res.append(cand)
        for s in seqs:
            if s and s[0] is cand:
                del s[0]


@dataclass(repr=False, eq=False)
class ModuleInfo:
    name: str
    relpath: str
    path: str
    source: str
    tree: ast.Module
    imports: dict = field(default_factory=dict)  # local -> (module, attr|None)
    functions: dict = field(default_factory=dict)
    classes: dict = field(default_factory=dict)
    constants: dict = field(default_factory=dict)

    def __repr__(self):
        return f"<Module {self.name}>"

    @property
    def is_package(self) -> bool:
        return self.relpath.endswith("__init__.py")


def _decorator_name(d: ast.AST) -> str:
    if isinstance(d, ast.Call):
        d = d.func
    if isinstance(d, ast.Attribute):
        # x.setter -> "setter", functools.wraps -> "wraps"
        return d.attr
    if isinstance(d, ast.Name):
        return d.id
    return "?"


def dotted(e: ast.AST) -> str | None:
    if isinstance(e, ast.Name):
        return e.id
    if isinstance(e, ast.Attribute):
        b = dotted(e.value)
        return None if b is None else f"{b}.{e.attr}"
    return None


class Repo:
    def __init__(self, root: str | None = None, overlay: dict | None = None):
        self.root = root or repo_root()
        self.overlay = dict(overlay or {})
        self.src = os.path.join(self.root, "src")
        self.modules: dict[str, ModuleInfo] = {}
        self._load()
        self._link()

    # ---------------------------------------------------------------- load
    def _load(self):
        base = os.path.join(self.src, PKG)
        if not os.path.isdir(base):
            raise AnalysisError(f"package directory {base} not found")
        for dirpath, dirnames, filenames in os.walk(base):
            dirnames[:] = sorted(d for d in dirnames if d != "__pycache__")
            for fn in sorted(filenames):
                if not fn.endswith(".py"):
                    continue
                path = os.path.join(dirpath, fn)
                rel = os.path.relpath(path, self.root)
                if rel in self.overlay:
                    source = self.overlay[rel]
                else:
                    with open(path, encoding="utf-8") as f:
                        source = f.read()
                ck = (rel, hash(source))
                tree = _PARSE_CACHE.get(ck)
                if tree is None:
                    try:
                        tree = ast.parse(source, filename=rel)
                    except SyntaxError as e:
                        raise AnalysisError(f"syntax error in {rel}: {e}")
                    _PARSE_CACHE[ck] = tree  # trees are never mutated by the analyses
                modrel = os.path.relpath(path, self.src)[:-3].replace(os.sep, ".")
                if modrel.endswith(".__init__"):
                    modrel = modrel[: -len(".__init__")]
                self.modules[modrel] = ModuleInfo(modrel, rel, path, source, tree)
        if len(self.modules) < MIN_MODULES:
            raise AnalysisError(
                f"only {len(self.modules)} modules parsed under {base}; expected >= {MIN_MODULES}"
            )
        # extract-method normalisation: new private helpers are inlined back into their callers (aspire_sa/inline.py)
        from . import inline as _inline
        nk = tuple(sorted((k, hash(m.source)) for k, m in self.modules.items()))
        res = _NORM_CACHE.get(nk)
        if res is None:
            res = _inline.normalise({k: m.tree for k, m in self.modules.items()})
            _NORM_CACHE[nk] = res
        changed, self.inlined_helpers = res
        # helpers whose every use was inlined are judged inside their callers
        self.inlined_idents = {f"{mod}:{cn}.{h}" for mod, cn, _caller, _n, used in self.inlined_helpers for h in used}
        for k, tree in changed.items():
            m = self.modules[k]
            self.modules[k] = ModuleInfo(m.name, m.relpath, m.path, m.source, tree)
        for m in self.modules.values():
            self._index_module(m)

    def _abs_module(self, m: ModuleInfo, level: int, module: str | None) -> str:
        if level == 0:
            return module or ""
        parts = m.name.split(".")
        if not m.is_package:
            parts = parts[:-1]
        if level > 1:
            parts = parts[: len(parts) - (level - 1)]
        if module:
            parts = parts + module.split(".")
        return ".".join(parts)

    def _index_imports(self, m: ModuleInfo, body, table: dict):
        for node in walk_no_nested(ast.Module(body=list(body), type_ignores=[])):
            if isinstance(node, ast.Import):
                for a in node.names:
                    local = a.asname or a.name.split(".")[0]
                    target = a.name if a.asname else a.name.split(".")[0]
                    table[local] = (target, None)
            elif isinstance(node, ast.ImportFrom):
                mod = self._abs_module(m, node.level, node.module)
                for a in node.names:
                    table[a.asname or a.name] = (mod, a.name)

    def _index_module(self, m: ModuleInfo):
        self._index_imports(m, m.tree.body, m.imports)
        for node in m.tree.body:
            if isinstance(node, (ast.FunctionDef, ast.AsyncFunctionDef)):
                m.functions[node.name] = self._func(m, node, node.name, None, None)
            elif isinstance(node, ast.ClassDef):
                m.classes[node.name] = self._class(m, node)
            elif isinstance(node, ast.Assign) and len(node.targets) == 1 and isinstance(
                node.targets[0], ast.Name
            ):
                m.constants[node.targets[0].id] = node.value

    def _func(self, m, node, qual, cls, parent) -> FuncInfo:
        fi = FuncInfo(
            name=node.name,
            qualname=qual,
            module=m,
            node=node,
            cls=cls,
            parent=parent,
            decorators=[_decorator_name(d) for d in node.decorator_list],
        )
        for sub in _direct_nested_functions(node):
            fi.nested[sub.name] = self._func(
                m, sub, f"{qual}.<locals>.{sub.name}", cls, fi
            )
        return fi

    def _class(self, m: ModuleInfo, node: ast.ClassDef) -> ClassInfo:
        ci = ClassInfo(
            name=node.name,
            module=m,
            node=node,
            base_exprs=list(node.bases),
            decorators=[_decorator_name(d) for d in node.decorator_list],
        )
        for st in node.body:
            if isinstance(st, (ast.FunctionDef, ast.AsyncFunctionDef)):
                fi = self._func(m, st, f"{node.name}.{st.name}", ci, None)
                # property setter shares the name; keep getter under name and
                # setter under "name.setter"
                if "setter" in fi.decorators:
                    ci.methods[f"{st.name}.setter"] = fi
                else:
                    ci.methods[st.name] = fi
            elif isinstance(st, ast.AnnAssign) and isinstance(st.target, ast.Name):
                init, has_default, default = True, st.value is not None, st.value
                factory = False
                if isinstance(st.value, ast.Call) and dotted(st.value.func) in (
                    "field",
                    "dataclasses.field",
                ):
                    has_default = False
                    default = None
                    for kw in st.value.keywords:
                        if kw.arg == "init" and isinstance(kw.value, ast.Constant):
                            init = bool(kw.value.value)
                        if kw.arg in ("default", "default_factory"):
                            has_default = True
                            default = kw.value
                            factory = kw.arg == "default_factory"
                ann = ast.unparse(st.annotation)
                if ann.startswith("ClassVar"):
                    if st.value is not None:
                        ci.class_assigns[st.target.id] = st.value
                    continue
                ci.own_fields.append(
                    FieldInfo(st.target.id, init, has_default, node.name, default, factory, ann)
                )
                if st.value is not None:
                    ci.class_assigns[st.target.id] = st.value
            elif isinstance(st, ast.Assign):
                for t in st.targets:
                    if isinstance(t, ast.Name):
                        ci.class_assigns[t.id] = st.value
        return ci

    # ---------------------------------------------------------------- link
    def _link(self):
        for m in self.modules.values():
            for c in m.classes.values():
                for be in c.base_exprs:
                    tgt = self.resolve_name(m, dotted(be) or "")
                    if isinstance(tgt, ClassInfo):
                        c.bases.append(tgt)
                    else:
                        c.external_bases.append(dotted(be) or ast.unparse(be))

    def resolve_name(self, m: ModuleInfo, name: str, extra_imports: dict | None = None):
        """Resolve a (possibly dotted) name used in module *m* to a
        ClassInfo / FuncInfo / ModuleInfo / ('ext', dotted) / None."""
        if not name:
            return None
        head, *rest = name.split(".")
        cur = None
        if extra_imports and head in extra_imports:
            cur = self._import_target(extra_imports[head])
        elif head in m.classes:
            cur = m.classes[head]
        elif head in m.functions:
            cur = m.functions[head]
        elif head in m.imports:
            cur = self._import_target(m.imports[head])
        else:
            return None
        for part in rest:
            if isinstance(cur, ModuleInfo):
                nxt = self._module_attr(cur, part)
                if nxt is None:
                    sub = self.modules.get(f"{cur.name}.{part}")
                    nxt = sub
                cur = nxt
            elif isinstance(cur, ClassInfo):
                cur = cur.resolve(part)
            elif isinstance(cur, tuple) and cur[0] == "ext":
                cur = ("ext", f"{cur[1]}.{part}")
            else:
                return None
            if cur is None:
                return None
        return cur

    def _module_attr(self, mod: ModuleInfo, attr: str, _seen=None):
        if attr in mod.classes:
            return mod.classes[attr]
        if attr in mod.functions:
            return mod.functions[attr]
        if attr in mod.imports:
            _seen = _seen or set()
            if (mod.name, attr) in _seen:
                return None
            _seen.add((mod.name, attr))
            return self._import_target(mod.imports[attr], _seen)
        return None

    def _import_target(self, tgt, _seen=None):
        module, attr = tgt
        if module in self.modules:
            mod = self.modules[module]
            if attr is None:
                return mod
            got = self._module_attr(mod, attr, _seen)
            if got is not None:
                return got
            sub = self.modules.get(f"{module}.{attr}")
            if sub is not None:
                return sub
            return ("ext", f"{module}.{attr}")
        return ("ext", module if attr is None else f"{module}.{attr}")

    # -------------------------------------------------------------- lookup
    def module(self, name: str) -> ModuleInfo:
        if name not in self.modules:
            raise AnalysisError(f"anchor module {name} not found")
        return self.modules[name]

    def cls(self, ident: str) -> ClassInfo:
        mod, _, name = ident.partition(":")
        m = self.module(mod)
        if name not in m.classes:
            raise AnalysisError(f"anchor class {ident} not found")
        return m.classes[name]

    def func(self, ident: str) -> FuncInfo:
        """``module:func`` / ``module:Class.method`` / ``...<locals>.inner``.
        Methods are looked up on the class itself (not inherited)."""
        mod, _, qual = ident.partition(":")
        m = self.module(mod)
        parts = qual.split(".")
        cur = None
        i = 0
        if parts[0] in m.classes:
            c = m.classes[parts[0]]
            if len(parts) < 2 or parts[1] not in c.methods:
                raise AnalysisError(f"anchor function {ident} not found")
            cur = c.methods[parts[1]]
            i = 2
        elif parts[0] in m.functions:
            cur = m.functions[parts[0]]
            i = 1
        else:
            raise AnalysisError(f"anchor function {ident} not found")
        while i < len(parts):
            if parts[i] == "<locals>":
                i += 1
                continue
            if parts[i] not in cur.nested:
                raise AnalysisError(f"anchor function {ident} not found")
            cur = cur.nested[parts[i]]
            i += 1
        return cur

    def method(self, cls_ident: str, name: str) -> FuncInfo:
        """Resolve *name* on class *cls_ident* through the MRO."""
        c = self.cls(cls_ident)
        f = c.resolve(name)
        if f is None:
            raise AnalysisError(f"method {name} not found on {cls_ident} (MRO)")
        return f

    def all_classes(self):
        for m in self.modules.values():
            yield from m.classes.values()

    def all_functions(self, include_nested: bool = True):
        def rec(f):
            yield f
            if include_nested:
                for n in f.nested.values():
                    yield from rec(n)

        for m in self.modules.values():
            for f in m.functions.values():
                yield from rec(f)
            for c in m.classes.values():
                for f in c.methods.values():
                    yield from rec(f)

    def subclasses(self, base: ClassInfo, strict: bool = False):
        for c in self.all_classes():
            if base in c.mro() and not (strict and c is base):
                yield c

    def function_imports(self, f: FuncInfo) -> dict:
        """Imports executed inside the function body (``from x import y``)."""
        table: dict = {}
        self._index_imports(f.module, f.node.body, table)
        cur = f.parent
        while cur is not None:
            outer: dict = {}
            self._index_imports(cur.module, cur.node.body, outer)
            for k, v in outer.items():
                table.setdefault(k, v)
            cur = cur.parent
        return table

    def stats(self) -> dict:
        nfunc = sum(1 for _ in self.all_functions())
        return {
            "modules": len(self.modules),
            "classes": sum(1 for _ in self.all_classes()),
            "functions": nfunc,
            "lines": sum(m.source.count("\n") + 1 for m in self.modules.values()),
        }


def _direct_nested_functions(node):
    """Function definitions nested (at any statement depth) directly in *node*
    but not inside a deeper function/class."""
    out = []

    def visit(stmts):
        for st in stmts:
            if isinstance(st, (ast.FunctionDef, ast.AsyncFunctionDef)):
                out.append(st)
                continue
            if isinstance(st, ast.ClassDef):
                continue
            for fld in ("body", "orelse", "finalbody"):
                sub = getattr(st, fld, None)
                if isinstance(sub, list):
                    visit(sub)
            if isinstance(st, ast.Try):
                for h in st.handlers:
                    visit(h.body)
            if hasattr(ast, "Match") and isinstance(st, ast.Match):
                for c in st.cases:
                    visit(c.body)

    visit(node.body)
    return out


def walk_no_nested(node):
    """ast.walk that does not descend into nested function / class / lambda
    definitions (the root itself may be a function)."""
    todo = list(ast.iter_child_nodes(node))
    while todo:
        n = todo.pop()
        yield n
        if isinstance(n, (ast.FunctionDef, ast.AsyncFunctionDef, ast.ClassDef, ast.Lambda)):
            continue
        todo.extend(ast.iter_child_nodes(n))
