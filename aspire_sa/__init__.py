"""aspire_sa -- repository-specific static analysis of mj-will/aspire.

Every check parses ``$ASPIRE_REPO/src/aspire`` (default /repo) on each run and
decides its property from the syntax tree, class hierarchy, call graph,
per-function control-flow graph and value-numbering facts.  Nothing here imports
or executes aspire.
"""

__all__ = ["AnalysisError"]


class AnalysisError(Exception):
    """The analysis could not decide (anchor vanished, unknown idiom, ...).

    Mapped to ``ANALYSIS-ERROR`` / exit status 2 -- never to a VIOLATION and
    never to a silent pass.
    """
