"""Symbolic derivative of element-wise maps and a log-absolute-value normal form.

Used by C04.deriv: for an element-wise bijection y = f(x) the forward
log-Jacobian must equal the column sum of log|dy/dx|.  Differentiation is a
syntax-directed program transformation over the term language; ``logabs`` puts
log|R| of a rational expression R into a canonical linear combination of
``logabs(atom)`` terms, so that two spellings of the same Jacobian coincide.
Everything is over the reals on the domain where the code is defined
(arguments of log are positive there, so log t == log|t|).
"""

from __future__ import annotations

from fractions import Fraction

from . import terms as T
from .evalr import norm_app


class NotDifferentiable(Exception):
    pass


# helper functions returning (value, log-Jacobian) whose contract is verified on its own
HELPER_CALLS = {"call:aspire.utils:logit", "call:aspire.utils:sigmoid"}


def depends(t, x) -> bool:
    return any(s == x for s in T.subterms(t))


SQRT_PI = ("f", "sqrt", (T.atom("pi"),), ())


def diff(t, x):
    """d t / d x for element-wise t (per-column parameters are constants)."""
    if t == x:
        return T.ONE
    if not depends(t, x):
        return T.ZERO
    k = t[0]
    if k == "p":
        total = T.ZERO
        for m, c in t[1]:
            for i, (b, e) in enumerate(m):
                db = diff(b, x)
                if db == T.ZERO:
                    continue
                term = T.const(c * e)
                term = T.mul(term, db)
                for j, (b2, e2) in enumerate(m):
                    ee = e2 - 1 if j == i else e2
                    if ee != 0:
                        term = T._mul_by_unit(term, b2, ee)
                total = T.add(total, term)
        return total
    if k == "s" and T.const_value(t[2]) == 0 and t[1][0] == "f" and t[1][1] in HELPER_CALLS and t[1][2]:
        # first result of a verified element-wise helper pair (contract: its second
        # result is the column sum of log|d first / d argument|)
        return T.mul(("f", "dhelper", (t[1],), ()), diff(t[1][2][0], x))
    if k == "f":
        name, args = t[1], t[2]
        if not args:
            raise NotDifferentiable(name)
        u = args[0]
        du = diff(u, x)
        if any(depends(a, x) for a in args[1:]) or any(depends(v, x) for _, v in t[3]):
            raise NotDifferentiable(f"{name} with x in a secondary argument")
        if name == "log":
            return T.div(du, u)
        if name == "exp":
            return T.mul(t, du)
        if name == "sqrt":
            return T.div(du, T.mul(T.const(2), t))
        if name == "erf":
            return T.mul(T.mul(T.div(T.const(2), SQRT_PI), norm_app("exp", [T.neg(T.powi(u, 2))])), du)
        if name == "erfinv":
            return T.mul(T.mul(T.div(SQRT_PI, T.const(2)), norm_app("exp", [T.powi(t, 2)])), du)
        if name in ("clip", "mod"):
            return du  # away from the clip margin / the wrap points
        raise NotDifferentiable(name)
    if k == "phi":
        return T.phi(t[1], diff(t[2], x), diff(t[3], x))
    raise NotDifferentiable(k)


def LA(atom_term):
    return ("f", "logabs", (atom_term,), ())


def logabs(R):
    """Canonical form of log|R| for a rational expression R."""
    if R[0] == "phi":
        return T.phi(R[1], logabs(R[2]), logabs(R[3]))
    if not T.is_poly(R):
        return _la_base(R)
    if len(R[1]) > 1:
        R2 = T.expand_poly_bases(R)
        if R2 != R:
            return logabs(R2)
    items = [(m, c) for m, c in R[1]]
    if not items:
        raise NotDifferentiable("log of zero")
    if len(items) == 1:
        m, c = items[0]
        out = _la_const(c)
        for b, e in m:
            out = T.add(out, T.mul(T.const(e), _la_base(b)))
        return out
    # several monomials: pull out the common monomial factor first
    common = None
    for m, _c in items:
        d = dict(m)
        if common is None:
            common = d
        else:
            common = {b: (min(e, d[b]) if (e > 0) == (d[b] > 0) else 0) for b, e in common.items() if b in d}
            common = {b: e for b, e in common.items() if e != 0}
    if common:
        rest = R
        out = T.ZERO
        for b, e in common.items():
            rest = T._mul_by_unit(rest, b, -e)
            out = T.add(out, T.mul(T.const(e), _la_base(b)))
        return T.add(out, logabs(rest))
    # clear denominators, then keep the numerator as a unit
    neg = {}
    for m, _c in items:
        for b, e in m:
            if e < 0:
                neg[b] = max(neg.get(b, 0), -e)
    if neg:
        N = R
        for b, kk in neg.items():
            N = T._mul_by_unit(N, b, kk)
        N = T.expand_poly_bases(N)
        out = logabs(N)
        for b, kk in neg.items():
            out = T.sub(out, T.mul(T.const(kk), _la_base(b)))
        return out
    # pull out the rational content so that c*(...) and (...) share an atom
    lead = items[0][1]
    if lead != 1:
        inner = T.div(R, T.const(lead))
        return T.add(_la_const(lead), LA(inner))
    return LA(R)


def _la_const(c):
    c = Fraction(c)
    if c == 0:
        raise NotDifferentiable("log of zero")
    c = abs(c)
    if c == 1:
        return T.ZERO
    out = T.ZERO
    if c.numerator != 1:
        out = T.add(out, LA(T.const(c.numerator)))
    if c.denominator != 1:
        out = T.sub(out, LA(T.const(c.denominator)))
    return out


def _la_base(b):
    if T.is_poly(b):
        return logabs(b)
    if b[0] == "f":
        if b[1] == "exp" and len(b[2]) == 1:
            return b[2][0]
        if b[1] == "sqrt" and len(b[2]) == 1:
            return T.mul(T.const(Fraction(1, 2)), logabs(b[2][0]))
        if b[1] == "abs" and len(b[2]) == 1:
            return logabs(b[2][0])
        if b[1] == "dhelper":
            return ("f", "lahelper", b[2], ())
    if b[0] == "phi":
        return T.phi(b[1], logabs(b[2]), logabs(b[3]))
    return LA(b)


def colsum(t, x):
    """Column sum distributed over the terms of a linear combination."""
    if t[0] == "phi":
        return T.phi(t[1], colsum(t[2], x), colsum(t[3], x))
    total = T.ZERO
    for m, c in T._as_dict(t).items():
        if m == ():
            piece = ("f", "colsum", (T.ONE,), ())
        else:
            inner = T._mk({m: 1})
            if inner[0] == "f" and inner[1] == "lahelper":
                # contract of a verified helper: its reported log-Jacobian *is* this column sum
                piece = ("s", inner[2][0], T.const(1))
            else:
                piece = ("f", "colsum", (inner,), ())
        total = T.add(total, T.mul(T.const(c), piece))
    return total


def normalise_jacobian(j, x):
    """Rewrite a code-side log-Jacobian: log(t) -> logabs normal form; sums over
    the last axis (or over per-column constants) -> distributed colsum."""
    def rec(t):
        if not isinstance(t, tuple) or not t:
            return t
        k = t[0]
        if k == "p":
            total = T.ZERO
            for m, c in t[1]:
                term = T.const(c)
                for b, e in m:
                    rb = rec(b)
                    term = T.mul(term, T.powi(rb, e) if e > 0 else T.div(T.ONE, T.powi(rb, -e)))
                total = T.add(total, term)
            return total
        if k == "f":
            name, args, kw = t[1], t[2], dict(t[3])
            if name == "log" and len(args) == 1:
                return logabs(rec_inner(args[0]))
            if name == "sum" and len(args) == 1:
                inner = rec(args[0])
                axis = kw.get("axis")
                if axis is not None and T.const_value(axis) == -1:
                    return colsum(inner, x)
                if axis is None and not depends(inner, x):
                    return colsum(inner, x)
                return ("f", "sum", (inner,), t[3])
            return ("f", name, tuple(rec(a) for a in args), tuple((n, rec(v)) for n, v in t[3]))
        if k == "phi":
            return T.phi(t[1], rec(t[2]), rec(t[3]))
        return t

    def rec_inner(t):
        # inside log(): keep the argument as is (only strip nested logs recursively)
        return t

    return rec(j)
