"""Abstract evaluator: puts the code of a function into value-numbered normal
form (terms.py).  Classical GVN over gated-SSA: straight-line code and ``if``
joins are interpreted, loops havoc what they assign, calls to repository
helpers are inlined up to a bound, everything else is an uninterpreted
application whose callee identity is canonicalised across spellings.

It never executes repository code; it folds syntax into terms.
"""

from __future__ import annotations

import ast
import itertools
from dataclasses import dataclass, field

from . import AnalysisError
from . import terms as T
from .model import ClassInfo, FuncInfo, ModuleInfo, Repo, dotted, walk_no_nested

# ----------------------------------------------------------------- tables
# namespace-like module names: attribute access on these yields functions
NAMESPACE_EXT = {
    "numpy", "array_api_compat.numpy", "math", "jax.numpy", "torch",
    "array_api_compat.torch", "scipy.special", "jax", "jax.random",
}
# variable / attribute names that denote an array namespace
NAMESPACE_NAMES = {"xp", "np", "jnp", "torch", "torch_api", "math", "target_xp", "np_xp", "torch_xp"}

# canonical elementwise / reduction functions: spelling -> canonical name
CANON_FUNCS = {
    "exp": "exp", "log": "log", "sqrt": "sqrt", "abs": "abs", "absolute": "abs",
    "sum": "sum", "mean": "mean", "var": "var", "std": "std", "max": "max",
    "amax": "max", "min": "min", "amin": "min", "isnan": "isnan",
    "isfinite": "isfinite", "isinf": "isinf", "any": "any", "all": "all",
    "where": "where", "clip": "clip", "ones": "ones", "zeros": "zeros",
    "concatenate": "concatenate", "concat": "concatenate", "erf": "erf", "erfinv": "erfinv",
    "square": "square", "stack": "stack", "full": "full", "eye": "eye",
    "logsumexp": "logsumexp", "nan_to_num": "nan_to_num", "isneginf": "isneginf",
    "maximum": "maximum", "minimum": "minimum", "sign": "sign", "cumsum": "cumsum",
    "argmax": "argmax", "argsort": "argsort", "sort": "sort", "floor": "floor",
    "remainder": "mod", "mod": "mod", "fmod": "fmod", "tanh": "tanh", "arctanh": "arctanh",
    "log2": "log2", "log10": "log10", "expm1": "expm1", "logaddexp": "logaddexp",
    "prod": "prod", "nansum": "nansum", "nanmax": "nanmax", "ones_like": "ones_like",
    "zeros_like": "zeros_like", "linspace": "linspace", "arange": "arange",
}
REDUCTIONS = {"sum", "mean", "var", "std", "max", "min", "any", "all", "logsumexp", "prod", "nansum", "nanmax"}

# value-preserving conversions (reason per entry); they return their first
# argument's value unchanged over the reals
TRANSPARENT_FUNCS = {
    "asarray": "array-API conversion, value preserving",
    "array": "array construction from an array, value preserving",
    "as_tensor": "torch conversion, value preserving",
    "tensor": "torch conversion, value preserving",
    "to_device": "device move, value preserving",
    "atleast_1d": "shape normalisation only",
    "atleast_2d": "shape normalisation only",
    "copy": "copy, value preserving",
    "clone": "copy, value preserving",
    "from_dlpack": "zero-copy conversion",
}
TRANSPARENT_REPO_FUNCS = {
    "aspire.utils:asarray": "xp.asarray wrapper, value preserving",
    "aspire.utils:to_numpy": "np.asarray(to_device(x,'cpu')), value preserving",
    "aspire.utils:safe_to_device": "device move or identity",
    "aspire.utils:copy_array": "copy, value preserving",
    "aspire.samples:BaseSamples.array_to_namespace": "asarray + safe_to_device of its argument (checked by rule C15.a2n)",
}
TRANSPARENT_METHODS = {
    "flatten": "shape only", "detach": "drops autograd graph, value preserving",
    "numpy": "torch->numpy view", "cpu": "device move", "copy": "copy",
    "clone": "copy", "ravel": "shape only", "squeeze": "shape only",
    "to": "device/dtype move", "type": "dtype cast", "astype": "dtype cast",
    "tolist": "container conversion", "item": "0-d extraction",
}
VALUE_METHODS = {  # methods on array values with canonical function meaning
    "exp", "log", "sqrt", "abs", "sum", "mean", "var", "std", "max", "min",
    "any", "all", "square", "clip", "isnan", "prod",
}
CONST_ATTRS = {"inf": "inf", "nan": "nan", "pi": "pi", "e": "euler_e", "newaxis": "newaxis"}
BUILTINS = {
    "len", "min", "max", "abs", "int", "float", "bool", "str", "list", "tuple", "dict",
    "set", "isinstance", "hasattr", "getattr", "setattr", "all", "any", "sum", "range",
    "enumerate", "zip", "map", "sorted", "reversed", "print", "type", "callable", "iter",
    "next", "super", "repr", "round", "divmod", "pow", "id", "frozenset", "bytes",
    "ValueError", "TypeError", "RuntimeError", "NotImplementedError", "KeyError",
    "AttributeError", "Exception", "ImportError", "delattr", "vars", "filter", "slice",
}
# methods of stateful random generators (numpy Generator, torch global RNG):
# two calls with equal arguments are different values
IMPURE_METHODS = {
    "choice", "uniform", "normal", "random", "standard_normal", "integers", "permutation",
    "shuffle", "rsample", "rsample_and_log_prob", "randn", "rand", "randperm", "multivariate_normal",
    "exponential", "gamma", "beta", "poisson", "binomial", "bytes",
    # proposal draws (stateful torch RNG / key advanced on the flow object)
    "sample_and_log_prob", "sample",
}
MAX_INLINE_STMTS = 60
# dtype / device plumbing: irrelevant to values, never inlined
NEVER_INLINE = {
    "aspire.utils:resolve_dtype", "aspire.utils:convert_dtype", "aspire.utils:_dtype_to_name",
    "aspire.utils:infer_device", "aspire.utils:decode_dtype", "aspire.utils:encode_dtype",
    "aspire.utils:determine_backend_name", "aspire.utils:configure_logger",
}


@dataclass
class Event:
    """A call evaluated while folding a function."""
    callee: str  # canonical name / ident
    args: tuple
    kwargs: tuple
    node: ast.AST
    func: FuncInfo
    result: tuple
    receiver: tuple | None = None
    depth: int = 0
    seq: int = 0
    snap: dict | None = None  # attributes of object arguments at call time
    conds: tuple = ()  # path condition under which the call is evaluated


@dataclass
class State:
    env: dict = field(default_factory=dict)
    live: bool = True
    ret: tuple | None = None
    conds: tuple = ()  # path condition: ((cond term, polarity), ...)

    def copy(self):
        return State(dict(self.env), self.live, self.ret, self.conds)


class Evaluator:
    """One evaluator per analysed entry function; the heap (attribute stores on
    tracked objects and on ``self``) is shared across inlined callees."""

    def __init__(self, repo: Repo, max_depth: int = 3, inline=None, no_inline=(), opaque_methods=(),
                 assume=None, batch_params=()):
        self.repo = repo
        self.assume = assume  # callable(cond term) -> True / False / None
        self.batch_params = tuple(batch_params)
        self.loop_mode = "havoc"
        self.transparent_extra: set = set()  # extra value-preserving callables for one evaluation (e.g. deepcopy)
        self.loops: list = []
        self.returns: list = []  # (value, path condition, heap snapshot) of every return of the top-level function
        self.unrolled: list = []  # (node, func, iterations) of field loops that were unrolled
        self.divisions: list = []  # (denominator term, node, func)
        self.products: list = []  # (left, right, node, func) of every numeric product as written
        self.infeasible = False
        self.max_depth = max_depth
        self.inline_pred = inline
        self.no_inline = set(no_inline)
        self.opaque_methods = set(opaque_methods)
        self.heap: dict = {}
        self.types: dict = {}
        self.events: list = []
        self.stores: list = []  # (obj, attr, value, node, func)
        self._ids = itertools.count(1)
        self._seq = itertools.count(1)
        self.notes: list = []
        self.inlined: set = set()

    def exit_value(self, obj, attr, default=None):
        """Attribute of *obj* when the folded function returns, merged over all of its returns (phi on the path
        conditions of the earlier ones); *default* stands for 'never stored on that path'."""
        rets = self.returns
        if not rets:
            return self.heap.get((obj, attr), default)
        out = rets[-1][2].get((obj, attr), default)
        last_conds = rets[-1][1]
        for value, conds, heap in reversed(rets[:-1]):
            v = heap.get((obj, attr), default)
            if v == out:
                continue
            # the conditions that distinguish this return from the later ones
            own = [cp for cp in conds if cp not in last_conds]
            if not own:
                continue
            c = own[0][0] if own[0][1] else ("not", own[0][0])
            for t, pol in own[1:]:
                c = ("and", (c, t if pol else ("not", t)))
            out = T.phi(c, v if v is not None else T.atom("<unset>"), out if out is not None else T.atom("<unset>"))
        return out

    # ------------------------------------------------------------- public
    def run(self, f: FuncInfo, concrete: ClassInfo | None = None, args: dict | None = None,
            self_term=None, depth: int = 0):
        """Fold function *f*; returns the return-value term.  *args* binds
        parameter names to terms (others become atoms named after the parameter)."""
        frame = Frame(self, f, concrete, depth)
        st = State()
        args = dict(args or {})
        params = f.params
        a = f.node.args
        defaults = f.param_defaults()
        for i, p in enumerate(params):
            if i == 0 and f.cls is not None and f.parent is None and not f.has_decorator("staticmethod"):
                if f.has_decorator("classmethod"):
                    st.env[p] = args.get(p, ("ref", (concrete or f.cls).ident))
                    continue
                me = self_term if self_term is not None else args.get(p, T.atom("self"))
                st.env[p] = me
                if concrete is not None or f.cls is not None:
                    self.types.setdefault(me, concrete or f.cls)
                continue
            if p in args:
                st.env[p] = args[p]
            elif depth > 0 and p in defaults:
                st.env[p] = frame.eval(defaults[p], State())
            else:
                st.env[p] = T.atom(p)
                ann = next((x.annotation for x in a.posonlyargs + a.args + a.kwonlyargs if x.arg == p), None)
                if ann is not None:
                    c = self._ann_class(f, ann)
                    if c is not None:
                        self.types.setdefault(st.env[p], c)
        if a.vararg:
            st.env[a.vararg.arg] = args.get(a.vararg.arg, T.atom("*" + a.vararg.arg))
        if a.kwarg:
            st.env[a.kwarg.arg] = args.get(a.kwarg.arg, T.atom("**" + a.kwarg.arg))
        frame.exec_block(f.node.body, st)
        self.last_state = st
        ret = st.ret
        if ret is None:
            ret = T.NONE
        else:
            ret = subst_cont(ret, T.NONE)
        return ret

    def new_obj(self, clsname: str) -> tuple:
        return ("obj", next(self._ids), clsname)

    def opaque(self, why: str) -> tuple:
        return ("opaque", f"{why}#{next(self._ids)}")

    def _ann_class(self, f: FuncInfo, ann: ast.AST):
        if isinstance(ann, ast.Constant) and isinstance(ann.value, str):
            name = ann.value
        else:
            name = dotted(ann)
        if not name:
            return None
        got = self.repo.resolve_name(f.module, name)
        if got is None:
            # TYPE_CHECKING imports are indexed like ordinary ones
            return None
        return got if isinstance(got, ClassInfo) else None

    def load_attr(self, obj, attr):
        if (obj, attr) in self.heap:
            return self.heap[(obj, attr)]
        return ("attr", obj, attr)

    def store_attr(self, obj, attr, value, node=None, func=None):
        self.heap[(obj, attr)] = value
        self.stores.append((obj, attr, value, node, func, next(self._seq)))

    def snapshot(self, terms) -> dict:
        """Tracked attributes of the object-like terms among *terms*."""
        out = {}
        if not self.heap:
            return out
        objs = {o for (o, _a) in self.heap}
        for t in terms:
            if isinstance(t, tuple) and t and t in objs:
                out[t] = {a: v for (o, a), v in self.heap.items() if o == t}
        return out


class Frame:
    def __init__(self, ev: Evaluator, f: FuncInfo, concrete: ClassInfo | None, depth: int):
        self.ev = ev
        self.repo = ev.repo
        self.f = f
        self.concrete = concrete or f.cls
        self.depth = depth
        self.local_imports = self.repo.function_imports(f)
        self.cur = None
        self.outer_conds = ()
        self.closure_env = None

    # ------------------------------------------------------------ blocks
    def exec_block(self, stmts, st: State):
        for s in stmts:
            if not st.live:
                return
            self.exec_stmt(s, st)

    def _do_return(self, st: State, value):
        if self.depth == 0 and value != T.RAISE:
            # heap as it stands at this exit of the function being folded (an early return does not see later stores)
            self.ev.returns.append((value, st.conds, dict(self.ev.heap)))
        if st.ret is None:
            st.ret = value
        else:
            st.ret = subst_cont(st.ret, value)
        st.live = False

    def exec_stmt(self, s, st: State):
        ev = self.ev
        self.cur = st
        if isinstance(s, ast.Return):
            v = self.eval(s.value, st) if s.value is not None else T.NONE
            self._do_return(st, v)
        elif isinstance(s, ast.Raise):
            if s.exc is not None:
                self.eval(s.exc, st)
            self._do_return(st, T.RAISE)
        elif isinstance(s, ast.Assign):
            v = self.eval(s.value, st)
            for tgt in s.targets:
                self.assign(tgt, v, st, s)
        elif isinstance(s, ast.AnnAssign):
            if s.value is not None:
                self.assign(s.target, self.eval(s.value, st), st, s)
        elif isinstance(s, ast.AugAssign):
            cur = self.eval(_as_load(s.target), st)
            rhs = self.eval(s.value, st)
            self.assign(s.target, self.binop(s.op, cur, rhs, s), st, s)
        elif isinstance(s, ast.Expr):
            self.eval(s.value, st)
        elif isinstance(s, ast.If):
            self.exec_if(s, st)
        elif isinstance(s, ast.With):
            for item in s.items:
                v = self.eval(item.context_expr, st)
                if item.optional_vars is not None:
                    self.assign(item.optional_vars, ("f", "enter", (v,), ()), st, s)
            self.exec_block(s.body, st)
        elif isinstance(s, (ast.For, ast.While)):
            self.exec_loop(s, st)
        elif isinstance(s, ast.Try):
            self.exec_try(s, st)
        elif isinstance(s, (ast.Import, ast.ImportFrom, ast.Pass, ast.Global, ast.Nonlocal)):
            pass
        elif isinstance(s, (ast.Break, ast.Continue)):
            # only reached while folding a loop body on its scratch state
            st.live = False
        elif isinstance(s, (ast.FunctionDef, ast.AsyncFunctionDef)):
            st.env[s.name] = ("ref", f"{self.f.ident}.<locals>.{s.name}")
        elif isinstance(s, ast.Assert):
            self.eval(s.test, st)
        elif isinstance(s, ast.Delete):
            for tgt in s.targets:
                if isinstance(tgt, ast.Name):
                    st.env.pop(tgt.id, None)
                elif isinstance(tgt, ast.Subscript):
                    # del d[k]: a literal dict loses the entry; anything else becomes a new (opaque) value of the container
                    base = self.eval(tgt.value, st)
                    idx = self.eval(tgt.slice, st)
                    if isinstance(base, tuple) and base[0] == "d" and idx[0] == "k" and all(k[0] == "k" for k, _ in base[1]):
                        newv = ("d", tuple((k, x) for k, x in base[1] if k != idx))
                    else:
                        newv = ("f", "delitem", (base, idx), ())
                    self._record("delitem", [base, idx], {}, s, newv, None)
                    if isinstance(tgt.value, ast.Name):
                        st.env[tgt.value.id] = newv
                    elif isinstance(tgt.value, ast.Attribute):
                        b2 = self.eval(tgt.value.value, st)
                        ev.store_attr(b2, tgt.value.attr, newv, s, self.f)
        elif isinstance(s, ast.ClassDef):
            st.env[s.name] = ev.opaque("localclass")
        else:
            ev.notes.append(f"unhandled statement {type(s).__name__} at {self.f.module.relpath}:{s.lineno}")

    def decide(self, cond):
        d = decide(cond)
        if d is None and self.ev.assume is not None:
            d = self.ev.assume(cond)
            if d is None and cond[0] == "not":
                inner = self.decide(cond[1])
                d = None if inner is None else (not inner)
            elif d is None and cond[0] in ("and", "or"):
                parts = [self.decide(c) for c in cond[1]]
                if cond[0] == "and":
                    if any(p is False for p in parts):
                        d = False
                    elif all(p is True for p in parts):
                        d = True
                else:
                    if any(p is True for p in parts):
                        d = True
                    elif all(p is False for p in parts):
                        d = False
        return d

    def exec_if(self, s: ast.If, st: State):
        cond = self.eval(s.test, st)
        dec = self.decide(cond)
        if dec is True:
            self.exec_block(s.body, st)
            return
        if dec is False:
            self.exec_block(s.orelse, st)
            return
        heap0 = dict(self.ev.heap)
        a = st.copy()
        a.ret = T.CONT if st.ret is None else st.ret
        c_, pol_ = cond, True
        while c_[0] == "not":  # canonical path condition: (positive condition, polarity)
            c_, pol_ = c_[1], not pol_
        a.conds = st.conds + ((c_, pol_),)
        self.exec_block(s.body, a)
        heap_a = self.ev.heap
        self.ev.heap = dict(heap0)
        b = st.copy()
        b.ret = T.CONT if st.ret is None else st.ret
        b.conds = st.conds + ((c_, not pol_),)
        self.exec_block(s.orelse, b)
        heap_b = self.ev.heap
        # merge
        st.live = a.live or b.live
        if st.ret is None:
            if a.ret == T.CONT and b.ret == T.CONT:
                st.ret = None
            else:
                st.ret = T.phi(cond, a.ret, b.ret)
        else:
            # st.ret had CONT leaves; both branches substituted/kept them
            st.ret = _merge_ret(st.ret, cond, a.ret, b.ret)
        if a.live and not b.live:
            st.env = a.env
            st.conds = a.conds
            self.ev.heap = heap_a
        elif b.live and not a.live:
            st.env = b.env
            st.conds = b.conds
            self.ev.heap = heap_b
        else:
            st.env = _merge_maps(cond, a.env, b.env)
            self.ev.heap = _merge_maps(cond, heap_a, heap_b, heap=True)

    def exec_loop(self, s, st: State):
        """Loops are not iterated.  Variables assigned in the body become *head
        atoms* ``name@L<line>`` (their value at the loop head, which is also
        their value when the head test fails); the body is folded once from the
        head atoms, giving the loop's transfer function in normal form, which is
        recorded in ``ev.loops``.  ``loop_mode == 'skip'`` explores the
        zero-iteration path instead."""
        ev = self.ev
        pre_env = dict(st.env)
        if isinstance(s, ast.For):
            dom = self.eval(s.iter, st)
            # a loop over the (statically known) dataclass fields of a repo class is unrolled
            if _concrete_domain(dom) and all(x[0] == "fld" for x in dom[1]):
                body = _structured_body(s.body)
                if body is not None:
                    for el in dom[1]:
                        self.assign(s.target, el, st, s)
                        self.exec_block(body, st)
                        if not st.live:
                            break
                    if st.live:
                        self.exec_block(s.orelse, st)
                    ev.unrolled.append((s, self.f, len(dom[1])))
                    return
            # `for p in names: d.pop(p, ...)` on a literal dict whose spread entry is dict(zip(names, ...)):
            # exactly the spread's keys are removed (names are assumed not to collide with the literal keys)
            if len(s.body) == 1 and isinstance(s.body[0], ast.Expr) and isinstance(s.body[0].value, ast.Call) and isinstance(s.target, ast.Name) and not s.orelse:
                c = s.body[0].value
                if isinstance(c.func, ast.Attribute) and c.func.attr == "pop" and isinstance(c.func.value, ast.Name) and c.args \
                        and isinstance(c.args[0], ast.Name) and c.args[0].id == s.target.id:
                    d = st.env.get(c.func.value.id)
                    if d is not None and d[0] == "d":
                        spread = [v for k, v in d[1] if k == T.K("**")]
                        if len(spread) == 1 and _zipdict_keys(spread[0]) == dom:
                            st.env[c.func.value.id] = ("d", tuple((k, v) for k, v in d[1] if k != T.K("**")))
                            ev.unrolled.append((s, self.f, -1))
                            return
            # a reduction written as a loop: `acc = 0` / `acc = seq[0]`, then `for v in seq` / `for v in seq[1:]`: `acc += v` (or `acc = acc + v`)
            # is sum(seq); the value number is that of the library reduction, so both spellings compare equal
            if len(s.body) == 1 and isinstance(s.target, ast.Name) and not s.orelse:
                b0 = s.body[0]
                acc = None
                if isinstance(b0, ast.AugAssign) and isinstance(b0.op, ast.Add) and isinstance(b0.target, ast.Name) and isinstance(b0.value, ast.Name) and b0.value.id == s.target.id:
                    acc = b0.target.id
                elif isinstance(b0, ast.Assign) and len(b0.targets) == 1 and isinstance(b0.targets[0], ast.Name) and isinstance(b0.value, ast.BinOp) and isinstance(b0.value.op, ast.Add):
                    l_, r_ = b0.value.left, b0.value.right
                    names = {getattr(l_, "id", None), getattr(r_, "id", None)}
                    if isinstance(l_, ast.Name) and isinstance(r_, ast.Name) and names == {b0.targets[0].id, s.target.id} and b0.targets[0].id != s.target.id:
                        acc = b0.targets[0].id
                if acc is not None and acc in st.env:
                    a0 = st.env[acc]
                    seq = None
                    if a0 == T.ZERO:
                        seq = dom
                    elif isinstance(s.iter, ast.Subscript) and isinstance(s.iter.slice, ast.Slice) and s.iter.slice.upper is None and s.iter.slice.step is None \
                            and isinstance(s.iter.slice.lower, ast.Constant) and s.iter.slice.lower.value == 1:
                        base_seq = self.eval(s.iter.value, st)
                        if a0 == ("s", base_seq, T.const(0)):
                            seq = base_seq
                    if seq is not None:
                        st.env[acc] = norm_app("sum", (seq,))
                        st.env[s.target.id] = ("f", "elem", (dom,), ())
                        ev.unrolled.append((s, self.f, -2))
                        return
        assigned, attr_assigned = _assigned_names(s)
        if ev.loop_mode == "skip" and isinstance(s, ast.While):
            t0 = self.eval(s.test, st)
            d = self.decide(t0)
            ev.loops.append(dict(node=s, func=self.f, pre=pre_env, head={}, test=t0, body={}, mode="skip", feasible=d is not True))
            if d is True:
                ev.infeasible = True
            self.exec_block(s.orelse, st)
            return
        tag = f"L{s.lineno}"
        head = {}
        for n in sorted(assigned):
            head[n] = T.atom(f"{n}@{tag}")
            st.env[n] = head[n]
        for (base, attr) in sorted(attr_assigned):
            b = st.env.get(base)
            if b is not None:
                ev.heap[(b, attr)] = T.atom(f"{base}.{attr}@{tag}")
        scratch = st.copy()
        scratch.ret = None
        heap0 = dict(ev.heap)
        test = None
        if isinstance(s, ast.For):
            self.assign(s.target, ("f", "elem", (self.eval(s.iter, scratch),), ()), scratch, s)
        else:
            test = self.eval(s.test, scratch)
        self.exec_block(s.body, scratch)
        has_break = any(isinstance(x, ast.Break) for x in walk_no_nested(s))
        ev.loops.append(dict(node=s, func=self.f, pre=pre_env, head=head, test=test, body=dict(scratch.env),
                             mode="havoc", has_break=has_break, body_heap=dict(ev.heap)))
        ev.heap = heap0
        if has_break:
            # values at a break are mid-body values: unknown after the loop
            for n in assigned:
                st.env[n] = ev.opaque(f"loop:{n}")
        if scratch.ret is not None and not _only(scratch.ret, T.CONT):
            st.ret = ev.opaque("return-in-loop") if st.ret is None else st.ret
        if not has_break:
            self.exec_block(s.orelse, st)

    def exec_try(self, s: ast.Try, st: State):
        """try body, then each handler as an alternative path from the state at
        the try's entry (the exception may have been raised anywhere in the
        body), merged under an opaque 'exception raised' condition."""
        ev = self.ev
        pre = st.copy()
        heap_pre = dict(ev.heap)
        had_ret = st.ret
        st.ret = T.CONT if had_ret is None else had_ret
        self.exec_block(s.body, st)
        if st.live:
            self.exec_block(s.orelse, st)
        heap_body = ev.heap
        for h in s.handlers:
            hs = pre.copy()
            hs.ret = T.CONT if had_ret is None else had_ret
            cond = ("u", "exc", f"{self.f.module.relpath}:{h.lineno}")
            hs.conds = pre.conds + ((cond, True),)
            ev.heap = dict(heap_pre)
            # names assigned in the body have unknown values inside the handler
            assigned, _ = _assigned_names(ast.Module(body=s.body, type_ignores=[]))
            for n in assigned:
                hs.env[n] = ev.opaque(f"try:{n}")
            if h.name:
                hs.env[h.name] = ev.opaque("exception")
            self.exec_block(h.body, hs)
            heap_h = ev.heap
            # merge handler path (cond true) with the body path (cond false)
            live = hs.live or st.live
            if hs.ret == T.CONT and st.ret == T.CONT:
                ret = T.CONT
            else:
                ret = T.phi(cond, hs.ret, st.ret)
            if hs.live and not st.live:
                st.env, st.conds, heap_body = hs.env, hs.conds, heap_h
            elif st.live and hs.live:
                st.env = _merge_maps(cond, hs.env, st.env)
                heap_body = _merge_maps(cond, heap_h, heap_body, heap=True)
            st.live, st.ret = live, ret
        ev.heap = heap_body
        if st.ret == T.CONT and had_ret is None:
            st.ret = None
        self.exec_block(s.finalbody, st)

    # --------------------------------------------------------- assignment
    def assign(self, tgt, v, st: State, stmt):
        ev = self.ev
        if isinstance(tgt, ast.Name):
            st.env[tgt.id] = v
        elif isinstance(tgt, ast.Attribute):
            base = self.eval(tgt.value, st)
            ev.store_attr(base, tgt.attr, v, stmt, self.f)
        elif isinstance(tgt, (ast.Tuple, ast.List)):
            for i, e in enumerate(tgt.elts):
                if isinstance(e, ast.Starred):
                    self.assign(e.value, ev.opaque("starred"), st, stmt)
                    continue
                self.assign(e, project(v, i), st, stmt)
        elif isinstance(tgt, ast.Subscript):
            base = self.eval(tgt.value, st)
            idx = self.eval(tgt.slice, st)
            newv = None
            if isinstance(base, tuple) and base[0] == "d" and idx[0] == "k":
                items = [(k, x) for k, x in base[1] if k != idx]
                items.append((idx, v))
                newv = ("d", tuple(items))
            else:
                newv = ("f", "setitem", (base, idx, v), ())
            self._record("setitem", [base, idx, v], {}, stmt, newv, None)
            if isinstance(tgt.value, ast.Name):
                st.env[tgt.value.id] = newv
            elif isinstance(tgt.value, ast.Attribute):
                b2 = self.eval(tgt.value.value, st)
                ev.store_attr(b2, tgt.value.attr, newv, stmt, self.f)
        else:
            ev.notes.append(f"unhandled target {type(tgt).__name__}")

    # --------------------------------------------------------- expressions
    def eval(self, e, st: State):
        ev = self.ev
        if e is None:
            return T.NONE
        if isinstance(e, ast.Constant):
            v = e.value
            if isinstance(v, bool) or v is None or isinstance(v, (str, bytes)) or v is Ellipsis:
                return T.K(v)
            if isinstance(v, (int, float)):
                if v != v or v in (float("inf"), float("-inf")):
                    return T.atom(repr(v))
                return T.const(v)
            return T.K(repr(v))
        if isinstance(e, ast.Name):
            return self.eval_name(e.id, st)
        if isinstance(e, ast.Attribute):
            return self.eval_attr(e, st)
        if isinstance(e, ast.Call):
            return self.eval_call(e, st)
        if isinstance(e, ast.BinOp):
            return self.binop(e.op, self.eval(e.left, st), self.eval(e.right, st), e)
        if isinstance(e, ast.UnaryOp):
            v = self.eval(e.operand, st)
            if isinstance(e.op, ast.USub):
                return T.neg(v) if T.is_numeric(v) else ("f", "neg", (v,), ())
            if isinstance(e.op, ast.UAdd):
                return v
            if isinstance(e.op, ast.Not):
                return negate(v)
            return ("f", "invert", (v,), ())
        if isinstance(e, ast.Compare):
            parts = []
            left = self.eval(e.left, st)
            for op, right in zip(e.ops, e.comparators):
                r = self.eval(right, st)
                parts.append(compare(op, left, r))
                left = r
            return parts[0] if len(parts) == 1 else mk_and(parts)
        if isinstance(e, ast.BoolOp):
            vals = [self.eval(v, st) for v in e.values]
            if isinstance(e.op, ast.And):
                return mk_and(vals)
            return mk_or(vals)
        if isinstance(e, ast.IfExp):
            c = self.eval(e.test, st)
            d = self.decide(c)
            if d is True:
                return self.eval(e.body, st)
            if d is False:
                return self.eval(e.orelse, st)
            return T.phi(c, self.eval(e.body, st), self.eval(e.orelse, st))
        if isinstance(e, ast.Tuple):
            return ("t", tuple(self.eval(x, st) for x in e.elts))
        if isinstance(e, ast.List):
            return ("l", tuple(self.eval(x, st) for x in e.elts))
        if isinstance(e, ast.Set):
            return ("f", "set", tuple(sorted((self.eval(x, st) for x in e.elts), key=repr)), ())
        if isinstance(e, ast.Dict):
            items = []
            for k, v in zip(e.keys, e.values):
                if k is None:
                    inner = self.eval(v, st)
                    if isinstance(inner, tuple) and inner[0] == "d":
                        items.extend(inner[1])
                    else:
                        items.append((T.K("**"), inner))
                else:
                    items.append((self.eval(k, st), self.eval(v, st)))
            return ("d", tuple(items))
        if isinstance(e, ast.Subscript):
            base = self.eval(e.value, st)
            idx = self.eval(e.slice, st)
            if isinstance(base, tuple) and base[0] in ("t", "l"):
                cv = T.const_value(idx)
                if cv is not None and cv.denominator == 1 and -len(base[1]) <= int(cv) < len(base[1]):
                    return base[1][int(cv)]
            if isinstance(base, tuple) and base[0] == "d" and idx[0] == "k":
                for k, v in base[1]:
                    if k == idx:
                        return v
            if isinstance(base, tuple) and base[0] == "attr" and base[2] == "shape" and T.const_value(idx) == 0:
                return T.app("len", batch_root(base[1], ev.batch_params))
            if isinstance(base, tuple) and base[0] == "phi":
                # distribute tuple projection over phi
                cv = T.const_value(idx)
                if cv is not None and all(l[0] in ("t", "l") for l in T.phi_leaves(base) if isinstance(l, tuple) and l):
                    return _map_phi(base, lambda leaf: project(leaf, int(cv)))
            return ("s", base, idx)
        if isinstance(e, ast.Slice):
            return ("slice", self.eval(e.lower, st), self.eval(e.upper, st), self.eval(e.step, st))
        if isinstance(e, ast.JoinedStr):
            return ("u", "fstr", ast.unparse(e))
        if isinstance(e, ast.Lambda):
            return ("u", "lambda", ast.dump(e))
        if isinstance(e, (ast.ListComp, ast.GeneratorExp, ast.SetComp, ast.DictComp)):
            return self.eval_comp(e, st)
        if isinstance(e, ast.Starred):
            return ("f", "star", (self.eval(e.value, st),), ())
        if isinstance(e, ast.NamedExpr):
            v = self.eval(e.value, st)
            self.assign(e.target, v, st, e)
            return v
        if isinstance(e, (ast.Yield, ast.YieldFrom, ast.Await)):
            return ev.opaque("yield")
        if isinstance(e, ast.FormattedValue):
            return ("u", "fmt", ast.unparse(e))
        ev.notes.append(f"unhandled expr {type(e).__name__}")
        return ev.opaque(type(e).__name__)

    def eval_comp(self, e, st: State):
        """Comprehensions: [elt for v in it (if c)] -> map(elt[v:=ELEM(it)], it)."""
        # {p: d.pop(p) for p in names} on a literal dict whose spread entry is dict(zip(names, ...)):
        # the spread is moved out of d (same assumption as the pop loop: names do not collide with literal keys)
        if isinstance(e, ast.DictComp) and len(e.generators) == 1 and not e.generators[0].ifs and isinstance(e.generators[0].target, ast.Name) \
                and isinstance(e.key, ast.Name) and e.key.id == e.generators[0].target.id and isinstance(e.value, ast.Call) \
                and isinstance(e.value.func, ast.Attribute) and e.value.func.attr == "pop" and isinstance(e.value.func.value, ast.Name) \
                and len(e.value.args) >= 1 and isinstance(e.value.args[0], ast.Name) and e.value.args[0].id == e.key.id:
            dname = e.value.func.value.id
            d = st.env.get(dname)
            names = self.eval(e.generators[0].iter, st)
            if d is not None and d[0] == "d":
                spread = [v for k, v in d[1] if k == T.K("**")]
                if len(spread) == 1 and _zipdict_keys(spread[0]) == names:
                    st.env[dname] = ("d", tuple((k, v) for k, v in d[1] if k != T.K("**")))
                    return spread[0]
        if len(e.generators) == 1:
            dom = self.eval(e.generators[0].iter, st)
            # a *name* bound to a literal list / tuple (e.g. the *args of an inlined helper) is iterated concretely;
            # inline literals such as `all(x is not None for x in [a, b, c])` stay symbolic (rules match that idiom)
            named_literal = isinstance(e.generators[0].iter, ast.Name) and isinstance(dom, tuple) and dom and dom[0] in ("l", "t") and 0 < len(dom[1]) <= 12 \
                and not e.generators[0].ifs
            if _concrete_domain(dom) or named_literal:
                out, ok = [], True
                for el in dom[1]:
                    sub = st.copy()
                    self.assign(e.generators[0].target, el, sub, e)
                    keep = True
                    for c in e.generators[0].ifs:
                        d = self.decide(self.eval(c, sub))
                        if d is None:
                            ok = False
                            break
                        keep = keep and d
                    if not ok:
                        break
                    if keep:
                        out.append((self.eval(e.key, sub), self.eval(e.value, sub)) if isinstance(e, ast.DictComp) else self.eval(e.elt, sub))
                if ok:
                    if isinstance(e, ast.DictComp):
                        return ("d", tuple(out))
                    if isinstance(e, ast.SetComp):
                        return ("f", "set", tuple(sorted(set(out), key=repr)), ())
                    return ("l", tuple(out))
        sub = st.copy()
        iters = []
        for g in e.generators:
            it = self.eval(g.iter, sub)
            elem = ("f", "elem", (it,), ())
            self.assign(g.target, elem, sub, e)
            conds = tuple(self.eval(c, sub) for c in g.ifs)
            iters.append((it, conds))
        if isinstance(e, ast.DictComp):
            body = ("t", (self.eval(e.key, sub), self.eval(e.value, sub)))
        else:
            body = self.eval(e.elt, sub)
        kind = {ast.ListComp: "listcomp", ast.GeneratorExp: "listcomp", ast.SetComp: "setcomp", ast.DictComp: "dictcomp"}[type(e)]
        return ("f", kind, (body,) + tuple(("t", (it, ("t", cs))) for it, cs in iters), ())

    def eval_name(self, name: str, st: State):
        if name in st.env:
            return st.env[name]
        # enclosing function scopes are not tracked: free variables of a
        # closure are atoms
        if name in self.local_imports:
            return self._ref(self.repo._import_target(self.local_imports[name]))
        got = self.repo.resolve_name(self.f.module, name)
        if got is not None:
            return self._ref(got)
        if name in self.f.module.constants:
            return T.atom(f"{self.f.module.name}.{name}")
        if name in BUILTINS:
            return ("ref", f"builtins.{name}")
        return T.atom(name)

    def _ref(self, got):
        if isinstance(got, (FuncInfo, ClassInfo)):
            return ("ref", got.ident)
        if isinstance(got, ModuleInfo):
            return ("ref", got.name)
        if isinstance(got, tuple) and got[0] == "ext":
            return ("ref", got[1])
        return T.atom(str(got))

    def eval_attr(self, e: ast.Attribute, st: State):
        ev = self.ev
        base = self.eval(e.value, st)
        attr = e.attr
        if attr == "__dataclass_fields__":
            c = ev.types.get(base)
            if c is None and base[0] == "ref":
                c = self._lookup_ident(base[1])
                c = c if isinstance(c, ClassInfo) else None
            if c is not None and c.fields():
                return ("d", tuple((T.K(f.name), ("fld", c.ident, f.name, bool(f.init))) for f in c.fields()))
        if base[0] == "ref":
            tgt = self._resolve_ref_attr(base[1], attr)
            if tgt is not None:
                return tgt
            if attr in CONST_ATTRS:
                return T.atom(CONST_ATTRS[attr])
            return ("ref", f"{base[1]}.{attr}")
        if is_namespace(base) and attr in CONST_ATTRS:
            return T.atom(CONST_ATTRS[attr])
        if base[0] == "fld":
            if attr == "name":
                return T.K(base[2])
            if attr == "init":
                return T.TRUE if base[3] else T.FALSE
        cls = ev.types.get(base)
        if cls is not None and attr == "__class__" and base[0] != "ref":
            return ("ref", cls.ident)
        if cls is not None:
            m = cls.resolve(attr)
            if m is not None and m.has_decorator("property") and (base, attr) not in ev.heap:
                if self._may_inline(m):
                    return self._inline(m, cls, base, [], {}, e)
                return ("f", f"prop:{m.ident}", (base,), ())
        return ev.load_attr(base, attr)

    def _resolve_ref_attr(self, ident: str, attr: str):
        repo = self.repo
        if ident in repo.modules:
            got = repo._module_attr(repo.modules[ident], attr)
            if got is None and f"{ident}.{attr}" in repo.modules:
                got = repo.modules[f"{ident}.{attr}"]
            if got is not None:
                return self._ref(got)
            return None
        if ":" in ident:
            mod, _, q = ident.partition(":")
            m = repo.modules.get(mod)
            if m and q in m.classes:
                f = m.classes[q].resolve(attr)
                if f is not None:
                    return ("ref", f"{m.classes[q].ident}.{attr}")
        return None

    # --------------------------------------------------------------- ops
    def binop(self, op, a, b, node):
        num = T.is_numeric(a) and T.is_numeric(b)
        if isinstance(op, ast.Add):
            if num:
                return T.add(a, b)
            if a[0] in ("l", "t") and b[0] == a[0]:
                return (a[0], a[1] + b[1])
            return ("f", "add", (a, b), ())
        if isinstance(op, ast.Sub):
            return T.sub(a, b) if num else ("f", "sub", (a, b), ())
        if isinstance(op, ast.Mult):
            if num:
                # the product as written (before normalisation): 0 * inf hazards are a property of the spelling
                self.ev.products.append((a, b, node, self.f))
                return T.mul(a, b)
            return ("f", "mul", (a, b), ())
        if isinstance(op, ast.Div):
            self.ev.divisions.append((b, node, self.f, self.outer_conds + (self.cur.conds if self.cur is not None else ())))
            return T.div(a, b) if num else ("f", "div", (a, b), ())
        if isinstance(op, ast.Pow):
            cv = T.const_value(b)
            if num and cv is not None and cv.denominator == 1 and abs(int(cv)) <= 8:
                return T.powi(a, int(cv))
            if num and cv is not None and cv == T.Fraction(1, 2):
                return ("f", "sqrt", (a,), ())
            return ("f", "pow", (a, b), ())
        if isinstance(op, ast.Mod):
            return ("f", "mod", (a, b), ())
        if isinstance(op, ast.FloorDiv):
            return ("f", "floordiv", (a, b), ())
        if isinstance(op, ast.BitOr):
            if a[0] == "d" and b[0] == "d":
                keys_b = {k for k, _ in b[1]}
                return ("d", tuple((k, v) for k, v in a[1] if k not in keys_b) + b[1])
            return ("f", "bitor", (a, b), ())
        if isinstance(op, ast.BitAnd):
            return ("f", "bitand", tuple(sorted((a, b), key=repr)), ())
        if isinstance(op, ast.MatMult):
            return ("f", "matmul", (a, b), ())
        return ("f", type(op).__name__.lower(), (a, b), ())

    # -------------------------------------------------------------- calls
    def eval_call(self, e: ast.Call, st: State):
        ev = self.ev
        fn = e.func
        # evaluate arguments
        args = []
        for a in e.args:
            if isinstance(a, ast.Starred):
                v = self.eval(a.value, st)
                if v[0] in ("t", "l"):
                    args.extend(v[1])
                else:
                    args.append(("f", "star", (v,), ()))
            else:
                args.append(self.eval(a, st))
        kwargs = {}
        for kw in e.keywords:
            v = self.eval(kw.value, st)
            if kw.arg is None:
                if v[0] == "d" and all(k[0] == "k" and isinstance(k[1], str) for k, _ in v[1]):
                    for k, x in v[1]:
                        if k[1] == "**":  # a spread inside the literal: keep every one of them
                            kwargs["**"] = x if "**" not in kwargs else ("t", (kwargs["**"], x))
                        else:
                            kwargs[k[1]] = x
                else:
                    kwargs["**"] = v if "**" not in kwargs else ("t", (kwargs["**"], v))
            else:
                kwargs[kw.arg] = v

        # super().m(...)
        if (
            isinstance(fn, ast.Attribute)
            and isinstance(fn.value, ast.Call)
            and isinstance(fn.value.func, ast.Name)
            and fn.value.func.id == "super"
        ):
            me = st.env.get(self.f.params[0]) if self.f.params else None
            target = None
            if self.f.cls is not None and self.concrete is not None:
                conc = self.concrete
                if me is not None and ev.types.get(me) is not None and me[0] != "ref":
                    conc = ev.types[me]
                if self.f.cls in conc.mro():
                    target = conc.resolve_after(self.f.cls, fn.attr)
            if target is None:
                return self._event(f"super.{fn.attr}", args, kwargs, e, me)
            return self._call_repo(target, self.concrete, me, args, kwargs, e)

        if isinstance(fn, ast.Attribute):
            recv = self.eval(fn.value, st)
            # in-place mutation of a tracked dict literal held in a local name
            if recv[0] == "d" and isinstance(fn.value, ast.Name) and fn.attr in ("pop", "update", "setdefault"):
                name = fn.value.id
                items = list(recv[1])
                if fn.attr == "pop" and args and args[0][0] == "k":
                    hit = [v for k, v in items if k == args[0]]
                    st.env[name] = ("d", tuple((k, v) for k, v in items if k != args[0]))
                    self._record("method:pop", [recv] + list(args), kwargs, e, hit[0] if hit else (args[1] if len(args) > 1 else T.NONE), recv)
                    return hit[0] if hit else (args[1] if len(args) > 1 else T.NONE)
                if fn.attr == "setdefault" and len(args) == 2 and args[0][0] == "k":
                    hit = [v for k, v in items if k == args[0]]
                    if not hit:
                        st.env[name] = ("d", tuple(items) + ((args[0], args[1]),))
                    return hit[0] if hit else args[1]
                if fn.attr == "update" and len(args) == 1 and args[0][0] == "d" and not kwargs:
                    keys_b = {k for k, _ in args[0][1]}
                    st.env[name] = ("d", tuple((k, v) for k, v in items if k not in keys_b) + args[0][1])
                    return T.NONE
                if fn.attr == "update" and len(args) == 1 and not kwargs:
                    # merging a mapping with unknown keys: kept as a spread entry (like {**m})
                    st.env[name] = ("d", tuple(items) + ((T.K("**"), args[0]),))
                    self._record("method:update", [recv] + list(args), kwargs, e, T.NONE, recv)
                    return T.NONE
            return self.call_attr(recv, fn.attr, args, kwargs, e, st)

        callee = self.eval(fn, st)
        return self.call_value(callee, args, kwargs, e, st)

    def call_value(self, callee, args, kwargs, e, st):
        ev = self.ev
        if callee[0] == "ref":
            ident = callee[1]
            if ident.startswith("builtins."):
                return self.call_builtin(ident[9:], args, kwargs, e, st)
            if ":" in ident:
                target = self._lookup_ident(ident)
                if isinstance(target, FuncInfo):
                    return self._call_repo(target, target.cls, None, args, kwargs, e)
                if isinstance(target, ClassInfo):
                    return self.construct(target, args, kwargs, e)
                if isinstance(target, tuple) and target[0] == "method":
                    # Class.method reference (unbound / classmethod)
                    _, c, m = target
                    if m.has_decorator("classmethod"):
                        return self._call_repo(m, c, ("ref", c.ident), args, kwargs, e)
                    if m.has_decorator("staticmethod"):
                        return self._call_repo(m, c, None, args, kwargs, e)
                    if args:
                        return self._call_repo(m, ev.types.get(args[0], c), args[0], args[1:], kwargs, e)
            # external function by dotted name
            last = ident.rsplit(".", 1)[-1]
            if ident == "dataclasses.fields" and len(args) == 1:
                c = ev.types.get(args[0])
                if c is None and args[0][0] == "ref":
                    c = self._lookup_ident(args[0][1])
                    c = c if isinstance(c, ClassInfo) else None
                if c is not None and c.fields():
                    return ("l", tuple(("fld", c.ident, f.name, bool(f.init)) for f in c.fields()))
            return self.call_namespace_func(last, args, kwargs, e, origin=ident)
        return self._event(f"call:{T.show(callee)}", args, kwargs, e, callee)

    def _lookup_ident(self, ident: str):
        mod, _, q = ident.partition(":")
        m = self.repo.modules.get(mod)
        if m is None:
            return None
        parts = q.split(".")
        if "<locals>" in parts:
            try:
                return self.repo.func(ident)
            except AnalysisError:
                return None
        if parts[0] in m.classes:
            c = m.classes[parts[0]]
            if len(parts) == 1:
                return c
            f = c.resolve(parts[1])
            if f is not None and len(parts) == 2:
                return ("method", c, f)
            return None
        if "<locals>" in parts:
            try:
                return self.repo.func(ident)
            except AnalysisError:
                return None
        if parts[0] in m.functions and len(parts) == 1:
            return m.functions[parts[0]]
        return None

    def call_builtin(self, name, args, kwargs, e, st):
        ev = self.ev
        if name == "len" and len(args) == 1:
            cls = ev.types.get(args[0])
            if cls is not None:
                m = cls.resolve("__len__")
                if m is not None and self._may_inline(m):
                    return self._inline(m, cls, args[0], [], {}, e)
            return T.app("len", batch_root(args[0], ev.batch_params))
        if name in ("float", "int") and len(args) == 1:
            if name == "float" and args[0][0] == "k" and isinstance(args[0][1], str):
                return T.atom(f"float({args[0][1]!r})")
            return args[0] if name == "float" else T.app("int", args[0])
        if name in ("min", "max") and len(args) == 2 and not kwargs:
            a, b = sorted(args, key=repr)
            return T.app(f"{name}2", a, b)
        if name == "abs" and len(args) == 1:
            return T.app("abs", args[0])
        if name == "slice" and 1 <= len(args) <= 3 and not kwargs:
            if len(args) == 1:
                return ("slice", T.NONE, args[0], T.NONE)
            a3 = list(args) + [T.NONE] * (3 - len(args))
            return ("slice", a3[0], a3[1], a3[2])
        if name == "isinstance" and len(args) == 2:
            return ("f", "isinstance", tuple(args), ())
        if name == "getattr" and len(args) >= 2 and args[1][0] == "k":
            # getattr(obj, "name", default): tracked store wins, else stays symbolic
            if (args[0], args[1][1]) in ev.heap:
                return ev.heap[(args[0], args[1][1])]
            if len(args) == 2 and isinstance(args[1][1], str):
                return ev.load_attr(args[0], args[1][1])  # getattr(o, "name") is o.name
            return ("f", "getattr", tuple(args), ())
        if name in ("list", "tuple") and len(args) == 1 and args[0][0] in ("t", "l"):
            return (("l" if name == "list" else "t"), args[0][1])
        if name == "dict" and not args:
            return ("d", tuple((T.K(k), v) for k, v in kwargs.items()))
        if name == "dict" and len(args) == 1 and args[0][0] == "d" and not kwargs:
            return args[0]
        return self._event(f"builtins.{name}", args, kwargs, e, None, pure=True)

    def call_namespace_func(self, name, args, kwargs, e, origin=""):
        """``xp.<name>(...)`` / external ``<name>(...)``."""
        if (name in TRANSPARENT_FUNCS or name in self.ev.transparent_extra) and args:
            self._event(f"xp.{name}", args, kwargs, e, None, pure=True)
            return args[0]
        if name in CANON_FUNCS:
            return self.canon(CANON_FUNCS[name], args, kwargs, e)
        if name == "log1p" and len(args) == 1:
            return T.app("log", T.add(T.ONE, args[0]))
        if name == "divide" and len(args) == 2:
            return T.div(args[0], args[1]) if all(map(T.is_numeric, args)) else T.app("div", *args)
        if name == "multiply" and len(args) == 2 and all(map(T.is_numeric, args)):
            return T.mul(args[0], args[1])
        if name == "add" and len(args) == 2 and all(map(T.is_numeric, args)):
            return T.add(args[0], args[1])
        if name == "subtract" and len(args) == 2 and all(map(T.is_numeric, args)):
            return T.sub(args[0], args[1])
        if name == "negative" and len(args) == 1:
            return T.neg(args[0])
        if name == "power" and len(args) == 2:
            return self.binop(ast.Pow(), args[0], args[1], e)
        full = origin or name
        return self._event(full, args, kwargs, e, None, pure=True)

    def canon(self, cname, args, kwargs, e):
        t = norm_app(cname, args, kwargs)
        self._record(cname, args, kwargs, e, t, None)
        return t

    def call_attr(self, recv, attr, args, kwargs, e, st):
        ev = self.ev
        # namespace function: xp.exp, np.log, math.log, self.xp.sum ...
        if recv[0] == "ref":
            tgt = self._resolve_ref_attr(recv[1], attr)
            if tgt is not None:
                return self.call_value(tgt, args, kwargs, e, st)
            return self.call_namespace_func(attr, args, kwargs, e, origin=f"{recv[1]}.{attr}")
        if is_namespace(recv):
            return self.call_namespace_func(attr, args, kwargs, e, origin=f"xp.{attr}")
        cls = ev.types.get(recv)
        if cls is not None and attr == "__class__" and recv[0] != "ref":
            return self.construct(cls, args, kwargs, e)
        if cls is not None and attr not in self.ev.opaque_methods:
            m = cls.resolve(attr)
            if m is not None:
                if m.has_decorator("staticmethod"):
                    return self._call_repo(m, cls, None, args, kwargs, e)
                if m.has_decorator("classmethod"):
                    return self._call_repo(m, cls, ("ref", cls.ident), args, kwargs, e)
                return self._call_repo(m, cls, recv, args, kwargs, e)
        # cls(...) / self.__class__(...) handled by caller via attr '__class__'
        if recv[0] == "attr" and recv[2] == "__class__" and False:
            pass
        # dict-like operations on known dict terms
        if recv[0] == "d":
            if attr == "copy" and not args:
                return recv
            if attr == "get" and args and args[0][0] == "k":
                for k, v in recv[1]:
                    if k == args[0]:
                        return v
                return args[1] if len(args) > 1 else T.NONE
            if not args and all(k[0] == "k" and k[1] != "**" for k, _ in recv[1]):
                if attr == "items":
                    return ("l", tuple(("t", (k, v)) for k, v in recv[1]))
                if attr == "keys":
                    return ("l", tuple(k for k, _ in recv[1]))
                if attr == "values":
                    return ("l", tuple(v for _, v in recv[1]))
        # value methods
        if attr == "array_to_namespace" and args:
            # BaseSamples.array_to_namespace on a receiver of unknown class:
            # value-preserving conversion of its argument
            self._event(f"method:{attr}", [recv] + list(args), kwargs, e, recv, pure=True)
            return args[0]
        if attr in TRANSPARENT_METHODS and attr not in self.ev.opaque_methods:
            self._event(f"method:{attr}", [recv] + list(args), kwargs, e, recv, pure=True)
            return recv
        if attr in VALUE_METHODS:
            return self.canon(CANON_FUNCS.get(attr, attr), [recv] + list(args), kwargs, e)
        return self._event(f"method:{attr}", [recv] + list(args), kwargs, e, recv)

    def construct(self, cls: ClassInfo, args, kwargs, e):
        ev = self.ev
        obj = ev.new_obj(cls.name)
        ev.types[obj] = cls
        if cls.is_dataclass:
            flds = cls.init_fields()
            bound = {}
            for f, a in zip(flds, args):
                bound[f.name] = a
            for k, v in kwargs.items():
                if k != "**":
                    bound[k] = v
            for f in cls.fields():
                if f.name in bound:
                    ev.heap[(obj, f.name)] = bound[f.name]
                elif f.init and f.has_default and "**" not in kwargs and not f.factory:
                    d = f.default
                    ev.heap[(obj, f.name)] = T.NONE if (isinstance(d, ast.Constant) and d.value is None) else ("f", "default", (T.K(f.name),), ())
            self._record(f"new:{cls.ident}", args, kwargs, e, obj, None)
            post = cls.resolve("__post_init__")
            if post is not None and self.depth < ev.max_depth and cls.ident not in ev.no_inline:
                # __post_init__ converts the array fields with value-preserving
                # conversions; derived fields (weights) are computed there
                try:
                    Frame(ev, post, cls, self.depth + 1)._run_inline(post, cls, obj, [], {})
                except RecursionError:
                    pass
            return obj
        self._record(f"new:{cls.ident}", args, kwargs, e, obj, None)
        return obj

    # --------------------------------------------------------- repo calls
    def _may_inline(self, f: FuncInfo) -> bool:
        ev = self.ev
        if self.depth >= ev.max_depth:
            return False
        if f.ident in ev.no_inline or f.ident in NEVER_INLINE:
            return False
        if ev.inline_pred is not None:
            r = ev.inline_pred(f)
            if r is not None:
                return r
        n = sum(1 for x in walk_no_nested(f.node) if isinstance(x, ast.stmt))
        if n > MAX_INLINE_STMTS:
            return False
        if f.has_decorator("contextmanager"):
            return False
        return True

    def _call_repo(self, f: FuncInfo, cls, recv, args, kwargs, e):
        ev = self.ev
        if f.ident in TRANSPARENT_REPO_FUNCS and args:
            self._record(f.ident, args, kwargs, e, args[0], recv)
            return args[0]
        if f.ident == "aspire.utils:logsumexp" and args:
            r = lse(args[0], kwargs.get("axis") or (args[1] if len(args) > 1 else None))
            self._record(f.ident, args, kwargs, e, r, recv)
            return r
        if f.ident == "aspire.utils:update_at_indices" and len(args) == 3:
            r = T.app("update_at", *args)
            self._record(f.ident, args, kwargs, e, r, recv)
            return r
        is_closure = f.parent is not None and (f.parent is self.f or f.parent is getattr(self.f, "parent", None))
        if is_closure and f.ident not in self.ev.no_inline and self.depth < self.ev.max_depth + 3:
            # a local helper defined in the enclosing function: inline it with the
            # enclosing frame's environment at the call (closure semantics); no depth cost
            self._record(f.ident, args, kwargs, e, None, recv)
            fr = Frame(self.ev, f, self.concrete, self.depth)
            fr.outer_conds = self.outer_conds + (self.cur.conds if self.cur is not None else ())
            fr.closure_env = dict(self.cur.env) if self.cur is not None else {}
            return fr._run_inline(f, cls, recv, args, kwargs)
        if self._may_inline(f):
            self._record(f.ident, args, kwargs, e, None, recv)
            return self._inline(f, cls, recv, args, kwargs, e)
        r = ("f", f"call:{f.ident}", ((recv,) if recv is not None else ()) + tuple(args), tuple(sorted(kwargs.items())))
        # a non-inlined method may store to attributes of its receiver: forget them (the event keeps the attributes as they were at the call)
        pre_snap = ev.snapshot(list(args) + ([recv] if recv is not None else []))
        if recv is not None:
            for attr in mod_summary(self.repo, f, cls):
                ev.heap.pop((recv, attr), None)
                ev.heap[(recv, attr)] = ev.opaque(f"mod:{f.name}.{attr}")
        self._record(f.ident, args, kwargs, e, r, recv, snap=pre_snap)
        return r

    def _inline(self, f, cls, recv, args, kwargs, e):
        fr = Frame(self.ev, f, cls if isinstance(cls, ClassInfo) else f.cls, self.depth + 1)
        fr.outer_conds = self.outer_conds + (self.cur.conds if self.cur is not None else ())
        return fr._run_inline(f, cls, recv, args, kwargs)

    def _run_inline(self, f, cls, recv, args, kwargs):
        ev = self.ev
        ev.inlined.add(f.ident)
        st = State()
        params = f.params
        a = f.node.args
        pos = [x.arg for x in a.posonlyargs + a.args]
        defaults = f.param_defaults()
        args = list(args)
        bound = {}
        if f.cls is not None and f.parent is None and not f.has_decorator("staticmethod") and pos:
            bound[pos[0]] = recv if recv is not None else T.atom("self")
            if recv is not None and isinstance(cls, ClassInfo) and recv[0] != "ref":
                ev.types.setdefault(recv, cls)
            pos = pos[1:]
        extra_pos = []
        for i, v in enumerate(args):
            if i < len(pos):
                bound[pos[i]] = v
            else:
                extra_pos.append(v)
        extra_kw = {}
        for k, v in kwargs.items():
            if k in params:
                bound[k] = v
            else:
                extra_kw[k] = v
        for p in params:
            if p not in bound:
                if p in defaults:
                    bound[p] = self.eval(defaults[p], State())
                else:
                    bound[p] = ev.opaque(f"unbound:{p}") if "**" in kwargs else T.atom(f"{f.name}.{p}")
        if a.vararg:
            bound[a.vararg.arg] = ("t", tuple(extra_pos))
        if a.kwarg:
            kw_items = tuple((T.K(k), v) for k, v in extra_kw.items() if k != "**")
            if "**" in extra_kw:
                bound[a.kwarg.arg] = ("f", "kwargs", (("d", kw_items), extra_kw["**"]), ())
            else:
                bound[a.kwarg.arg] = ("d", kw_items)
        if getattr(self, "closure_env", None):
            for k_, v_ in self.closure_env.items():
                st.env.setdefault(k_, v_)
            for k_, v_ in bound.items():
                st.env[k_] = v_
        else:
            st.env.update(bound)
        self.exec_block(f.node.body, st)
        ret = st.ret
        if ret is None:
            return T.NONE
        # the value an inlined call contributes is its value on the
        # non-raising paths
        return T.strip_raise(subst_cont(ret, T.NONE))

    # ------------------------------------------------------------- events
    def _record(self, callee, args, kwargs, e, result, recv, snap=None):
        ev = self.ev
        ev.events.append(
            Event(callee, tuple(args), tuple(sorted(kwargs.items())), e, self.f, result, recv, self.depth,
                  next(ev._seq), snap if snap is not None else ev.snapshot(list(args) + ([recv] if recv is not None else [])),
                  self.outer_conds + (self.cur.conds if getattr(self, "cur", None) is not None else ()))
        )

    def _event(self, callee, args, kwargs, e, recv, pure=False):
        if callee.startswith("method:") and callee[7:] in IMPURE_METHODS:
            # a draw from a stateful generator: every call is a distinct value
            kwargs = dict(kwargs)
            kwargs["#draw"] = T.const(next(self.ev._ids))
        t = ("f", callee, tuple(args), tuple(sorted(kwargs.items())))
        self._record(callee, args, kwargs, e, t, recv)
        return t


# --------------------------------------------------------------------- helpers
def subst_cont(t, v):
    """Replace the CONT leaves of a return tree (CONT only occurs as a phi leaf)."""
    if t == T.CONT:
        return v
    if isinstance(t, tuple) and t and t[0] == "phi":
        return T.phi(t[1], subst_cont(t[2], v), subst_cont(t[3], v))
    return t


def lse(x, axis=None):
    """Canonical expansion of a max-shifted logsumexp."""
    kw = {} if axis in (None, T.NONE) else {"axis": axis}
    c = norm_app("max", [x])
    return T.add(c, norm_app("log", [norm_app("sum", [norm_app("exp", [T.sub(x, c)])], kw)]))


SCALAR_REDUCTIONS = {"max", "min", "sum", "mean", "var", "std", "len", "prod"}


def is_scalar(t) -> bool:
    """Per-set scalar: constants, full reductions (no axis), len(), and
    arithmetic / log / exp / sqrt of scalars."""
    if T.is_poly(t):
        return all(is_scalar(b) for m, _ in t[1] for b, _e in m)
    if t[0] == "f":
        name, args, kw = t[1], t[2], dict(t[3])
        if name in SCALAR_REDUCTIONS:
            return "axis" not in kw
        if name in ("log", "exp", "sqrt", "abs", "float", "int"):
            return all(is_scalar(a) for a in args)
        return False
    if t[0] == "a":
        return t[1] in ("pi", "inf", "nan", "euler_e")
    return False


def norm_app(cname, args, kwargs=None):
    """Canonical application of a canonical function name (shared by the
    evaluator and the spec language)."""
    args = list(args)
    kw = dict(kwargs or {})
    kw.pop("device", None)
    kw.pop("dtype", None)
    if cname in REDUCTIONS:
        if len(args) >= 2:
            kw.setdefault("axis", args[1])
            args = args[:1]
        if "dim" in kw:
            kw["axis"] = kw.pop("dim")
        if kw.get("axis") == T.NONE:
            kw.pop("axis")
    if cname == "square" and len(args) == 1 and T.is_numeric(args[0]):
        return T.powi(args[0], 2)
    if cname in ("max", "min") and len(args) == 1 and not kw and T.is_poly(args[0]) and len(args[0][1]) > 1:
        # max(v + c) = max(v) + c for a per-set scalar c (shift equivariance)
        vec, sca = {}, {}
        for m, c in args[0][1]:
            (sca if (m == () or all(is_scalar(b) for b, _e in m)) else vec)[m] = c
        if sca and vec:
            return T.add(("f", cname, (T._mk(vec),), ()), T._mk(sca))
    if cname == "logsumexp" and len(args) == 1:
        return lse(args[0], kw.get("axis"))
    if cname == "exp" and len(args) == 1 and not kw:
        r = exp_norm(args[0])
        if r is not None:
            return r
    if cname == "log" and len(args) == 1 and not kw:
        a0 = args[0]
        if a0[0] == "f" and a0[1] == "exp" and len(a0[2]) == 1:
            return a0[2][0]
    if cname in ("sum", "mean") and len(args) == 1 and T.is_poly(args[0]) and args[0][1]:
        lead = args[0][1][0][1]
        if lead != 1:
            inner = T.div(args[0], T.const(lead))
            return T.mul(T.const(lead), ("f", cname, (inner,), tuple(sorted(kw.items()))))
    if cname in ("erf", "erfinv") and len(args) == 1:
        other = "erfinv" if cname == "erf" else "erf"
        a0 = args[0]
        if a0[0] == "f" and a0[1] == other and len(a0[2]) == 1:
            return a0[2][0]
    if cname in ("zeros", "zeros_like"):
        return T.ZERO  # broadcast view: an array of zeros is the value 0
    if cname in ("ones", "ones_like"):
        return T.ONE  # broadcast view: an array of ones is the value 1
    if cname in ("full", "full_like") and len(args) >= 2:
        return args[1]  # broadcast view: an array filled with v is the value v (its dtype is C04.alloc's business)
    return ("f", cname, tuple(args), tuple(sorted(kw.items())))


ELEMENTWISE = {"exp", "log", "sqrt", "abs", "erf", "erfinv", "clip", "mod", "where", "update_at",
               "isnan", "isfinite", "sign", "tanh", "arctanh", "maximum", "minimum", "pow", "div"}


def batch_root(t, batch_params):
    """``len`` of an element-wise expression is the ``len`` of the batch array it
    is built from: the first *batch parameter* atom reached through
    element-wise structure (never through a reduction)."""
    if not batch_params:
        return t
    names = set(batch_params)
    stack = [t]
    seen = set()
    while stack:
        x = stack.pop(0)
        if not isinstance(x, tuple) or not x or x in seen:
            continue
        seen.add(x)
        k = x[0]
        if k == "a" and x[1] in names:
            return x
        if k == "p":
            for m, _ in x[1]:
                for b, _e in m:
                    stack.append(b)
        elif k == "f" and x[1] in ELEMENTWISE:
            stack.extend(x[2])
        elif k == "phi":
            stack.extend([x[2], x[3]])
        elif k == "s":
            # row-preserving column selection x[..., mask] / x[:, mask]
            idx = x[2]
            if idx[0] == "t" and idx[1] and all(i == ("k", Ellipsis) or (i[0] == "slice" and i[1:] == (T.NONE,) * 3) for i in idx[1][:-1]):
                stack.append(x[1])
    return t


def exp_norm(arg):
    """exp(sum_i c_i*log(t_i) + r) = prod_i t_i**c_i * exp(r)   (integer c_i, t_i > 0)."""
    if not T.is_poly(arg):
        if arg[0] == "f" and arg[1] == "log" and len(arg[2]) == 1 and not arg[3]:
            return arg[2][0]
        return None
    prod = T.ONE
    rest = {}
    hit = False
    for m, c in arg[1]:
        if len(m) == 1 and m[0][1] == 1 and m[0][0][0] == "f" and m[0][0][1] == "log" and len(m[0][0][2]) == 1 \
                and not m[0][0][3] and T.Fraction(c).denominator == 1 and abs(int(c)) <= 4:
            inner = m[0][0][2][0]
            prod = T.mul(prod, T.powi(inner, int(c)))
            hit = True
        else:
            rest[m] = c
    if not hit:
        return None
    r = T._mk(rest)
    if r == T.ZERO:
        return prod
    return T.mul(prod, ("f", "exp", (r,), ()))


def is_namespace(t) -> bool:
    if t[0] == "a" and t[1] in NAMESPACE_NAMES:
        return True
    if t[0] == "attr" and t[2] in ("xp",):
        return True
    if t[0] == "f" and t[1] in ("array_namespace", "array_api_compat.array_namespace", "call:array_namespace"):
        return True
    if t[0] == "phi":
        return is_namespace(t[2]) and is_namespace(t[3])
    return False


def project(v, i: int):
    if isinstance(v, tuple) and v and v[0] in ("t", "l") and -len(v[1]) <= i < len(v[1]):
        return v[1][i]
    if isinstance(v, tuple) and v and v[0] == "phi":
        return T.phi(v[1], project(v[2], i), project(v[3], i))
    if v == T.RAISE or v == T.CONT:
        return v
    return ("s", v, T.const(i))


def _map_phi(t, fn):
    if isinstance(t, tuple) and t and t[0] == "phi":
        return T.phi(t[1], _map_phi(t[2], fn), _map_phi(t[3], fn))
    return fn(t)


def _only(t, leaf):
    return all(l == leaf for l in T.phi_leaves(t))


def _merge_ret(orig, cond, a, b):
    if a == b:
        return a
    return T.phi(cond, a, b)


def _merge_maps(cond, a: dict, b: dict, heap: bool = False):
    out = {}
    for k in a.keys() | b.keys():
        if k in a and k in b:
            out[k] = T.phi(cond, a[k], b[k])
        elif heap:
            # attribute stored on one branch only: the other branch sees the
            # pre-existing (untracked) attribute
            obj, attr = k
            other = ("attr", obj, attr)
            out[k] = T.phi(cond, a[k], other) if k in a else T.phi(cond, other, b[k])
        else:
            out[k] = T.phi(cond, a.get(k, ("k", "<undef>")), b.get(k, ("k", "<undef>")))
    return out


def _as_load(t):
    import copy as _c

    n = _c.copy(t)
    n.ctx = ast.Load()
    return n


def _assigned_names(node):
    names, attrs = set(), set()
    for n in walk_no_nested(node) if not isinstance(node, ast.Module) else ast.walk(node):
        tgts = []
        if isinstance(n, ast.Assign):
            tgts = n.targets
        elif isinstance(n, (ast.AugAssign, ast.AnnAssign)):
            tgts = [n.target]
        elif isinstance(n, (ast.For, ast.comprehension)):
            tgts = [n.target]
        elif isinstance(n, ast.With):
            tgts = [i.optional_vars for i in n.items if i.optional_vars is not None]
        elif isinstance(n, ast.NamedExpr):
            tgts = [n.target]
        for t in tgts:
            for x in ast.walk(t):
                if isinstance(x, ast.Name) and isinstance(x.ctx, ast.Store):
                    names.add(x.id)
                elif isinstance(x, ast.Attribute) and isinstance(x.ctx, ast.Store) and isinstance(x.value, ast.Name):
                    attrs.add((x.value.id, x.attr))
    return names, attrs


_MOD_CACHE: dict = {}


def mod_summary(repo: Repo, f: FuncInfo, cls, _depth=0, _seen=None) -> set:
    """Attributes of ``self`` that *f* may store to (transitively through
    self-calls, bounded)."""
    cache = repo.__dict__.setdefault("_mod_cache", {})
    key = (f.ident, getattr(cls, "ident", None))
    if key in cache:
        return cache[key]
    _seen = _seen or set()
    if f.ident in _seen or _depth > 4:
        return set()
    _seen.add(f.ident)
    out = set()
    me = f.params[0] if f.params else None
    for n in walk_no_nested(f.node):
        if isinstance(n, ast.Attribute) and isinstance(n.ctx, ast.Store) and isinstance(n.value, ast.Name) and n.value.id == me:
            out.add(n.attr)
        if isinstance(n, ast.Call) and isinstance(n.func, ast.Attribute) and isinstance(n.func.value, ast.Name) and n.func.value.id == me and isinstance(cls, ClassInfo):
            m = cls.resolve(n.func.attr)
            if m is not None:
                out |= mod_summary(repo, m, cls, _depth + 1, _seen)
    if _depth == 0:
        cache[key] = out
    return out


# ---------------------------------------------------------------- conditions
def _structured_body(stmts):
    """Loop body with `if c: ...; continue` rewritten to if/else form, or None
    when the body contains a break, a return, or a continue in another position."""
    def has_jump(nodes):
        for n in nodes:
            for x in walk_no_nested(n) if not isinstance(n, (ast.For, ast.While)) else []:
                if isinstance(x, (ast.Continue, ast.Break, ast.Return)):
                    return True
            if isinstance(n, (ast.For, ast.While)):
                if any(isinstance(x, ast.Return) for x in walk_no_nested(n)):
                    return True
        return False

    def rw(block):
        out = []
        for i, st_ in enumerate(block):
            if isinstance(st_, ast.Continue):
                return out
            if isinstance(st_, ast.If) and has_jump([st_]):
                b_c = bool(st_.body) and isinstance(st_.body[-1], ast.Continue)
                o_c = bool(st_.orelse) and isinstance(st_.orelse[-1], ast.Continue)
                b = st_.body[:-1] if b_c else st_.body
                o = st_.orelse[:-1] if o_c else st_.orelse
                if has_jump(b) or has_jump(o):
                    return None
                rest = rw(block[i + 1:])
                if rest is None:
                    return None
                nb = list(b) + ([] if b_c else rest)
                no = list(o) + ([] if o_c else rest)
                new = ast.If(test=st_.test, body=nb or [ast.Pass()], orelse=no)
                ast.copy_location(new, st_)
                ast.fix_missing_locations(new)
                return out + [new]
            if has_jump([st_]):
                return None
            out.append(st_)
        return out

    return rw(list(stmts))


def _zipdict_keys(v):
    """names for v == dict(zip(names, ...)), else None."""
    if v[0] == "f" and v[1] == "builtins.dict" and len(v[2]) == 1:
        z = v[2][0]
        if z[0] == "f" and z[1] == "builtins.zip" and len(z[2]) >= 2:
            return z[2][0]
    return None


def _concrete_domain(dom) -> bool:
    """A literal list of dataclass-field descriptors, or of (constant key, value) pairs."""
    if not (isinstance(dom, tuple) and dom and dom[0] in ("l", "t") and dom[1]):
        return False
    if all(x[0] == "fld" for x in dom[1]):
        return True
    return all(x[0] == "t" and len(x[1]) == 2 and x[1][0][0] == "k" for x in dom[1])


def compare(op, a, b):
    num = T.is_numeric(a) and T.is_numeric(b)
    if isinstance(op, (ast.Is, ast.IsNot)):
        r = ("is", a, b)
        d = _decide_is(a, b)
        if d is not None:
            r = T.TRUE if d else T.FALSE
        return negate(r) if isinstance(op, ast.IsNot) else r
    if isinstance(op, (ast.In, ast.NotIn)):
        r = ("in", a, b)
        if a[0] == "k":
            members = None
            if b[0] in ("l", "t"):
                members = b[1]
            elif b[0] == "f" and b[1] == "set":
                members = b[2]
            elif b[0] == "d":
                members = tuple(k for k, _ in b[1])
            if members is not None and all(m[0] == "k" and m[1] != "**" for m in members):
                r = T.TRUE if a in members else T.FALSE
        return negate(r) if isinstance(op, ast.NotIn) else r
    if not num:
        name = {ast.Eq: "==", ast.NotEq: "!=", ast.Lt: "<", ast.LtE: "<=", ast.Gt: ">", ast.GtE: ">="}[type(op)]
        if name in ("==", "!="):
            x, y = sorted((a, b), key=repr)
            if a[0] == "k" and b[0] == "k":
                return T.K((a[1] == b[1]) if name == "==" else (a[1] != b[1]))
            return ("cmp", name, x, y)
        return ("cmp", name, a, b)
    if isinstance(op, ast.Gt):
        return _cmp0(">", T.sub(a, b))
    if isinstance(op, ast.Lt):
        return _cmp0(">", T.sub(b, a))
    if isinstance(op, ast.GtE):
        return _cmp0(">=", T.sub(a, b))
    if isinstance(op, ast.LtE):
        return _cmp0(">=", T.sub(b, a))
    d = T.sub(a, b)
    # canonical sign for (in)equality
    if T.is_poly(d) and d[1] and d[1][0][1] < 0:
        d = T.neg(d)
    elif not T.is_poly(d):
        pass
    return _cmp0("==" if isinstance(op, ast.Eq) else "!=", d)


def _cmp0(op, d):
    cv = T.const_value(d)
    if cv is not None:
        return T.K({">": cv > 0, ">=": cv >= 0, "==": cv == 0, "!=": cv != 0}[op])
    return ("cmp", op, d)


def _decide_is(a, b):
    if a == b and a[0] == "k":
        return True
    if b == T.NONE and a[0] in ("p", "obj", "t", "l", "d", "f") and not (a[0] == "f" and a[1] in ("default", "getattr") or a[0] == "f" and a[1].startswith("method:")):
        # arithmetic results, constructed objects and containers are not None
        if a[0] == "f":
            return None
        return False
    if a[0] == "k" and b[0] == "k":
        return a[1] is b[1]
    return None


def negate(c):
    if c == T.TRUE:
        return T.FALSE
    if c == T.FALSE:
        return T.TRUE
    if c[0] == "not":
        return c[1]
    if c[0] == "cmp" and len(c) == 3:
        op, d = c[1], c[2]
        if op == ">":
            return ("cmp", ">=", T.neg(d))
        if op == ">=":
            return ("cmp", ">", T.neg(d))
        if op == "==":
            return ("cmp", "!=", d)
        if op == "!=":
            return ("cmp", "==", d)
    return ("not", c)


def mk_and(vals):
    out = []
    for v in vals:
        if v == T.TRUE:
            continue
        if v == T.FALSE:
            return T.FALSE
        if v[0] == "and":
            out.extend(v[1])
        else:
            out.append(v)
    if not out:
        return T.TRUE
    if len(out) == 1:
        return out[0]
    return ("and", tuple(out))


def mk_or(vals):
    out = []
    for v in vals:
        d = decide(v)
        if d is False and v[0] == "k":
            continue  # None / False / "" literal: falls through to the next operand
        if d is True and not out:
            return v
        if v[0] == "or":
            out.extend(v[1])
        else:
            out.append(v)
    if not out:
        return vals[-1] if vals else T.FALSE
    if len(out) == 1:
        return out[0]
    return ("or", tuple(out))


def decide(c):
    """True / False if the condition term is statically decided, else None."""
    if c[0] == "k":
        return bool(c[1])
    cv = T.const_value(c)
    if cv is not None:
        return cv != 0
    if c[0] in ("obj",):
        return None
    if c[0] == "d":
        return len(c[1]) > 0
    if c[0] in ("t", "l"):
        return len(c[1]) > 0
    if c[0] == "not":
        d = decide(c[1])
        return None if d is None else (not d)
    return None
