"""Spec expressions: the property's algebra written in the same term language.

``spec("L + P - Q", L=..., P=..., Q=...)`` evaluates a Python expression whose
names are bound to terms and whose functions are the canonical ones
(exp, log, sqrt, abs, sum, mean, var, max, len, LSE, min2, max2).
"""

from __future__ import annotations

import ast

from . import terms as T
from .evalr import lse, norm_app


_PARSED: dict = {}


def spec(expr: str, **slots):
    node = _PARSED.get(expr)
    if node is None:
        node = _PARSED[expr] = ast.parse(expr, mode="eval").body
    return _ev(node, slots)


def _ev(n, env):
    if isinstance(n, ast.Constant):
        if n.value is None:
            return T.NONE
        return T.const(n.value)
    if isinstance(n, ast.Name):
        if n.id in env:
            return env[n.id]
        if n.id in ("inf", "nan", "pi"):
            return T.atom(n.id)
        raise KeyError(f"spec: unbound name {n.id}")
    if isinstance(n, ast.BinOp):
        a, b = _ev(n.left, env), _ev(n.right, env)
        if isinstance(n.op, ast.Add):
            return T.add(a, b)
        if isinstance(n.op, ast.Sub):
            return T.sub(a, b)
        if isinstance(n.op, ast.Mult):
            return T.mul(a, b)
        if isinstance(n.op, ast.Div):
            return T.div(a, b)
        if isinstance(n.op, ast.Pow):
            cv = T.const_value(b)
            if cv is not None and cv.denominator == 1:
                return T.powi(a, int(cv))
            return T.app("pow", a, b)
        if isinstance(n.op, ast.Mod):
            return T.app("mod", a, b)
        raise ValueError(f"spec: operator {type(n.op).__name__}")
    if isinstance(n, ast.UnaryOp) and isinstance(n.op, ast.USub):
        return T.neg(_ev(n.operand, env))
    if isinstance(n, ast.Call) and isinstance(n.func, ast.Name):
        args = [_ev(a, env) for a in n.args]
        kw = {k.arg: _ev(k.value, env) for k in n.keywords}
        f = n.func.id
        if f == "LSE":
            return lse(args[0], kw.get("axis"))
        if f in ("min2", "max2"):
            a, b = sorted(args, key=repr)
            return T.app(f, a, b)
        return norm_app(f, args, kw)
    if isinstance(n, ast.Tuple):
        return ("t", tuple(_ev(x, env) for x in n.elts))
    raise ValueError(f"spec: unsupported syntax {ast.dump(n)}")
