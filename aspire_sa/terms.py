"""Hash-consed terms with a canonical polynomial (Laurent) normal form.

Terms are nested tuples:

  ('p', ((mono, coeff), ...))     polynomial, mono = ((base_term, int_exp), ...)
  ('a', name)                     atom (parameter, free name, constant symbol)
  ('attr', base, name)            attribute load that is not tracked in the heap
  ('f', fname, args, kwargs)      uninterpreted application (canonical callee name)
  ('t', items) / ('l', items)     tuple / list
  ('d', ((key, value), ...))      dict literal
  ('s', base, index)              subscript
  ('slice', lo, hi, step)
  ('k', value)                    python constant that is not a number (None, str, bool, ...)
  ('phi', cond, a, b)             gated merge
  ('cmp', op, lhs[, rhs])         comparison (numeric ones are normalised to ``expr op 0``)
  ('not', t) ('and', items) ('or', items) ('is', a, b) ('in', a, b)
  ('obj', n, clsname)             object created by a constructor call
  ('ref', ident)                  reference to a function / class / module
  ('u', tag, text)                uninterpreted syntax (lambda, comprehension, f-string)
  ('cont',) ('raise',)            control markers inside return trees

Arithmetic ( + - * / ** int ) is interpreted exactly over the rationals, so two
expressions that are equal as polynomials in their atoms have identical normal
forms (commutativity, associativity and distributivity are built in).
"""

from __future__ import annotations

from fractions import Fraction

ZERO = ("p", ())
CONT = ("cont",)
RAISE = ("raise",)
NONE = ("k", None)
TRUE = ("k", True)
FALSE = ("k", False)


_IDS: dict = {}


def _key(t):
    """Process-wide canonical order: first-seen index of the (hash-consed) term.
    Both sides of every comparison are built in the same process, so the
    normal form is canonical for the lifetime of the run."""
    k = _IDS.get(t)
    if k is None:
        k = _IDS[t] = len(_IDS)
    return k


def const(v) -> tuple:
    v = Fraction(v)
    if v == 0:
        return ZERO
    if v.denominator == 1:
        v = v.numerator
    return ("p", (((), v),))


ONE = const(1)


def atom(name: str) -> tuple:
    return ("a", name)


def K(v) -> tuple:
    return ("k", v)


def app(fname: str, *args, **kwargs) -> tuple:
    return ("f", fname, tuple(args), tuple(sorted(kwargs.items())))


def is_poly(t) -> bool:
    return isinstance(t, tuple) and len(t) == 2 and t[0] == "p"


def is_const(t) -> bool:
    return is_poly(t) and all(m == () for m, _ in t[1])


def const_value(t):
    if not is_const(t):
        return None
    return Fraction(t[1][0][1]) if t[1] else Fraction(0)


NUMERIC_KINDS = {"p", "a", "attr", "f", "s", "phi", "u", "opaque"}


def is_numeric(t) -> bool:
    return isinstance(t, tuple) and t and t[0] in NUMERIC_KINDS


def _as_dict(t) -> dict:
    if is_poly(t):
        return dict(t[1])
    return {((t, 1),): Fraction(1)}


def _mk(d: dict) -> tuple:
    items = [
        (m, (c.numerator if isinstance(c, Fraction) and c.denominator == 1 else c))
        for m, c in d.items()
        if c != 0
    ]
    if len(items) == 1:
        m, c = items[0]
        if c == 1 and len(m) == 1 and m[0][1] == 1:
            return m[0][0]
    items.sort(key=_key)
    return ("p", tuple(items))


def add(a, b):
    d = _as_dict(a)
    for m, c in _as_dict(b).items():
        d[m] = d.get(m, 0) + c
    return _mk(d)


def neg(a):
    return _mk({m: -c for m, c in _as_dict(a).items()})


def sub(a, b):
    return add(a, neg(b))


def _mono_mul(m1, m2):
    d = {}
    for b, e in m1 + m2:
        d[b] = d.get(b, 0) + e
    return tuple(sorted(((b, e) for b, e in d.items() if e != 0), key=_key))


def _is_sqrt(b):
    return isinstance(b, tuple) and len(b) == 4 and b[0] == "f" and b[1] == "sqrt" and len(b[2]) == 1 and not b[3]


def mul(a, b):
    da, db = _as_dict(a), _as_dict(b)
    d: dict = {}
    extra = []
    for m1, c1 in da.items():
        for m2, c2 in db.items():
            m = _mono_mul(m1, m2)
            if any(_is_sqrt(b) and abs(e) >= 2 for b, e in m):
                # sqrt(t)**2 == t
                term = const(c1 * c2)
                for b, e in m:
                    if _is_sqrt(b) and abs(e) >= 2:
                        q, r = divmod(abs(e), 2)
                        sgn = 1 if e > 0 else -1
                        inner = powi(b[2][0], q) if sgn > 0 else div(ONE, powi(b[2][0], q))
                        term = mul(term, inner)
                        if r:
                            term = mul(term, _mk({((b, sgn),): 1}))
                    else:
                        term = mul(term, _mk({((b, e),): 1}))
                extra.append(term)
                continue
            d[m] = d.get(m, 0) + c1 * c2
    r = _mk(d)
    for t in extra:
        r = add(r, t)
    return r


def expand_poly_bases(t):
    """Expand polynomial bases that carry a positive exponent."""
    if not is_poly(t):
        return t
    total = ZERO
    changed = False
    for m, c in t[1]:
        term = const(c)
        for base, e in m:
            if is_poly(base) and e > 0:
                changed = True
                term = mul(term, powi(expand_poly_bases(base), e))
            else:
                term = _mul_by_unit(term, base, e)
        total = add(total, term)
    return expand_poly_bases(total) if changed else t


def _mul_by_unit(t, base, k: int):
    """t * base**k with *base* treated as an indivisible unit (so that
    base**-k factors cancel), without expanding it."""
    out: dict = {}
    for m, c in _as_dict(t).items():
        mm = _mono_mul(m, ((base, k),))
        out[mm] = out.get(mm, 0) + c
    return _mk(out)


def rat_zero(d) -> bool:
    """Is the rational expression *d* identically zero?  Denominators
    (bases with negative exponents) are cleared by multiplying with the base
    as a unit, then polynomial bases are expanded."""
    for _ in range(6):
        if d == ZERO:
            return True
        if not is_poly(d):
            return False
        neg_bases = {}
        for m, _c in d[1]:
            for base, e in m:
                if e < 0:
                    neg_bases[base] = max(neg_bases.get(base, 0), -e)
        if not neg_bases:
            return expand_poly_bases(d) == ZERO
        for base, k in neg_bases.items():
            d = _mul_by_unit(d, base, k)
        d = expand_poly_bases(d)
    return d == ZERO


def powi(a, n: int):
    if n == 0:
        return ONE
    if n < 0:
        return div(ONE, powi(a, -n))
    r = ONE
    for _ in range(n):
        r = mul(r, a)
    return r


def div(a, b):
    db = _as_dict(b)
    items = [(m, c) for m, c in db.items() if c != 0]
    if not items:
        return app("div", a, b)  # division by literal zero: keep uninterpreted
    if len(items) == 1:
        m, c = items[0]
        inv = {tuple((base, -e) for base, e in m): Fraction(1) / c}
        return mul(a, _mk(inv))
    # general polynomial denominator: the whole polynomial becomes a base
    bb = _mk(db)
    return mul(a, _mk({((bb, -1),): Fraction(1)}))


def linear_form(t) -> dict:
    """{base term or () : coeff} if *t* is linear in distinct bases, else raise."""
    out = {}
    for m, c in _as_dict(t).items():
        if m == ():
            out[()] = c
        elif len(m) == 1 and m[0][1] == 1:
            out[m[0][0]] = c
        else:
            out[("p", ((m, Fraction(1)),))] = c
    return out


def phi(cond, a, b):
    if a == b:
        return a
    # canonical orientation: `x if not c else y` is `y if c else x`
    while isinstance(cond, tuple) and cond and cond[0] == "not":
        cond, a, b = cond[1], b, a
    if cond == TRUE:
        return a
    if cond == FALSE:
        return b
    # `None if v is None else v` is v
    if isinstance(cond, tuple) and cond[0] == "is" and cond[2] == NONE and a == NONE and b == cond[1]:
        return b
    # `0 if len(S) == 0 else sum(S)` is sum(S): the sum of an empty sequence is 0
    if isinstance(cond, tuple) and len(cond) == 3 and cond[0] == "cmp" and cond[1] == "==" and isinstance(cond[2], tuple) and cond[2][:2] == ("f", "len") \
            and a == ZERO and isinstance(b, tuple) and b[:2] == ("f", "sum") and b[2] == cond[2][2] and not b[3]:
        return b
    # two list / tuple literals of the same length: join element-wise
    if isinstance(a, tuple) and isinstance(b, tuple) and a and b and a[0] in ("l", "t") and b[0] in ("l", "t") and len(a[1]) == len(b[1]) and len(a[1]) > 0:
        return (a[0], tuple(phi(cond, x, y) for x, y in zip(a[1], b[1])))
    # two dict literals with the same keys: join value-wise
    if isinstance(a, tuple) and isinstance(b, tuple) and a and b and a[0] == "d" and b[0] == "d" and len(a[1]) == len(b[1]):
        kb = dict(b[1])
        if len(kb) == len(b[1]) and all(k in kb for k, _ in a[1]):
            return ("d", tuple((k, phi(cond, v, kb[k])) for k, v in a[1]))
    return ("phi", cond, a, b)


def subterms(t):
    """All subterms, depth first (including t)."""
    stack = [t]
    seen = set()
    while stack:
        x = stack.pop()
        if not isinstance(x, tuple):
            continue
        if x in seen:
            continue
        seen.add(x)
        yield x
        if not x:
            continue
        k = x[0]
        if k == "p":
            for m, _ in x[1]:
                for base, _e in m:
                    stack.append(base)
        elif k == "f":
            stack.extend(x[2])
            stack.extend(v for _, v in x[3])
        elif k in ("t", "l", "and", "or"):
            stack.extend(x[1])
        elif k == "d":
            for kk, vv in x[1]:
                stack.append(kk)
                stack.append(vv)
        elif k in ("a", "k", "ref", "u", "obj", "cont", "raise", "opaque"):
            pass
        else:
            stack.extend(y for y in x[1:] if isinstance(y, tuple))


def substitute(t, mapping: dict):
    """Replace subterms (bottom-up, re-normalising polynomials)."""
    memo: dict = {}

    def rec(x):
        if not isinstance(x, tuple) or not x:
            return x
        if x in mapping:
            return mapping[x]
        if x in memo:
            return memo[x]
        k = x[0]
        if k == "p":
            total = ZERO
            for m, c in x[1]:
                term = const(c)
                for base, e in m:
                    term = mul(term, powi(rec(base), e) if e > 0 else div(ONE, powi(rec(base), -e)))
                total = add(total, term)
            r = total
        elif k == "f":
            r = ("f", x[1], tuple(rec(a) for a in x[2]), tuple((n, rec(v)) for n, v in x[3]))
        elif k in ("t", "l", "and", "or"):
            r = (k, tuple(rec(a) for a in x[1]))
        elif k == "d":
            r = ("d", tuple((rec(a), rec(b)) for a, b in x[1]))
        elif k in ("a", "k", "ref", "u", "obj", "cont", "raise", "opaque"):
            r = x
        elif k == "phi":
            r = phi(rec(x[1]), rec(x[2]), rec(x[3]))
        elif k == "cmp":
            r = ("cmp", x[1]) + tuple(rec(y) for y in x[2:])
        else:
            r = (k,) + tuple(rec(y) if isinstance(y, tuple) else y for y in x[1:])
        memo[x] = r
        return r

    return rec(t)


def strip_raise(t):
    """Value on the non-raising paths: phi(c, X, RAISE) -> X."""
    if not isinstance(t, tuple) or not t:
        return t
    if t[0] == "phi":
        a, b = strip_raise(t[2]), strip_raise(t[3])
        if a == RAISE:
            return b
        if b == RAISE:
            return a
        return phi(t[1], a, b)
    return t


def select(t, cond, polarity: bool = True):
    """Value of *t* on the paths where *cond* has the given truth value."""
    if isinstance(t, tuple) and t and t[0] == "phi":
        if t[1] == cond:
            return select(t[2] if polarity else t[3], cond, polarity)
        if t[1] == ("not", cond) or cond == ("not", t[1]):
            return select(t[3] if polarity else t[2], cond, polarity)
        return phi(t[1], select(t[2], cond, polarity), select(t[3], cond, polarity))
    return t


def resolve(t, oracle):
    """Value of *t* on the paths an oracle selects: oracle(cond) -> True / False /
    None for atomic conditions; not / and / or are decided from their parts."""
    def dec(c):
        d = oracle(c)
        if d is not None:
            return d
        if isinstance(c, tuple) and c:
            if c[0] == "not":
                d = dec(c[1])
                return None if d is None else (not d)
            if c[0] in ("and", "or"):
                parts = [dec(x) for x in c[1]]
                if c[0] == "and":
                    if any(p is False for p in parts):
                        return False
                    if all(p is True for p in parts):
                        return True
                else:
                    if any(p is True for p in parts):
                        return True
                    if all(p is False for p in parts):
                        return False
        return None

    if isinstance(t, tuple) and t and t[0] == "phi":
        d = dec(t[1])
        if d is True:
            return resolve(t[2], oracle)
        if d is False:
            return resolve(t[3], oracle)
        return phi(t[1], resolve(t[2], oracle), resolve(t[3], oracle))
    return t


def phi_leaves(t):
    """Leaves of a (nested) phi tree."""
    if isinstance(t, tuple) and t and t[0] == "phi":
        yield from phi_leaves(t[2])
        yield from phi_leaves(t[3])
    else:
        yield t


# ---------------------------------------------------------------- printing
def show(t, depth: int = 0) -> str:
    if depth > 40:
        return "..."
    if not isinstance(t, tuple) or not t:
        return repr(t)
    k = t[0]
    if k == "p":
        if not t[1]:
            return "0"
        parts = []
        for m, c in t[1]:
            fac = []
            for base, e in m:
                s = show(base, depth + 1)
                if is_poly(base):
                    s = f"({s})"
                fac.append(s if e == 1 else f"{s}^{e}")
            body = "*".join(fac)
            if not fac:
                parts.append(str(c))
            elif c == 1:
                parts.append(body)
            elif c == -1:
                parts.append("-" + body)
            else:
                parts.append(f"{c}*{body}")
        return " + ".join(parts).replace("+ -", "- ")
    if k == "a":
        return t[1]
    if k == "attr":
        return f"{show(t[1], depth + 1)}.{t[2]}"
    if k == "f":
        args = [show(a, depth + 1) for a in t[2]] + [f"{n}={show(v, depth + 1)}" for n, v in t[3]]
        return f"{t[1]}({', '.join(args)})"
    if k in ("t", "l"):
        o, c = ("(", ")") if k == "t" else ("[", "]")
        return o + ", ".join(show(a, depth + 1) for a in t[1]) + c
    if k == "d":
        return "{" + ", ".join(f"{show(a, depth + 1)}: {show(b, depth + 1)}" for a, b in t[1]) + "}"
    if k == "s":
        return f"{show(t[1], depth + 1)}[{show(t[2], depth + 1)}]"
    if k == "slice":
        return ":".join("" if x == NONE else show(x, depth + 1) for x in t[1:])
    if k == "k":
        return repr(t[1])
    if k == "phi":
        return f"phi({show(t[1], depth + 1)} ? {show(t[2], depth + 1)} : {show(t[3], depth + 1)})"
    if k == "cmp":
        if len(t) == 3:
            return f"({show(t[2], depth + 1)} {t[1]} 0)"
        return f"({show(t[2], depth + 1)} {t[1]} {show(t[3], depth + 1)})"
    if k == "not":
        return f"not {show(t[1], depth + 1)}"
    if k in ("and", "or"):
        return "(" + f" {k} ".join(show(a, depth + 1) for a in t[1]) + ")"
    if k == "is":
        return f"({show(t[1], depth + 1)} is {show(t[2], depth + 1)})"
    if k == "in":
        return f"({show(t[1], depth + 1)} in {show(t[2], depth + 1)})"
    if k == "obj":
        return f"<{t[2]}#{t[1]}>"
    if k == "ref":
        return f"&{t[1]}"
    if k == "u":
        return f"<{t[1]}:{t[2][:40]}>"
    if k == "opaque":
        return f"?{t[1]}"
    return str(t)
