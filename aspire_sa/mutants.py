"""Self-validation variants: in-memory edits of the *current* repository source.

A variant is (file, old snippet, new snippet).  The old snippet is matched on
whitespace-normalised text and must occur exactly ``count`` times; otherwise the
variant is *inapplicable* on this tree (counted, never an alarm).  Variants are
only ever used to test the checker -- no rule looks at source text.
"""

from __future__ import annotations

import ast
import os
import re
from dataclasses import dataclass, field


@dataclass
class Mutant:
    name: str
    path: str  # relative to the repository root
    old: str
    new: str
    expect: tuple = ()  # rule-name prefixes that must refute it (seeded only)
    count: int = 1
    within: str | None = None  # optional: restrict to the source of this def/class name
    more: tuple = ()  # further (old, new) edits applied to the same file


def M(name, path, old, new, expect=(), count=1, within=None, more=()) -> Mutant:
    if isinstance(expect, str):
        expect = (expect,)
    return Mutant(name, path, old, new, tuple(expect), count, within, tuple(more))


def _norm_ws(s: str) -> str:
    return re.sub(r"\s+", " ", s.strip())


def _find_span(source: str, within: str):
    """(start, end) character offsets of the def/class named *within*
    (``Class.method`` supported)."""
    tree = ast.parse(source)
    parts = within.split(".")
    body = tree.body
    node = None
    for p in parts:
        node = next((n for n in body if isinstance(n, (ast.FunctionDef, ast.ClassDef, ast.AsyncFunctionDef)) and n.name == p), None)
        if node is None:
            return None
        body = node.body
    lines = source.splitlines(keepends=True)
    start = sum(len(l) for l in lines[: node.lineno - 1])
    end = sum(len(l) for l in lines[: node.end_lineno])
    return start, end


def apply(root: str, m: Mutant) -> str | None:
    path = os.path.join(root, m.path)
    if not os.path.exists(path):
        return None
    with open(path, encoding="utf-8") as f:
        source = f.read()
    out = _apply_one(source, m.old, m.new, m.count, m.within)
    for old, new in m.more:
        if out is None:
            return None
        out = _apply_one(out, old, new, 1, m.within)
    return out


def _apply_one(source, old_s, new_s, count, within):
    class _E:
        pass

    m = _E()
    m.old, m.new, m.count, m.within = old_s, new_s, count, within
    lo, hi = 0, len(source)
    if m.within:
        span = _find_span(source, m.within)
        if span is None:
            return None
        lo, hi = span
    region = source[lo:hi]
    # whitespace-insensitive match: build a regex from the old snippet
    toks = [re.escape(t) for t in re.split(r"\s+", m.old.strip()) if t]
    pat = re.compile(r"\s+".join(toks))
    hits = list(pat.finditer(region))
    if len(hits) != m.count:
        return None
    out = region
    for h in reversed(hits):
        # keep the indentation of the first line
        out = out[: h.start()] + m.new + out[h.end():]
    new_source = source[:lo] + out + source[hi:]
    try:
        ast.parse(new_source)
    except SyntaxError:
        return None
    if new_source == source:
        return None
    return new_source
