"""C04 -- parameter transforms are bijections with exact log-Jacobians.

Decides the structural clauses: forward/inverse antisymmetry of every
log-Jacobian at the corresponding point (C04.anti), symbolic round trip where
the maps are rational (C04.rt), periodic wrap formula (C04.wrap), fit == forward
image (C04.fit), and for the composite transform: order of sub-transforms,
inverse == exact reverse, same masks/guards, every sub-Jacobian accumulated
with coefficient +1 (C04.order / C04.acc / C04.mask).
"""

from __future__ import annotations

import ast

import itertools

from .. import AnalysisError
from .. import terms as T
from ..evalr import Evaluator
from ..model import walk_no_nested
from ..mutants import M
from ..spec import spec
from .common import SELF, fold, loc_of, self_attr

TR = "aspire.transforms"

META = {
    "explanation": (
        "Value numbering of every transform class's forward/inverse/fit after folding its constructor "
        "(fitted state is symbolic): the inverse log-Jacobian evaluated at the forward image is the exact "
        "negative of the forward one; rational maps (affine, unit-interval, logit away from the clip) "
        "round-trip symbolically; the periodic wrap is lower + (v-lower) mod (upper-lower) with zero "
        "Jacobian; fit returns the forward image. For CompositeTransform every on/off combination of its "
        "guards is folded: forward applies masked (bounds based) stages before whole-array stages, inverse "
        "is the exact reverse with the same masks, fit follows the forward order, each stage reads the "
        "current array at its mask and writes back at the same mask, and the returned log-Jacobian is the "
        "sum of every stage's second result with coefficient +1. C04.deriv additionally differentiates every element-wise "
        "map symbolically (syntax-directed derivative of the folded map, log-absolute-value normal form) and shows that the "
        "reported log-Jacobian of forward and of inverse is exactly the sum over parameters of log|d out/d in|, i.e. the log "
        "absolute determinant of the (diagonal) true derivative."
    ),
    "not_decided": "numerical round trips, behaviour inside the clipping margin, the Jacobian of the third-party flow used as preconditioning map",
    "assumptions": [
        "real arithmetic, element-wise NumPy semantics, zeros()/ones() seen through broadcasting as 0/1",
        "exp(log t) = t, erf(erfinv t) = t, sqrt(t)^2 = t on the domains where the code is defined",
        "clip(u, eps, 1-eps) = u away from the documented clipping margin",
    ],
}


def leaf_classes(repo):
    base = repo.cls(f"{TR}:BaseTransform")
    out = []
    for c in repo.subclasses(base, strict=True):
        fwd, inv = c.resolve("forward"), c.resolve("inverse")
        if fwd is None or inv is None:
            continue
        if _is_stub(fwd) or _is_stub(inv):
            continue
        out.append(c)
    return out


def _is_stub(f):
    import ast

    body = [s for s in f.node.body if not (isinstance(s, ast.Expr) and isinstance(s.value, ast.Constant))]
    return len(body) == 1 and isinstance(body[0], ast.Raise)


def unclip(t):
    """Value away from the clipping margin: clip(u, a, b) -> u; the 'eps'
    guarded phi takes either branch to the same value."""
    mapping = {}
    for s in T.subterms(t):
        if s and s[0] == "f" and s[1] == "clip" and s[2]:
            mapping[s] = s[2][0]
    prev = None
    while mapping and prev != t:
        prev = t
        t = T.substitute(t, mapping)
        mapping = {s: s[2][0] for s in T.subterms(t) if s and s[0] == "f" and s[1] == "clip" and s[2]}
    return t


PIECEWISE = {"abs", "where", "maximum", "minimum", "sign"}
HELPERS = {"aspire.utils:logit", "aspire.utils:sigmoid"}
LOGIT_CALL, SIGMOID_CALL = "call:aspire.utils:logit", "call:aspire.utils:sigmoid"


def apply_contract(t):
    """Modular reasoning: utils.logit / utils.sigmoid are verified as a pair on
    their own (C04.anti / C04.rt / C04.deriv on aspire.utils:logit/sigmoid); at
    class level their calls stay opaque and the contract is applied:
    sigmoid(logit(u)[0]) == (u, -logit(u)[1]), away from the clip."""
    mapping = {}
    for s_ in T.subterms(t):
        if s_ and s_[0] == "f" and s_[1] == SIGMOID_CALL and s_[2]:
            arg = s_[2][0]
            if arg[0] == "s" and T.const_value(arg[2]) == 0 and arg[1][0] == "f" and arg[1][1] == LOGIT_CALL:
                lc = arg[1]
                mapping[("s", s_, T.const(0))] = lc[2][0]
                mapping[("s", s_, T.const(1))] = T.neg(("s", lc, T.const(1)))
    return T.substitute(t, mapping) if mapping else t


def sign_cases(terms):
    """Case split on the sign of the arguments of abs() and of where() tests
    (piecewise / overflow-safe formulations).  Yields (label, substituted terms);
    boundaries have measure zero and are ignored."""
    import itertools as _it
    from ..evalr import norm_app

    def canon(u):
        if T.is_poly(u) and u[1] and u[1][0][1] < 0:
            return T.neg(u), -1
        return u, 1

    atoms = []
    for t in terms:
        for s_ in T.subterms(t):
            if s_ and s_[0] == "f" and s_[1] == "abs" and len(s_[2]) == 1:
                a, _ = canon(s_[2][0])
                if a not in atoms:
                    atoms.append(a)
            if s_ and s_[0] == "f" and s_[1] == "where" and len(s_[2]) == 3 and s_[2][0][0] == "cmp" and len(s_[2][0]) == 3:
                a, _ = canon(s_[2][0][2])
                if a not in atoms:
                    atoms.append(a)
    if not atoms:
        yield "", list(terms)
        return
    if len(atoms) > 3:
        yield None, list(terms)
        return
    for signs in _it.product((1, -1), repeat=len(atoms)):
        sg = dict(zip(atoms, signs))
        out = []
        for t in terms:
            for _round in range(4):
                mapping = {}
                for s_ in T.subterms(t):
                    if s_ and s_[0] == "f" and s_[1] == "abs" and len(s_[2]) == 1:
                        a, k = canon(s_[2][0])
                        if a in sg:
                            mapping[s_] = s_[2][0] if sg[a] * k > 0 else T.neg(s_[2][0])
                    if s_ and s_[0] == "f" and s_[1] == "where" and len(s_[2]) == 3 and s_[2][0][0] == "cmp" and len(s_[2][0]) == 3:
                        a, k = canon(s_[2][0][2])
                        if a in sg and s_[2][0][1] in (">", ">="):
                            mapping[s_] = s_[2][1] if sg[a] * k > 0 else s_[2][2]
                if not mapping:
                    break
                t = T.substitute(t, mapping)
                # re-normalise exp/log applications that became simplifiable
                t = _renorm(t)
            out.append(t)
        yield ", ".join(f"{T.show(a)[:30]}{'>0' if v > 0 else '<0'}" for a, v in sg.items()), out


def _renorm(t):
    from ..evalr import norm_app

    def rec(x):
        if not isinstance(x, tuple) or not x:
            return x
        if x[0] == "p":
            total = T.ZERO
            for m, c in x[1]:
                term = T.const(c)
                for b, e in m:
                    rb = rec(b)
                    term = T.mul(term, T.powi(rb, e) if e > 0 else T.div(T.ONE, T.powi(rb, -e)))
                total = T.add(total, term)
            return total
        if x[0] == "f":
            args = [rec(a) for a in x[2]]
            kw = {k: rec(v) for k, v in x[3]}
            if x[1] in ("exp", "log", "sum", "mean", "erf", "erfinv", "square"):
                return norm_app(x[1], args, kw)
            return ("f", x[1], tuple(args), tuple(sorted(kw.items())))
        if x[0] == "phi":
            return T.phi(x[1], rec(x[2]), rec(x[3]))
        if x[0] == "s":
            return ("s", rec(x[1]), rec(x[2]))
        return x

    return rec(t)


def in_fragment(t) -> bool:
    """Is the residual built only from constructs the normal forms decide?"""
    for s_ in T.subterms(t):
        if s_ and s_[0] == "f" and s_[1] in PIECEWISE:
            return False
        if s_ and s_[0] in ("phi", "opaque"):
            return False
    return True


def jac_zero(tot, x):
    """'zero' / 'nonzero' / 'unknown' for a log-Jacobian residual, using the
    log-abs normal form and sign case splits for piecewise code."""
    from ..deriv import NotDifferentiable, normalise_jacobian

    verdicts = []
    for label, (tt,) in sign_cases([tot]):
        if label is None:
            return "unknown", "too many piecewise atoms"
        if tt == T.ZERO or T.rat_zero(tt):
            verdicts.append(("zero", label))
            continue
        try:
            nn = normalise_jacobian(tt, x)
        except NotDifferentiable:
            nn = tt
        if nn == T.ZERO or T.rat_zero(nn):
            verdicts.append(("zero", label))
        elif in_fragment(nn):
            return "nonzero", (f"[{label}] " if label else "") + T.show(nn)[:200]
        else:
            verdicts.append(("unknown", label))
    if all(v == "zero" for v, _ in verdicts):
        return "zero", ""
    return "unknown", "residual outside the decidable fragment"


def _is_one_bound(cnd) -> bool:
    """``len(bounds) == 1`` / ``bounds.shape[0] == 1``: the test that tells bounds given as one value for all columns from one bound per column."""
    if not (cnd and cnd[0] == "cmp" and cnd[1] == "=="):
        return False
    lens = [s_ for s_ in T.subterms(cnd[2]) if s_ and s_[0] == "f" and s_[1] == "len"]
    return len(lens) == 1 and cnd[2] in (T.sub(T.ONE, lens[0]), T.sub(lens[0], T.ONE))


def per_column(assume=None):
    """The algebraic rules are decided for one bound per column (len(bounds) == number of columns > 1); what happens when one value is
    broadcast over several columns is the business of the C04.deriv 'columns' clause."""
    def a(cnd):
        if _is_one_bound(cnd):
            return False
        return assume(cnd) if assume is not None else None
    return a


def pair_check(ctx, repo, c, fwd_name, inv_name, construct, prefold=("__init__",), fit_first=False):
    """Antisymmetry + round trip for one forward/inverse pair of class *c*."""
    fwd, inv = c.resolve(fwd_name), c.resolve(inv_name)
    bp = (fwd.params[1],)
    ev = Evaluator(repo, batch_params=bp, no_inline=HELPERS, assume=per_column())
    for name in prefold:
        m = c.resolve(name)
        if m is not None:
            fold(repo, m, c, ev=ev)
    if fit_first:
        fit = c.resolve("fit")
        fold(repo, fit, c, args={fit.params[1]: T.atom("x_fit")}, ev=ev)
    x = T.atom(fwd.params[1])
    _, rf = fold(repo, fwd, c, ev=ev)
    ctx.count("functions_folded", 2)
    rf = T.strip_raise(rf)
    if rf[0] != "t" or len(rf[1]) != 2:
        ctx.unknown("C04.anti", construct, loc_of(fwd), f"{fwd_name} does not return a (value, log-Jacobian) pair: {T.show(rf)[:120]}")
        return
    y, jf = rf[1]
    _, ri = fold(repo, inv, c, args={inv.params[1]: y}, ev=ev)
    ri = T.strip_raise(ri)
    if ri[0] != "t" or len(ri[1]) != 2:
        ctx.unknown("C04.anti", construct, loc_of(inv), f"{inv_name} does not return a (value, log-Jacobian) pair")
        return
    x2, ji = apply_contract(ri[1][0]), apply_contract(ri[1][1])
    tot = T.add(unclip(jf), unclip(ji))
    verdict, why = jac_zero(tot, x)
    if verdict == "unknown":
        ctx.unknown("C04.anti", construct, loc_of(inv), f"cannot decide whether the forward and inverse log-Jacobians cancel: {why}")
    else:
        ctx.decide(verdict == "zero", "C04.anti", construct, loc_of(inv),
                   f"log-Jacobian of {inv_name} at the {fwd_name} image == -(log-Jacobian of {fwd_name}): {T.show(jf)[:160]}",
                   f"forward log-Jacobian {T.show(jf)[:200]} and inverse log-Jacobian at the corresponding point {T.show(ji)[:200]} do not cancel (residual {why})")
    # round trip where decidable
    d = T.sub(unclip(x2), x)
    if d == T.ZERO or T.rat_zero(d):
        ctx.prove("C04.rt", construct, loc_of(inv), f"{inv_name}({fwd_name}(x)) == x symbolically (away from the clip)")
    elif _rational_in(d, x):
        ctx.refute("C04.rt", construct, loc_of(inv), f"{inv_name}({fwd_name}(x)) - x = {T.show(d)[:300]} is a non-zero rational function")
    else:
        ctx.count("roundtrip_not_rational")
    return ev, x, y, jf


def _rational_in(d, x) -> bool:
    """Rational in *x*: no application / phi / subscript that contains x
    (x-free applications are constants of the fitted state)."""
    for s in T.subterms(d):
        if s and s[0] in ("f", "phi", "s", "opaque") and any(u == x for u in T.subterms(s)):
            return False
    return True


# ------------------------------------------------------------------ composite
class Shape(Exception):
    pass


def mask_of(idx):
    """Index of the form (.../:, M) selecting columns by M -> M."""
    if idx[0] == "t" and len(idx[1]) >= 2:
        lead = idx[1][:-1]
        if all(i == ("k", Ellipsis) or (i[0] == "slice" and i[1:] == (T.NONE,) * 3) for i in lead):
            return idx[1][-1]
    raise Shape(f"index {T.show(idx)[:80]} is not a column-mask selection")


def decode_app(app):
    if app[0] == "f" and app[1].startswith("method:") and len(app[2]) == 2:
        recv, inp = app[2]
        if recv[0] == "attr" and recv[1] == SELF:
            return recv[2], app[1][7:], inp
    raise Shape(f"{T.show(app)[:120]} is not a call of a sub-transform method on an attribute of self")


def parse_steps(t, base, want_proj):
    """Decompose the array result into the sequence of stage applications."""
    steps = []
    cur = t
    guard = 0
    while cur != base:
        guard += 1
        if guard > 12:
            raise Shape("too many stages")
        if cur[0] == "f" and cur[1] == "update_at" and len(cur[2]) == 3:
            prev, idx, val = cur[2]
            mask = mask_of(idx)
            app = val
            if want_proj:
                if not (val[0] == "s" and T.const_value(val[2]) == 0):
                    raise Shape(f"stage result {T.show(val)[:80]} is not the first component of a stage call")
                app = val[1]
            recv, meth, inp = decode_app(app)
            if not (inp[0] == "s" and inp[1] == prev):
                raise Shape(f"stage {recv}.{meth} reads {T.show(inp)[:80]}, not the current array")
            steps.append(dict(recv=recv, method=meth, mask=mask, in_mask=mask_of(inp[2]), app=app))
            cur = prev
        else:
            app = cur
            if want_proj:
                if not (cur[0] == "s" and T.const_value(cur[2]) == 0):
                    raise Shape(f"{T.show(cur)[:100]} is not a stage result")
                app = cur[1]
            recv, meth, inp = decode_app(app)
            steps.append(dict(recv=recv, method=meth, mask=None, in_mask=None, app=app))
            cur = inp
    steps.reverse()
    return steps


def composite(ctx, repo, c):
    construct = c.ident
    methods = {n: c.resolve(n) for n in ("forward", "inverse", "fit")}
    # discover the guards
    seen = []

    def recorder(cond):
        if cond not in seen:
            seen.append(cond)
        return None

    for n, m in methods.items():
        fold(repo, m, c, assume=recorder)
    # compound tests (`not (a or b)`, a property combining flags) are decided from their parts: only the atomic conditions are flags
    flags = [c_ for c_ in seen if c_[0] not in ("not", "and", "or")]
    ctx.count("composite_guards", len(flags))
    if not (1 <= len(flags) <= 4):
        ctx.unknown("C04.order", construct, loc_of(methods["forward"]), f"found {len(flags)} guards: {[T.show(f) for f in flags]}")
        return
    combos = 0
    for values in itertools.product([False, True], repeat=len(flags)):
        assign = dict(zip(flags, values))
        label = ",".join(f"{T.show(k).replace('self.', '')}={'on' if v else 'off'}" for k, v in assign.items())
        res = {}
        try:
            for n, m in methods.items():
                _, r = fold(repo, m, c, assume=lambda cond: assign.get(cond))
                ctx.count("functions_folded")
                r = T.strip_raise(r)
                p = T.atom(m.params[1])
                if n == "fit":
                    res[n] = (parse_steps(r, p, False), None, m)
                else:
                    if r[0] != "t" or len(r[1]) != 2:
                        raise Shape(f"{n} does not return a pair")
                    res[n] = (parse_steps(r[1][0], p, True), r[1][1], m)
        except Shape as e:
            ctx.unknown("C04.order", construct, loc_of(methods["forward"]), f"[{label}] {e}", disc=label)
            continue
        combos += 1
        fsteps, fj, fm = res["forward"]
        isteps, ij, im = res["inverse"]
        tsteps, _, tm = res["fit"]
        forder = [s["recv"] for s in fsteps]
        iorder = [s["recv"] for s in isteps]
        torder = [s["recv"] for s in tsteps]
        bad = []
        if iorder != forder[::-1]:
            bad.append(f"inverse applies {iorder}, expected the reverse of forward {forder}")
        if torder != forder:
            bad.append(f"fit applies {torder}, forward applies {forder}")
        for name, steps in (("forward", fsteps), ("inverse", isteps), ("fit", tsteps)):
            wrong = [f"{s['recv']}.{s['method']}" for s in steps if s["method"] != name]
            if wrong:
                bad.append(f"{name} calls {wrong}")
        masked_after = [s["recv"] for i, s in enumerate(fsteps) if s["mask"] is not None and any(t["mask"] is None for t in fsteps[:i])]
        if masked_after:
            bad.append(f"forward applies bounds-based stage(s) {masked_after} after a whole-array (data-fitted) stage")
        ctx.decide(not bad, "C04.order", construct, loc_of(im), f"[{label}] forward {forder}, inverse reversed, fit == forward order",
                   f"[{label}] " + "; ".join(bad), disc=label)
        # masks
        mb = []
        fm_masks = {s["recv"]: s["mask"] for s in fsteps}
        for name, steps in (("forward", fsteps), ("inverse", isteps), ("fit", tsteps)):
            for s in steps:
                if s["mask"] != s["in_mask"]:
                    mb.append(f"{name}: {s['recv']} reads mask {T.show(s['in_mask'])} but writes mask {T.show(s['mask'])}")
                if s["recv"] in fm_masks and fm_masks[s["recv"]] != s["mask"]:
                    mb.append(f"{name}: {s['recv']} uses mask {T.show(s['mask']) if s['mask'] else None}, forward uses {T.show(fm_masks[s['recv']]) if fm_masks[s['recv']] else None}")
        ctx.decide(not mb, "C04.mask", construct, loc_of(fm), f"[{label}] each stage reads and writes the same columns in forward, inverse and fit",
                   f"[{label}] " + "; ".join(mb[:3]), disc=label)
        # accumulation
        for name, steps, j, m in (("forward", fsteps, fj, fm), ("inverse", isteps, ij, im)):
            want = T.ZERO
            for s in steps:
                want = T.add(want, ("s", s["app"], T.const(1)))
            if j == want:
                ctx.prove("C04.acc", construct, loc_of(m), f"[{label}] {name} log-Jacobian == sum of {len(steps)} stage Jacobians (coefficient +1 each)", disc=f"{label}|{name}")
            else:
                lf_got, lf_want = T.linear_form(j), T.linear_form(want)
                diffs = []
                for k in set(lf_got) | set(lf_want):
                    if lf_got.get(k, 0) != lf_want.get(k, 0):
                        diffs.append(f"{T.show(k)[:80] if k != () else 'const'}: coefficient {lf_got.get(k, 0)} (expected {lf_want.get(k, 0)})")
                ctx.refute("C04.acc", construct, loc_of(m), f"[{label}] {name} log-Jacobian: " + "; ".join(diffs[:3]), disc=f"{label}|{name}")
    ctx.floor("composite on/off combinations folded", combos, 2 ** len(flags))


def deriv_check(ctx, repo, c, construct_prefix):
    """C04.deriv: each direction's log-Jacobian == column sum of log|d out / d in|
    of the element-wise map, by symbolic differentiation of the folded map."""
    from ..deriv import NotDifferentiable, colsum, diff, logabs, normalise_jacobian

    for direction in ("forward", "inverse"):
        m = c.resolve(direction)
        ev = Evaluator(repo, batch_params=("x", "y", "x_fit"), no_inline=HELPERS,
                       assume=per_column(lambda cnd: False if cnd in (T.atom("eps"), self_attr("eps")) else None))
        init = c.resolve("__init__")
        if init is not None:
            fold(repo, init, c, ev=ev)
        fit = c.resolve("fit")
        if fit is not None and _stores_state(fit):
            fold(repo, fit, c, args={fit.params[1]: T.atom("x_fit")}, ev=ev)
        x = T.atom(m.params[1])
        _, ret = fold(repo, m, c, ev=ev)
        ctx.count("functions_folded")
        ret = T.strip_raise(ret)
        construct = f"{construct_prefix}.{direction}"
        if ret[0] != "t" or len(ret[1]) != 2:
            ctx.unknown("C04.deriv", construct, loc_of(m), "does not return a pair")
            continue
        y, j = unclip(ret[1][0]), unclip(ret[1][1])
        results = []
        try:
            for label, (yy, jj) in sign_cases([y, j]):
                if label is None:
                    raise NotDifferentiable("too many piecewise atoms")
                d = diff(yy, x)
                want = colsum(logabs(d), x)
                got = normalise_jacobian(jj, x)
                results.append((label, got == want, got, want, d))
        except NotDifferentiable as e:
            ctx.unknown("C04.deriv", construct, loc_of(m), f"map is not in the differentiable element-wise fragment ({e})")
            continue
        bad = [r for r in results if not r[1]]
        if bad and not all(in_fragment(r[2]) and in_fragment(r[3]) for r in bad):
            ctx.unknown("C04.deriv", construct, loc_of(m), "log-Jacobian or derivative outside the decidable fragment")
            continue
        label, _, got, want, d = (bad or results)[0]
        ctx.decide(not bad, "C04.deriv", construct, loc_of(m),
                   f"log-Jacobian == sum over parameters of log|d {direction}(v)/dv| = {T.show(want)[:140]}",
                   (f"[{label}] " if label else "") + f"reported log-Jacobian {T.show(got)[:220]} is not the log absolute derivative of the map, {T.show(want)[:220]} (d/dv = {T.show(d)[:120]})")


def run(ctx, shared=True):
    if shared:
        from ..report import reuse as _reuse_
        from . import c03 as _c03_
        _reuse_(ctx, _c03_.run, ("C03.map", "C03.route"), "C04flow", "flow-wrapper rules shared with C03: FlowPreconditioningTransform.forward reports the flow wrapper's forward log-Jacobian, which is "
                "rescale()'s data-transform term plus the flow's own; a term that is dropped or replaced on some rows (rows outside the prior box, say -- a periodic parameter is legitimately there "
                "before it is wrapped) makes the reported forward log-Jacobian differ from the log|det| of the map and from minus the inverse one")
    repo = ctx.repo
    # ---- a transform is a function of its argument: it never writes into the array it was given (the caller's x would no longer be the
    #      pre-image of the returned y, and inverse(forward(x)) is compared with an x that has changed)
    from ..report import reuse
    from . import c10
    reuse(ctx, lambda c: c10.own_rule(c, only_module="aspire.transforms"), ("C10.own",), "C04own",
          "ownership rule shared with C10: forward / inverse / fit must leave the caller's array untouched")
    # ---- a log-Jacobian accumulated with in-place updates is accumulated in the transform's precision: the accumulator is allocated with a
    #      dtype.  `xp.zeros(n)` is float32 under torch whatever the transform was built for, and `acc += term` keeps the accumulator's dtype there,
    #      so the float64 per-stage terms are rounded to 7 digits (NumPy / JAX would widen or rebind; torch narrows).
    n_acc = 0
    for f_ in repo.all_functions():
        if not f_.ident.startswith("aspire.transforms:"):
            continue
        allocs = {}
        for n_ in walk_no_nested(f_.node):
            if isinstance(n_, ast.Assign) and len(n_.targets) == 1 and isinstance(n_.targets[0], ast.Name) and isinstance(n_.value, ast.Call) \
                    and isinstance(n_.value.func, ast.Attribute) and n_.value.func.attr in ("zeros", "ones", "empty", "full"):
                allocs[n_.targets[0].id] = n_
        for n_ in walk_no_nested(f_.node):
            if isinstance(n_, ast.AugAssign) and isinstance(n_.target, ast.Name) and n_.target.id in allocs:
                a_ = allocs.pop(n_.target.id)
                n_acc += 1
                has_dtype = any(k.arg == "dtype" for k in a_.value.keywords)
                ctx.decide(has_dtype, "C04.alloc", f_.ident, loc_of(f_, a_), f"the accumulator `{n_.target.id}` is allocated with an explicit dtype",
                           f"`{n_.target.id} = {ast.unparse(a_.value)[:60]}` is allocated in the namespace's default width and then updated in place: under torch (default float32) a transform "
                           "built for float64 reports its log-Jacobian rounded to float32, so inverse and forward log-Jacobians agree to about 1e-7 only", disc=n_.target.id)
    ctx.floor("log-Jacobian accumulators updated in place", n_acc, 2)
    # an array a transform allocates with an explicit dtype takes the transform's dtype -- not the dtype of an array the user supplied (bounds written
    # as Python integers make lower / upper / upper - lower integer arrays under NumPy and JAX; a log-Jacobian constant filled into such an array is truncated)
    n_dt = 0
    for f_ in repo.all_functions():
        if not f_.ident.startswith("aspire.transforms:"):
            continue
        for n_ in walk_no_nested(f_.node):
            if isinstance(n_, ast.Call) and isinstance(n_.func, ast.Attribute) and n_.func.attr in ("zeros", "ones", "empty", "full", "zeros_like", "ones_like", "full_like"):
                dt_ = next((k.value for k in n_.keywords if k.arg == "dtype"), None)
                if dt_ is None:
                    continue
                n_dt += 1
                own_dtype = isinstance(dt_, ast.Attribute) and dt_.attr == "dtype" and isinstance(dt_.value, ast.Name) and f_.params and dt_.value.id == f_.params[0]
                borrowed = isinstance(dt_, ast.Attribute) and dt_.attr == "dtype" and not own_dtype
                ctx.decide(not borrowed, "C04.alloc", f_.ident, loc_of(f_, n_), "the allocation names the transform's own dtype",
                           f"`{ast.unparse(n_)[:70]}` takes its dtype from `{ast.unparse(getattr(dt_, 'value', dt_))[:30]}`, an array derived from what the caller supplied: integer-typed bounds (NumPy / JAX, "
                           "dtype=None) make it an integer dtype, and a log-Jacobian constant filled into it is truncated (log 20 + log 7 = 4.94 becomes 4)", disc=f"borrowed-dtype|{n_dt}")
    ctx.count("allocations_with_explicit_dtype", n_dt)
    # a constant log-Jacobian term is broadcast to the batch by multiplying with xp.ones(n): the ones name the transform's dtype.  Under torch a 0-d float64
    # value times a float32 ones(n) is float32 (0-d operands do not take part in type promotion), so the constant term of a float64 transform is rounded to 7 digits
    n_ones = 0
    for f_ in repo.all_functions():
        if not f_.ident.startswith("aspire.transforms:") or f_.cls is None:
            continue
        for n_ in walk_no_nested(f_.node):
            if isinstance(n_, ast.Call) and isinstance(n_.func, ast.Attribute) and n_.func.attr in ("ones", "full"):
                n_ones += 1
                has = any(k.arg == "dtype" for k in n_.keywords)
                ctx.decide(has, "C04.alloc", f_.ident, loc_of(f_, n_), "the broadcasting ones() name the transform's dtype",
                           f"`{ast.unparse(n_)[:60]}` takes the namespace's default width: under torch the product of the (0-d, float64) log-Jacobian constant with float32 ones is float32, "
                           "so a float64 transform reports this term rounded to single precision", disc=f"ones|{n_ones}")
    ctx.floor("broadcasting ones() in transforms", n_ones, 4)
    # ---- the flow used as a preconditioning map reports its log-Jacobian deterministically (no stochastic trace estimator), shared with C03
    from .c03 import exact_option_rule
    exact_option_rule(ctx, "C04.form")
    from . import cachecoh
    cachecoh.rule(ctx, "C04.stale", ("aspire.transforms",), "the reported log-Jacobian is that of an earlier fit, not of the map now applied")
    # ---- every constructor parameter of a transform takes effect: it is stored, read, or handed to super().__init__ (a parameter that is
    #      accepted and dropped leaves the map built with the default -- e.g. a clipping margin other than the one the composite reports)
    n_par = 0
    for tc in repo.modules["aspire.transforms"].classes.values():
        init_ = tc.methods.get("__init__")
        if init_ is None:
            continue
        a_ = init_.node.args
        if a_.kwarg is not None:
            continue
        used_ = {n.id for n in ast.walk(init_.node) if isinstance(n, ast.Name) and isinstance(n.ctx, ast.Load)}
        for prm in [x.arg for x in a_.args[1:] + a_.kwonlyargs]:
            n_par += 1
            if prm not in used_:
                ctx.refute("C04.wire", f"{tc.ident}.__init__", loc_of(init_),
                           f"{tc.name}.__init__ accepts `{prm}` and never reads it: the transform is built with the default instead of the value its caller (the composite, load()) passes", disc=f"param|{prm}")
    ctx.count("transform_constructor_parameters", n_par)
    ctx.prove("C04.wire", "aspire.transforms", "src/aspire/transforms.py", f"constructor parameters of the transform classes examined for use: {n_par}", disc="params")
    ctx.floor("transform constructor parameters examined", n_par, 25)
    classes = leaf_classes(repo)
    comp = repo.cls(f"{TR}:CompositeTransform")
    flowpre = repo.cls(f"{TR}:FlowPreconditioningTransform")
    leaves = [c for c in classes if comp not in c.mro() and c is not flowpre]
    ctx.floor("leaf transform classes with forward/inverse", len(leaves), 5)
    for c in leaves:
        needs_fit = "fit" in c.methods and c.resolve("fit") is not None and _stores_state(c.resolve("fit"))
        out = pair_check(ctx, repo, c, "forward", "inverse", c.ident, fit_first=needs_fit)
        deriv_check(ctx, repo, c, c.ident)
        if out is None:
            continue
        ev, x, y, jf = out
        # fit returns the forward image
        fit = c.resolve("fit")
        if fit is not None and not _is_stub(fit):
            ev2 = Evaluator(repo, batch_params=(fit.params[1],))
            init = c.resolve("__init__")
            if init is not None:
                fold(repo, init, c, ev=ev2)
            xf = T.atom(fit.params[1])
            _, rfit = fold(repo, fit, c, ev=ev2)
            fwd = c.resolve("forward")
            _, rfwd = fold(repo, fwd, c, args={fwd.params[1]: xf}, ev=ev2)
            ctx.count("functions_folded", 2)
            rfwd = T.strip_raise(rfwd)
            img = rfwd[1][0] if rfwd[0] == "t" else None
            ctx.decide(img is not None and T.strip_raise(rfit) == img, "C04.fit", c.ident, loc_of(fit),
                       "fit(x) == forward(x)[0] with the state fit leaves behind",
                       f"fit returns {T.show(T.strip_raise(rfit))[:200]} but forward(x)[0] is {T.show(img)[:200] if img else None}")
        # periodic wrap formula
        if c.name == "PeriodicTransform" or (jf == T.ZERO and any(s and s[0] == "f" and s[1] == "mod" for s in T.subterms(y))):
            lo, up = T.atom("lower"), T.atom("upper")
            want = spec("lo + mod(v - lo, up - lo)", lo=lo, up=up, v=x)
            inv = c.resolve("inverse")
            _, ri = fold(repo, inv, c, ev=ev)
            yi = T.strip_raise(ri)[1][0]
            wanti = spec("lo + mod(v - lo, up - lo)", lo=lo, up=up, v=T.atom(inv.params[1]))
            ctx.decide(y == want and jf == T.ZERO, "C04.wrap", c.ident, loc_of(c.resolve("forward")),
                       "forward == lower + (x - lower) mod (upper - lower), log-Jacobian 0",
                       f"forward is {T.show(y)[:200]} with log-Jacobian {T.show(jf)[:80]}", disc="forward")
            ctx.decide(yi == wanti, "C04.wrap", c.ident, loc_of(inv),
                       "inverse == lower + (y - lower) mod (upper - lower)",
                       f"inverse is {T.show(yi)[:200]}", disc="inverse")

    # helper pairs
    b = repo.cls(f"{TR}:BoundedTransform")
    out = pair_check(ctx, repo, b, "to_unit_interval", "from_unit_interval", f"{b.ident}.to_unit_interval/from_unit_interval")
    if out is not None:
        _, xb, yb, _ = out
        at_lo = T.substitute(yb, {xb: T.atom("lower")})
        at_up = T.substitute(yb, {xb: T.atom("upper")})
        ok = T.rat_zero(at_lo) and T.rat_zero(T.sub(at_up, T.ONE))
        ctx.decide(ok, "C04.unit", b.ident, loc_of(b.resolve("to_unit_interval")),
                   "to_unit_interval maps lower -> 0 and upper -> 1",
                   f"to_unit_interval(lower) = {T.show(at_lo)[:120]}, to_unit_interval(upper) = {T.show(at_up)[:120]} (expected 0 and 1)")
    # one value given for several columns (scalar bounds are broadcast by the arithmetic): the scaling enters the Jacobian once per column
    for hname, sign in (("to_unit_interval", "forward"), ("from_unit_interval", "inverse")):
        hm = b.resolve(hname)
        js = {}
        for scalar in (True, False):
            def a_(cnd, scalar=scalar):
                if _is_one_bound(cnd):
                    return scalar
                if scalar and cnd and cnd[0] == "cmp" and any(s_ and s_[0] == "attr" and s_[2] == "ndim" for s_ in T.subterms(cnd)):
                    return True
                return None
            ev_ = Evaluator(repo, batch_params=(hm.params[1],), no_inline=HELPERS, assume=a_)
            fold(repo, b.resolve("__init__"), b, ev=ev_)
            _, r_ = fold(repo, hm, b, ev=ev_)
            r_ = T.strip_raise(r_)
            js[scalar] = r_[1][1] if r_[0] == "t" and len(r_[1]) == 2 else None
        ctx.count("functions_folded", 2)
        if js[True] is None or js[False] is None:
            ctx.unknown("C04.deriv", f"{b.ident}.{hname}", loc_of(hm), "does not return a (value, log-Jacobian) pair", disc="columns")
            continue
        ks = [s_ for s_ in T.subterms(js[True]) if s_ and s_[0] == "s" and s_[1] and s_[1][0] == "attr" and s_[1][2] == "shape"]
        ok = any(js[True] == T.mul(js[False], k_) for k_ in ks)
        if not ok:
            # the other sound shape: the per-parameter terms are summed at call time over an operand that has the input's shape
            # (log(width) * ones(x.shape), broadcast_to(log(width), x.shape)), so a single width is counted once per column
            tainted = {hm.params[1]}
            for _ in range(3):
                for n_ in walk_no_nested(hm.node):
                    if isinstance(n_, ast.Assign) and any(isinstance(x_, ast.Name) and x_.id in tainted for x_ in ast.walk(n_.value)):
                        tainted |= {t_.id for t_ in n_.targets if isinstance(t_, ast.Name)}
            for n_ in walk_no_nested(hm.node):
                if isinstance(n_, ast.Call) and isinstance(n_.func, ast.Attribute) and n_.func.attr == "sum":
                    operands = list(n_.args) + ([n_.func.value] if not (isinstance(n_.func.value, ast.Attribute) and n_.func.value.attr == "xp") else [])
                    if any(isinstance(x_, ast.Attribute) and x_.attr == "shape" and isinstance(x_.value, ast.Name) and x_.value.id in tainted for o_ in operands for x_ in ast.walk(o_)):
                        ok = True
        ctx.decide(ok, "C04.deriv", f"{b.ident}.{hname}", loc_of(hm),
                   "with one value given for several columns the scaling term is counted once per column (the per-column term times the number of columns)",
                   f"with bounds given as one value (a scalar: xp.atleast_1d lets it through and the arithmetic broadcasts it over all columns) the log-Jacobian of the scaling is "
                   f"{T.show(js[True])[:120]}, the same single term as for one column: for d columns the true log|det| is d times that, so {sign} reports a log-Jacobian that is off by "
                   "(d - 1) log(upper - lower)", disc="columns")
    # utils.logit / sigmoid
    lg, sg = repo.func("aspire.utils:logit"), repo.func("aspire.utils:sigmoid")
    ev = Evaluator(repo, batch_params=(lg.params[0],), assume=lambda c: False if c == T.atom("eps") else None)
    x = T.atom(lg.params[0])
    rl = T.strip_raise(ev.run(lg, None))
    y, jf = rl[1]
    rs = T.strip_raise(ev.run(sg, None, args={sg.params[0]: y}))
    x2, ji = rs[1]
    tot = T.add(jf, ji)
    ctx.count("functions_folded", 2)
    verdict, why = jac_zero(tot, x)
    if verdict == "unknown":
        ctx.unknown("C04.anti", "aspire.utils:logit/sigmoid", loc_of(sg), f"cannot decide whether the logit and sigmoid log-Jacobians cancel: {why}")
    else:
        ctx.decide(verdict == "zero", "C04.anti", "aspire.utils:logit/sigmoid", loc_of(sg),
                   "sigmoid log-Jacobian at logit(x) == -(logit log-Jacobian)",
                   f"logit log-Jacobian {T.show(jf)[:200]} and sigmoid log-Jacobian at the image {T.show(ji)[:160]} do not cancel (residual {why})")
    rts = []
    for label, (xx,) in sign_cases([x2]):
        d = T.sub(xx, x) if label is not None else None
        rts.append("zero" if d is not None and (d == T.ZERO or T.rat_zero(d)) else ("nonzero" if d is not None and in_fragment(d) else "unknown"))
    if "nonzero" in rts:
        ctx.refute("C04.rt", "aspire.utils:logit/sigmoid", loc_of(sg), f"sigmoid(logit(x)) != x on some branch: {T.show(x2)[:200]}")
    elif all(r == "zero" for r in rts):
        ctx.prove("C04.rt", "aspire.utils:logit/sigmoid", loc_of(sg), "sigmoid(logit(x)) == x symbolically")
    else:
        ctx.unknown("C04.rt", "aspire.utils:logit/sigmoid", loc_of(sg), "cannot decide sigmoid(logit(x)) == x")
    # helper-level derivative check (the class level relies on this contract)
    from ..deriv import NotDifferentiable, colsum, diff, logabs, normalise_jacobian
    for fn_, par in ((lg, lg.params[0]), (sg, sg.params[0])):
        evd = Evaluator(repo, batch_params=(par,), assume=lambda c: False if c == T.atom("eps") else None)
        rr = T.strip_raise(evd.run(fn_, None))
        xv = T.atom(par)
        if rr[0] != "t" or len(rr[1]) != 2:
            ctx.unknown("C04.deriv", fn_.ident, loc_of(fn_), "does not return a pair")
            continue
        res = []
        try:
            for label, (yy, jj) in sign_cases([rr[1][0], rr[1][1]]):
                if label is None:
                    raise NotDifferentiable("too many piecewise atoms")
                dd = diff(yy, xv)
                res.append((label, normalise_jacobian(jj, xv), colsum(logabs(dd), xv), dd))
        except NotDifferentiable as e:
            ctx.unknown("C04.deriv", fn_.ident, loc_of(fn_), f"not in the differentiable element-wise fragment ({e})")
            continue
        badd = [r_ for r_ in res if r_[1] != r_[2]]
        if badd and not all(in_fragment(r_[1]) and in_fragment(r_[2]) for r_ in badd):
            ctx.unknown("C04.deriv", fn_.ident, loc_of(fn_), "log-Jacobian or derivative outside the decidable fragment")
            continue
        lab, got_, want_, dd = (badd or res)[0]
        ctx.decide(not badd, "C04.deriv", fn_.ident, loc_of(fn_), f"{fn_.name}: log-Jacobian == sum over the last axis of log|d {fn_.name}(v)/dv|",
                   (f"[{lab}] " if lab else "") + f"{fn_.name} reports log-Jacobian {T.show(got_)[:200]} but log|derivative| is {T.show(want_)[:200]}")
    want_logit = spec("log(x) - log(1 - x)", x=x)
    ctx.decide(y == want_logit, "C04.form", lg.ident, loc_of(lg), "logit(x) == log(x) - log(1-x)",
               f"logit returns {T.show(y)[:200]}")
    want_j = spec("sum(-log(x) - log(1 - x), axis=-1)", x=x)
    ctx.decide(jf == want_j, "C04.form", lg.ident, loc_of(lg), "logit log-Jacobian == sum(-log x - log(1-x)) over the last axis",
               f"logit log-Jacobian is {T.show(jf)[:200]}", disc="jac")

    # ---- clipping margin: the unit value is clamped to [eps, 1 - eps] (logit when eps is set; probit always)
    eps_t = T.atom("eps")
    evc = Evaluator(repo, batch_params=(lg.params[0],), assume=lambda c: True if c == eps_t else None)
    rc = T.strip_raise(evc.run(lg, None))
    yc = rc[1][0] if rc[0] == "t" else None
    xc = spec("clip(x, eps, 1 - eps)", x=x, eps=eps_t)
    ctx.decide(yc == spec("log(c) - log(1 - c)", c=xc), "C04.clip", lg.ident, loc_of(lg), "with eps set, logit is evaluated at clip(x, eps, 1 - eps)",
               f"with eps set, logit returns {T.show(yc)[:200] if yc else None}: the clamp is not to [eps, 1 - eps]")
    for cn in ("ProbitTransform", "LogitTransform"):
        c = repo.cls(f"{TR}:{cn}")
        evp = Evaluator(repo, batch_params=("x",), assume=lambda cnd: True if cnd in (eps_t, self_attr("eps")) else None)
        fold(repo, c.resolve("__init__"), c, ev=evp)
        fw = c.resolve("forward")
        _, rfw = fold(repo, fw, c, ev=evp)
        clips = [s_ for s_ in T.subterms(T.strip_raise(rfw)) if s_ and s_[0] == "f" and s_[1] == "clip"]
        unit = spec("(x - lo) / (up - lo)", x=T.atom(fw.params[1]), lo=T.atom("lower"), up=T.atom("upper"))
        e_ = evp.heap.get((SELF, "eps"), self_attr("eps"))
        okc = len(set(clips)) == 1 and clips[0][2] == (unit, e_, T.sub(T.ONE, e_))
        ctx.decide(okc, "C04.clip", f"{c.ident}.forward", loc_of(fw), "the unit-interval value is clamped to [eps, 1 - eps] before the unbounded map",
                   f"the clamp applied before the unbounded map is {[T.show(c_)[:120] for c_ in set(clips)]} (expected clip(u, eps, 1 - eps))")
    # ---- affine whitening statistics are per parameter (axis 0 of the fitting data)
    AF = repo.cls(f"{TR}:AffineTransform")
    eva = Evaluator(repo, batch_params=("x",))
    fold(repo, AF.resolve("__init__"), AF, ev=eva)
    fitm = AF.resolve("fit")
    fold(repo, fitm, AF, ev=eva)
    xf = T.atom(fitm.params[1])
    mean_, std_, lj_ = (eva.heap.get((SELF, k)) for k in ("_mean", "_std", "log_abs_det_jacobian"))
    oka = mean_ == spec("mean(x, axis=0)", x=xf) and std_ == spec("std(x, axis=0)", x=xf)
    ctx.decide(oka, "C04.affine", fitm.ident, loc_of(fitm), "fit stores the per-parameter mean and standard deviation of the fitting data (axis 0)",
               f"fit stores mean={T.show(mean_)[:80] if mean_ else None}, std={T.show(std_)[:80] if std_ else None} (expected mean/std over axis 0)")
    okj = std_ is not None and lj_ == spec("-sum(log(abs(s)))", s=std_)
    ctx.decide(okj, "C04.affine", fitm.ident, loc_of(fitm), "fit stores log|det| = -sum(log|std|)", f"fit stores log_abs_det_jacobian = {T.show(lj_)[:120] if lj_ else None}", disc="logdet")
    lsm = AF.resolve("_load_state")
    evl = Evaluator(repo)
    fold(repo, lsm, AF, ev=evl)
    sl, jl = evl.heap.get((SELF, "_std")), evl.heap.get((SELF, "log_abs_det_jacobian"))
    ctx.decide(sl is not None and jl == spec("-sum(log(abs(s)))", s=sl), "C04.affine", lsm.ident, loc_of(lsm), "a reloaded affine transform recomputes log|det| = -sum(log|std|) from the stored std",
               f"_load_state sets log_abs_det_jacobian = {T.show(jl)[:120] if jl else None}", disc="reload")

    # composite transform (and subclasses that inherit it unchanged are covered by MRO)
    composite(ctx, repo, comp)
    wiring(ctx, repo, comp)
    for sub in repo.subclasses(comp, strict=True):
        over = [n for n in ("forward", "inverse", "fit") if sub.resolve(n) is not comp.resolve(n)]
        if over:
            composite(ctx, repo, sub)
        else:
            ctx.prove("C04.order", sub.ident, f"{sub.module.relpath}:{sub.node.lineno}",
                      "inherits forward/inverse/fit of CompositeTransform unchanged", trivial=True)


def wiring(ctx, repo, comp):
    """C04.wire: CompositeTransform.__init__ builds each bounds-based stage from
    the bounds of exactly the columns its mask selects."""
    init = comp.resolve("__init__")
    construct = init.ident
    results = {}
    for choice in ("probit", "logit"):
        def assume(cnd, choice=choice):
            if cnd[0] in ("and", "or", "not"):
                return None
            sh = T.show(cnd)
            if cnd == ("is", T.atom("prior_bounds"), T.NONE):
                return False
            if "is_torch" in sh or "isinstance" in sh:
                return None
            if cnd[0] == "cmp" and cnd[1] in ("==", "!=") and len(cnd) == 4:
                lits = [t_[1] for t_ in cnd[2:] if t_[0] == "k" and isinstance(t_[1], str)]
                if lits:
                    return (lits[0] == choice) if cnd[1] == "==" else (lits[0] != choice)
                return None
            if cnd[0] == "cmp":
                return None
            return True
        ev = Evaluator(repo, max_depth=1, assume=assume)
        ret = ev.run(init, comp)
        ctx.count("functions_folded")
        if T.strip_raise(ret) == T.RAISE:
            ctx.refute("C04.wire", construct, loc_of(init), f"with bounded_transform='{choice}' and all stages enabled the constructor raises instead of building the {choice} stage",
                       disc=f"bounded_stage_{choice}")
            return
        results[choice] = ev
    ev = results["probit"]
    params = T.atom("parameters")
    el = ("f", "elem", (params,), ())
    PB = ev.heap.get((SELF, "prior_bounds"))
    PP = ev.heap.get((SELF, "periodic_parameters"))
    PM = ev.heap.get((SELF, "periodic_mask"))
    BM = ev.heap.get((SELF, "bounded_mask"))
    BP = ev.heap.get((SELF, "bounded_parameters"))
    if None in (PB, PP, PM, BM, BP):
        ctx.unknown("C04.wire", construct, loc_of(init), "constructor does not set prior_bounds / masks / bounded_parameters")
        return
    over = ("t", (params, ("t", ())))
    want_pm = ("f", "listcomp", (("in", el, PP), over), ())
    ctx.decide(PM == want_pm, "C04.wire", construct, loc_of(init), "periodic_mask marks exactly the parameters listed as periodic, in parameter order",
               f"periodic_mask is {T.show(PM)[:200]}", disc="periodic_mask")
    want_bm = ("f", "listcomp", (("in", el, BP), over), ())
    ctx.decide(BM == want_bm, "C04.wire", construct, loc_of(init), "bounded_mask marks exactly the bounded parameters, in parameter order",
               f"bounded_mask is {T.show(BM)[:200]}", disc="bounded_mask")
    # bounded parameters: finite bounds and not periodic
    conds = []
    if BP[0] == "f" and BP[1] == "listcomp" and BP[2][0] == el:
        gen = BP[2][1]
        conds = list(gen[1][1][1]) if gen[0] == "t" and gen[1][1][0] == "t" else []
        conds = [c for cc in conds for c in (cc[1] if cc[0] == "and" else (cc,))]
    fin = ("f", "all", (("f", "isfinite", (("s", PB, el),), ()),), ())
    notper = ("not", ("in", el, PP))
    ctx.decide(fin in conds and notper in conds and len(conds) == 2, "C04.wire", construct, loc_of(init),
               "bounded parameters == those with finite bounds that are not periodic",
               f"bounded parameters are selected by {[T.show(c)[:80] for c in conds]} (expected: finite bounds, and not periodic)", disc="bounded_parameters")
    low = ("f", "listcomp", (("s", ("s", PB, el), T.const(0)), over), ())
    up = ("f", "listcomp", (("s", ("s", PB, el), T.const(1)), over), ())
    for choice, evx in results.items():
        for e in evx.events:
            if not e.callee.startswith("new:") or e.depth != 0:
                continue
            cname = e.callee.rsplit(":", 1)[-1]
            kw = dict(e.kwargs)
            if cname == "PeriodicTransform" and choice == "probit":
                ok = kw.get("lower") == ("s", low, PM) and kw.get("upper") == ("s", up, PM)
                ctx.decide(ok, "C04.wire", construct, loc_of(init, e.node), "the periodic stage gets (lower, upper) of the columns selected by periodic_mask",
                           f"the periodic stage is built with lower={T.show(kw.get('lower'))[:120]}, upper={T.show(kw.get('upper'))[:120]}: not the bounds of the columns its mask selects", disc="periodic_stage")
            if cname in ("ProbitTransform", "LogitTransform"):
                ok = kw.get("lower") == ("s", low, BM) and kw.get("upper") == ("s", up, BM) and kw.get("eps") in (T.atom("eps"), self_attr("eps"))
                ctx.decide(ok and cname.lower().startswith(choice), "C04.wire", construct, loc_of(init, e.node),
                           f"bounded_transform='{choice}' builds {cname} with (lower, upper) of the columns selected by bounded_mask and the instance's eps",
                           f"bounded_transform='{choice}' builds {cname}(lower={T.show(kw.get('lower'))[:100]}, upper={T.show(kw.get('upper'))[:100]}, eps={T.show(kw.get('eps')) if kw.get('eps') else None})",
                           disc=f"bounded_stage_{choice}")
    # update_at_indices (frozen 'update_at' meaning)
    from ..evalr import TRANSPARENT_REPO_FUNCS
    uf = repo.func("aspire.utils:update_at_indices")
    evu = Evaluator(repo, max_depth=0)
    ru = T.strip_raise(evu.run(uf, None))
    x, slc, y = (T.atom(p) for p in uf.params[:3])
    ok = ru == ("f", "setitem", (x, slc, y), ()) or any(s_ and s_[0] == "f" and s_[1] == "method:set" for s_ in T.subterms(ru))
    ctx.decide(ok, "C04.wire", uf.ident, loc_of(uf), "update_at_indices(x, idx, y) writes y at idx of x and returns it",
               f"update_at_indices returns {T.show(ru)[:160]}", disc="update_at")


def _stores_state(f):
    from .common import method_stores

    return bool(method_stores(f))


_T = "src/aspire/transforms.py"
_U = "src/aspire/utils.py"
MUTANTS = [
    M("logit transform accepts eps and drops it (the base class keeps its default)", _T, "super().__init__(xp=xp, dtype=dtype, lower=lower, upper=upper)\n        self.eps = eps\n\n    def fit(self, x: Array) -> Array:\n        return self.forward(x)[0]\n\n    def forward(self, x: Array) -> tuple[Array, Array]:\n        y, log_j_unit = self.to_unit_interval(x)",
      "super().__init__(xp=xp, dtype=dtype, lower=lower, upper=upper)\n        self.eps = 1e-6\n\n    def fit(self, x: Array) -> Array:\n        return self.forward(x)[0]\n\n    def forward(self, x: Array) -> tuple[Array, Array]:\n        y, log_j_unit = self.to_unit_interval(x)", "C04.wire"),
    M("fast path for 'volume preserving' composites skips the periodic wrap in forward", _T, "log_abs_det_jacobian = self.xp.zeros(\n            len(x), device=self.device, dtype=self.dtype\n        )\n        if self.periodic_parameters:\n            y, log_j_periodic = self._periodic_transform.forward(",
      "log_abs_det_jacobian = self.xp.zeros(\n            len(x), device=self.device, dtype=self.dtype\n        )\n        if not (self.bounded_parameters or self.affine_transform):\n            return x, log_abs_det_jacobian\n        if self.periodic_parameters:\n            y, log_j_periodic = self._periodic_transform.forward(", "C04.order"),
    M("affine inverse Jacobian sign", _T, "return x, -self.log_abs_det_jacobian * self.xp.ones(", "return x, self.log_abs_det_jacobian * self.xp.ones(", "C04.anti"),
    M("affine inverse forgets mean", _T, "x = y * self._std + self._mean", "x = y * self._std", "C04.rt"),
    M("unit interval inverse Jacobian sign", _T, "log_j = -self._scale_log_abs_det_jacobian * self.xp.ones(", "log_j = self._scale_log_abs_det_jacobian * self.xp.ones(", "C04.anti"),
    M("from_unit_interval wrong offset", _T, "x = self._denom * y + self.lower", "x = self._denom * y + self.upper", "C04.rt"),
    M("sigmoid Jacobian sign", _U, "log_j = (xp.log(x) + xp.log1p(-x)).sum(-1)", "log_j = (xp.log(x) - xp.log1p(-x)).sum(-1)", "C04.anti"),
    M("logit Jacobian drops a term", _U, "log_j = (-xp.log(x) - xp.log1p(-x)).sum(-1)", "log_j = (-xp.log(x)).sum(-1)", ("C04.anti", "C04.form")),
    M("probit inverse Jacobian sign", _T, "log_abs_det_jacobian = -(0.5 * (math.log(2 * math.pi) + y**2)).sum(-1)", "log_abs_det_jacobian = (0.5 * (math.log(2 * math.pi) + y**2)).sum(-1)", "C04.anti"),
    M("probit forward drops unit Jacobian", _T, "log_abs_det_jacobian = log_abs_det_jacobian + log_j_unit\n        return y, log_abs_det_jacobian\n\n    def inverse(self, y: Array) -> tuple[Array, Array]:\n        from scipy.special import erf",
      "return y, log_abs_det_jacobian\n\n    def inverse(self, y: Array) -> tuple[Array, Array]:\n        from scipy.special import erf", "C04.anti"),
    M("logit forward drops unit Jacobian", _T, "y, log_abs_det_jacobian = logit(y, eps=self.eps)\n        log_abs_det_jacobian = log_abs_det_jacobian + log_j_unit",
      "y, log_abs_det_jacobian = logit(y, eps=self.eps)", "C04.anti"),
    M("periodic wrap by upper", _T, "y = self.lower + (x - self.lower) % self._width", "y = self.lower + (x - self.lower) % self.upper", "C04.wrap"),
    M("periodic inverse not wrapped", _T, "x = self.lower + (y - self.lower) % self._width", "x = y", "C04.wrap"),
    M("periodic width wrong", _T, "self._width = self.upper - self.lower", "self._width = self.upper + self.lower", "C04.wrap"),
    M("composite forward drops bounded Jacobian", _T, "log_abs_det_jacobian += log_j_bounded", "pass", "C04.acc", within="CompositeTransform.forward"),
    M("composite inverse subtracts affine Jacobian", _T, "log_abs_det_jacobian += log_j_affine", "log_abs_det_jacobian -= log_j_affine", "C04.acc", within="CompositeTransform.inverse"),
    M("composite inverse order not reversed", _T,
      "if self.affine_transform:\n            x, log_j_affine = self._affine_transform.inverse(x)\n            log_abs_det_jacobian += log_j_affine\n",
      "", "C04.order", within="CompositeTransform.inverse"),
    M("composite inverse uses forward of periodic", _T, "self._periodic_transform.inverse(", "self._periodic_transform.forward(", "C04.order"),
    M("composite inverse wrong mask", _T, "y, log_j_bounded = self._bounded_transform.inverse(\n                x[..., self.bounded_mask]", "y, log_j_bounded = self._bounded_transform.inverse(\n                x[..., self.periodic_mask]", ("C04.mask", "C04.order")),
    M("composite fit skips periodic", _T, "x = update_at_indices( x, (slice(None), self.periodic_mask), self._periodic_transform.fit(x[:, self.periodic_mask]), )", "pass", ("C04.order",), within="CompositeTransform.fit"),
    M("affine fit returns raw data", _T, "return self.forward(x)[0]", "return x", "C04.fit", within="AffineTransform.fit"),
    M("bounded scale Jacobian over wrong quantity", _T, "self._denom = self.upper - self.lower", "self._denom = self.upper", "C04.unit"),
]
MUTANTS += [
    M("unit-interval scale Jacobian sign flipped on both sides", _T, "self._scale_log_abs_det_jacobian = -xp.log(self._denom).sum()", "self._scale_log_abs_det_jacobian = xp.log(self._denom).sum()", "C04.deriv"),
    M("affine Jacobian sign flipped in fit and load", _T, "self.log_abs_det_jacobian = -self.xp.log(self.xp.abs(self._std)).sum()\n        return self.forward(x)[0]", "self.log_abs_det_jacobian = self.xp.log(self.xp.abs(self._std)).sum()\n        return self.forward(x)[0]", "C04.deriv"),
    M("probit Jacobian constant wrong on both sides", _T, "log_abs_det_jacobian = 0.5 * (math.log(2 * math.pi) + y**2).sum(-1)", "log_abs_det_jacobian = 0.5 * (math.log(math.pi) + y**2).sum(-1)", ("C04.deriv", "C04.anti"),
      more=[("log_abs_det_jacobian = -(0.5 * (math.log(2 * math.pi) + y**2)).sum(-1)", "log_abs_det_jacobian = -(0.5 * (math.log(math.pi) + y**2)).sum(-1)")]),
    M("probit map scaled but Jacobian not", _T, "y = erfinv(2 * y - 1) * math.sqrt(2)", "y = erfinv(2 * y - 1) * 2", ("C04.deriv",)),
    M("affine scales by the variance", _T, "y = (x - self._mean) / self._std", "y = (x - self._mean) / self._std**2", ("C04.deriv", "C04.rt")),
    M("jacobian summed over the batch axis", _T, "log_abs_det_jacobian = 0.5 * (math.log(2 * math.pi) + y**2).sum(-1)", "log_abs_det_jacobian = 0.5 * (math.log(2 * math.pi) + y**2).sum(0)", ("C04.deriv", "C04.anti")),
]
MUTANTS += [
    M("periodic stage gets the bounded columns", _T, "lower=lower_bounds[self.periodic_mask],\n                upper=upper_bounds[self.periodic_mask],", "lower=lower_bounds[self.periodic_mask],\n                upper=upper_bounds[self.bounded_mask],", "C04.wire"),
    M("lower and upper bounds swapped", _T, "[self.prior_bounds[p][0] for p in parameters]", "[self.prior_bounds[p][1] for p in parameters]", "C04.wire"),
    M("periodic parameters also treated as bounded", _T, "if self.xp.isfinite(self.prior_bounds[p]).all()\n                    and p not in self.periodic_parameters", "if self.xp.isfinite(self.prior_bounds[p]).all()", "C04.wire"),
    M("bounded stage ignores eps", _T, "xp=self.xp,\n                eps=self.eps,\n                dtype=self.dtype,\n            )\n\n        if self.affine_transform:", "xp=self.xp,\n                dtype=self.dtype,\n            )\n\n        if self.affine_transform:", "C04.wire"),
    M("probit and logit classes swapped", _T, "if self.bounded_transform == \"probit\":\n                BoundedClass = ProbitTransform", "if self.bounded_transform == \"logit\":\n                BoundedClass = ProbitTransform", "C04.wire",
      more=[("elif self.bounded_transform == \"logit\":\n                BoundedClass = LogitTransform", "elif self.bounded_transform == \"probit\":\n                BoundedClass = LogitTransform")]),
    M("mask in a different parameter order", _T, "[p in self.periodic_parameters for p in parameters],", "[p in self.periodic_parameters for p in sorted(parameters)],", "C04.wire"),
]
MUTANTS += [
    M("logit clamp upper end wrong", _U, "x = xp.clip(x, eps, 1 - eps)", "x = xp.clip(x, eps, 1 + eps)", "C04.clip"),
    M("probit value not clamped", _T, "y = self.xp.clip(y, self.eps, 1.0 - self.eps)\n", "", "C04.clip"),
    M("affine statistics over the wrong axis", _T, "self._mean = x.mean(0)\n        self._std = x.std(0)", "self._mean = x.mean(1)\n        self._std = x.std(1)", "C04.affine"),
    M("reloaded affine log-det sign", _T, "self._std = asarray(h5_file[\"std\"][()], xp=self.xp)\n        self.log_abs_det_jacobian = -self.xp.log(self.xp.abs(self._std)).sum()", "self._std = asarray(h5_file[\"std\"][()], xp=self.xp)\n        self.log_abs_det_jacobian = self.xp.log(self.xp.abs(self._std)).sum()", "C04.affine"),
    M("bounded class chosen by inequality", _T, "if self.bounded_transform == \"probit\":\n                BoundedClass = ProbitTransform", "if self.bounded_transform != \"probit\":\n                BoundedClass = ProbitTransform", "C04.wire"),
]
MUTANTS += [
    M("overflow-safe sigmoid with a wrong Jacobian", _U, "x = xp.divide(1, 1 + xp.exp(-x))\n    log_j = (xp.log(x) + xp.log1p(-x)).sum(-1)\n    return x, log_j",
      "abs_x = xp.abs(x)\n    exp_neg = xp.exp(-abs_x)\n    y = xp.where(x >= 0, 1 / (1 + exp_neg), exp_neg / (1 + exp_neg))\n    log_j = -(abs_x + xp.log1p(exp_neg)).sum(-1)\n    return y, log_j", ("C04.anti", "C04.deriv")),
]
MUTANTS += [
    M("composite inverse coerces its input instead of copying it", "src/aspire/transforms.py", "def inverse(self, x):\n        x = copy_array(x, xp=self.xp)\n        x = self.xp.atleast_2d(x)",
      "def inverse(self, x):\n        x = self.xp.asarray(x)\n        x = self.xp.atleast_2d(x)", "C04own.own"),
]
MUTANTS += [
    M("log-Jacobian accumulator allocated in the namespace's default width", "src/aspire/transforms.py", "log_abs_det_jacobian = self.xp.zeros(\n            len(x), device=self.device, dtype=self.dtype\n        )\n        if self.periodic_parameters:",
      "log_abs_det_jacobian = self.xp.zeros(len(x), device=self.device)\n        if self.periodic_parameters:", "C04.alloc"),
]
MUTANTS += [
    M("flow matching defaults to the Hutchinson trace estimate", "src/aspire/flows/torch/flows.py", "kwargs.setdefault(\"hidden_features\", 4 * [100])", "kwargs.setdefault(\"hidden_features\", 4 * [100])\n        kwargs.setdefault(\"exact\", False)", "C04.form"),
]
MUTANTS += [
    M("constant log-Jacobian filled into an array of the bounds' dtype", "src/aspire/transforms.py", "log_j = self._scale_log_abs_det_jacobian * self.xp.ones(\n            y.shape[0], device=get_device(y), dtype=self.dtype\n        )",
      "log_j = self.xp.full((y.shape[0],), self._scale_log_abs_det_jacobian, dtype=self._denom.dtype, device=get_device(y))", "C04.alloc"),
]
MUTANTS += [
    M("affine log-Jacobian broadcast with ones() of the default width", "src/aspire/transforms.py", "return y, self.log_abs_det_jacobian * self.xp.ones(\n            y.shape[0], device=get_device(y), dtype=self.dtype\n        )",
      "return y, self.log_abs_det_jacobian * self.xp.ones(\n            y.shape[0], device=get_device(y)\n        )", "C04.alloc"),
]
MUTANTS += [
    M("scalar bounds: column factor dropped from the forward scaling term", _T, "return y, log_j * self._columns_per_bound(y)", "return y, log_j", "C04.deriv"),
    M("scalar bounds: column factor is always one", _T, "if self._denom.shape[0] == 1 and x.ndim > 1:\n            return x.shape[-1]\n        return 1", "return 1", "C04.deriv"),
]

MUTANTS += [
    M("flow wrapper's rescale routed to the inverse data transform", "src/aspire/flows/base.py", "return self.data_transform.forward(x)", "return self.data_transform.inverse(x)", "C04flow"),
]

NEUTRALS = [
    M("scaling term summed at call time over an operand of the input's shape", _T, "log_j = self._scale_log_abs_det_jacobian * self.xp.ones(\n            y.shape[0], device=get_device(y), dtype=self.dtype\n        )\n        return y, log_j * self._columns_per_bound(y)",
      "log_j = -self.xp.sum(\n            self.xp.log(self._denom) * self.xp.ones(y.shape, device=get_device(y), dtype=self.dtype), axis=-1\n        )\n        return y, log_j",
      more=[("log_j = -self._scale_log_abs_det_jacobian * self.xp.ones(\n            x.shape[0], device=get_device(x), dtype=self.dtype\n        )\n        return x, log_j * self._columns_per_bound(x)",
             "log_j = self.xp.sum(\n            self.xp.log(self._denom) * self.xp.ones(x.shape, device=get_device(x), dtype=self.dtype), axis=-1\n        )\n        return x, log_j")]),
    M("constant log-Jacobian filled into an array of the transform's dtype", "src/aspire/transforms.py", "log_j = self._scale_log_abs_det_jacobian * self.xp.ones(\n            y.shape[0], device=get_device(y), dtype=self.dtype\n        )",
      "log_j = self.xp.full((y.shape[0],), self._scale_log_abs_det_jacobian, dtype=self.dtype, device=get_device(y))"),
    M("log-Jacobian built without in-place updates", "src/aspire/transforms.py", "x, log_j_affine = self._affine_transform.forward(x)\n            log_abs_det_jacobian += log_j_affine",
      "x, log_j_affine = self._affine_transform.forward(x)\n            log_abs_det_jacobian = log_abs_det_jacobian + log_j_affine"),
    M("overflow-safe sigmoid with the right Jacobian", _U, "x = xp.divide(1, 1 + xp.exp(-x))\n    log_j = (xp.log(x) + xp.log1p(-x)).sum(-1)\n    return x, log_j",
      "abs_x = xp.abs(x)\n    exp_neg = xp.exp(-abs_x)\n    y = xp.where(x >= 0, 1 / (1 + exp_neg), exp_neg / (1 + exp_neg))\n    log_j = -(abs_x + 2 * xp.log1p(exp_neg)).sum(-1)\n    return y, log_j"),
    M("affine forward via temporaries", _T, "y = (x - self._mean) / self._std", "centred = x - self._mean\n        y = centred / self._std"),
    M("affine inverse operand order", _T, "x = y * self._std + self._mean", "x = self._mean + self._std * y"),
    M("logit Jacobian regrouped", _U, "log_j = (-xp.log(x) - xp.log1p(-x)).sum(-1)", "log_j = -(xp.log(x) + xp.log1p(-x)).sum(-1)"),
    M("probit Jacobian regrouped", _T, "log_abs_det_jacobian = -(0.5 * (math.log(2 * math.pi) + y**2)).sum(-1)", "log_abs_det_jacobian = -0.5 * (y**2 + math.log(2 * math.pi)).sum(-1)"),
    M("composite accumulates with explicit sum", _T, "log_abs_det_jacobian += log_j_bounded", "log_abs_det_jacobian = log_j_bounded + log_abs_det_jacobian", count=2),
    M("periodic forward via width expression", _T, "y = self.lower + (x - self.lower) % self._width", "y = (x - self.lower) % (self.upper - self.lower) + self.lower"),
]

# functions the property is anchored in (auto-mutant sweep of the thorough tier)
ANCHORS = [
    'aspire.utils:logit',
    'aspire.utils:sigmoid',
    'aspire.transforms:BoundedTransform.__init__',
    'aspire.transforms:BoundedTransform.to_unit_interval',
    'aspire.transforms:BoundedTransform.from_unit_interval',
    'aspire.transforms:ProbitTransform.forward',
    'aspire.transforms:ProbitTransform.inverse',
    'aspire.transforms:LogitTransform.forward',
    'aspire.transforms:LogitTransform.inverse',
    'aspire.transforms:PeriodicTransform.__init__',
    'aspire.transforms:PeriodicTransform.forward',
    'aspire.transforms:PeriodicTransform.inverse',
    'aspire.transforms:AffineTransform.fit',
    'aspire.transforms:AffineTransform.forward',
    'aspire.transforms:AffineTransform.inverse',
    'aspire.transforms:CompositeTransform.__init__',
    'aspire.transforms:CompositeTransform.fit',
    'aspire.transforms:CompositeTransform.forward',
    'aspire.transforms:CompositeTransform.inverse',
    'aspire.transforms:IdentityTransform.forward',
    'aspire.transforms:IdentityTransform.inverse',
]
