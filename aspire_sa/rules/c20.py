"""C20 -- runs are reproducible given the same explicit random sources.

Decides random-source *provenance*: where generators come from, that a
supplied one is the one used, that kernels receive it, that JAX keys are split
and not reused, and that caller-owned option dictionaries are not consumed.
"""

from __future__ import annotations

import ast

from .. import AnalysisError
from .. import terms as T
from ..cfg import CFG, calls_in
from ..evalr import Evaluator
from ..model import dotted, walk_no_nested
from ..mutants import M
from .common import SELF, fold, loc_of, self_attr

META = {
    "explanation": (
        "Every construction of an unseeded / global random source in the package (default_rng(), ArrayRNG(...), np.random.* and "
        "random.* draws) is only the None-fallback of a random-source parameter of the enclosing function; a generator held by "
        "a sampler since construction is not discarded by a later method; every random-source parameter (rng, rng_key, key, "
        "seed) is effectual (reaches a call, a store or a return beyond its own fallback); each third-party kernel construction "
        "receives the sampler's random source (frozen API table: minipcn rng=, emcee rstate0/random_state, blackjax explicit "
        "keys); JAX keys are obtained by splitting the held key, which is advanced by that split, and a sub-key is consumed at "
        "most once per path; sibling constructors agree on accepting rng; option dictionaries owned by the caller are copied "
        "before destructive use; sample_posterior routes constructor and sampling arguments by the constructor signature."
    ),
    "not_decided": "bit-identical outputs; global torch RNG is accepted as seeded state (torch.manual_seed(seed) in the flow constructor)",
    "assumptions": ["third-party kernels draw only from the random source they are handed"],
}

RANDOM_PARAMS = {"rng", "rng_key", "key", "seed", "random_state"}
FRESH_CTORS = {"default_rng", "ArrayRNG", "RandomState", "Generator"}
# the torch flow wrappers seed torch's global generator from their seed argument (C20.seed): accepted there only
NS_DRAWS = {"rand", "randn", "randint", "rand_like", "randn_like", "randperm", "normal", "bernoulli", "multinomial"}
GLOBAL_DRAWS = {"normal", "uniform", "rand", "randn", "random", "choice", "randint", "shuffle", "permutation", "standard_normal", "seed"}


def parent_map(root):
    return {ch: p for p in ast.walk(root) for ch in ast.iter_child_nodes(p)}


def fresh_run_rule(ctx):
    """C20.fresh: a run that is not resumed starts from a history object created in this call, whatever the sampler object was used for before.  A history
    kept from an earlier sample() call makes the second of two identically seeded runs on one sampler report the two runs' series concatenated and the sum
    of both evidences."""
    from .smcloop import fold_sample
    repo = ctx.repo
    sf = fold_sample(repo, resumed=False, final=False)
    hv = dict(sf.loop["body_heap"]).get((SELF, "history")) if sf.loop else sf.ev.heap.get((SELF, "history"))
    if hv is None:
        hv = sf.ev.heap.get((SELF, "history"))
    ok = hv is not None and hv[0] == "obj"
    ctx.decide(ok, "C20.fresh", sf.sample.ident, loc_of(sf.sample, sf.loop_node), "a non-resumed run enters the loop with a history object created in this call",
               f"a non-resumed run enters the loop with history = {T.show(hv)[:140] if hv else None}: what an earlier sample() call on the same sampler recorded is kept, so an identically seeded "
               "second run reports other series and another evidence than the first", disc="history")


def run(ctx):
    repo = ctx.repo
    fresh_run_rule(ctx)
    n_fresh = 0
    # ------------------------------------------------------------ fresh sources
    for f in repo.all_functions(include_nested=False):
        parents = None
        for n in walk_no_nested(f.node):
            if not isinstance(n, ast.Call):
                continue
            d = dotted(n.func) or ""
            last = d.rsplit(".", 1)[-1]
            is_fresh = last in FRESH_CTORS and not (last == "default_rng" and n.args)  # default_rng(seed) is seeded
            is_global = (d.startswith("np.random.") or d.startswith("numpy.random.") or d.startswith("random.")) and last in GLOBAL_DRAWS
            # draws from a namespace's process-global generator: xp.rand(...), torch.randn(...), ...
            ns_draw = last in NS_DRAWS and isinstance(n.func, ast.Attribute) and (
                (isinstance(n.func.value, ast.Name) and n.func.value.id in ("xp", "torch", "torch_api")) or (isinstance(n.func.value, ast.Attribute) and n.func.value.attr == "xp"))
            if ns_draw and not f.module.name.startswith("aspire.flows.torch"):
                is_global = True
            if not (is_fresh or is_global):
                continue
            n_fresh += 1
            construct = f.ident
            if is_global:
                ctx.refute("C20.fresh", construct, loc_of(f, n), f"{d}(...) draws from the process-global random state: the run cannot be reproduced from the supplied sources", disc=d)
                continue
            parents = parents or parent_map(f.node)
            p = parents.get(n)
            ok, why = False, ""
            params = set(f.params)
            if isinstance(p, ast.BoolOp) and isinstance(p.op, ast.Or) and p.values[-1] is n:
                heads = p.values[:-1]
                names = [h.id for h in heads if isinstance(h, ast.Name)] + [f"self.{h.attr}" for h in heads if isinstance(h, ast.Attribute) and isinstance(h.value, ast.Name) and h.value.id == f.params[0]]
                ok = any(x in params for x in names)
                why = f"fallback of {names}"
            elif isinstance(p, ast.IfExp) and isinstance(p.test, ast.Compare) and isinstance(p.test.left, ast.Name) and p.test.left.id in params \
                    and isinstance(p.test.comparators[0], ast.Constant) and p.test.comparators[0].value is None \
                    and ((isinstance(p.test.ops[0], ast.IsNot) and p.orelse is n and isinstance(p.body, ast.Name) and p.body.id == p.test.left.id)
                         or (isinstance(p.test.ops[0], ast.Is) and p.body is n and isinstance(p.orelse, ast.Name) and p.orelse.id == p.test.left.id)):
                ok, why = True, f"fallback of {p.test.left.id}"
            else:
                cur = n
                while cur in parents:
                    cur = parents[cur]
                    if isinstance(cur, ast.If) and isinstance(cur.test, ast.Compare) and isinstance(cur.test.left, ast.Name) and cur.test.left.id in params \
                            and isinstance(cur.test.ops[0], ast.Is) and isinstance(cur.test.comparators[0], ast.Constant) and cur.test.comparators[0].value is None:
                        asg = [s for s in cur.body if isinstance(s, ast.Assign) and n in ast.walk(s)]
                        if asg and isinstance(asg[0].targets[0], ast.Name) and asg[0].targets[0].id == cur.test.left.id:
                            ok, why = True, f"fallback of {cur.test.left.id}"
                        break
            ctx.decide(ok, "C20.fresh", construct, loc_of(f, n), f"{last}() is only the None-{why}",
                       f"{last}() creates an unseeded random source that is not the None-fallback of a parameter of {f.name}: the draw cannot be controlled by the caller", disc=last)
    ctx.floor("fresh random-source constructions", n_fresh, 7)

    # ------------------------------------------------------------ held generator is not discarded
    base = repo.cls("aspire.samplers.base:Sampler")
    for c in repo.subclasses(base):
        for m in c.methods.values():
            if m.name == "__init__":
                continue
            me = m.params[0]
            for n in walk_no_nested(m.node):
                if isinstance(n, ast.Assign) and isinstance(n.targets[0], ast.Attribute) and isinstance(n.targets[0].value, ast.Name) and n.targets[0].value.id == me \
                        and n.targets[0].attr in RANDOM_PARAMS:
                    attr = n.targets[0].attr
                    # does the constructor (by MRO) initialise this attribute from a parameter?
                    held = False
                    for k in c.mro():
                        ini = k.methods.get("__init__")
                        if ini is None:
                            continue
                        for s in walk_no_nested(ini.node):
                            if isinstance(s, ast.Assign) and isinstance(s.targets[0], ast.Attribute) and s.targets[0].attr == attr and any(
                                    isinstance(x, ast.Name) and x.id in ini.params and x.id in RANDOM_PARAMS for x in ast.walk(s.value)):
                                held = True
                    if not held:
                        continue
                    keeps = any(isinstance(x, ast.Attribute) and x.attr == attr and isinstance(x.value, ast.Name) and x.value.id == me for x in ast.walk(n.value))
                    ctx.decide(keeps, "C20.held", m.ident, loc_of(m, n),
                               f"self.{attr} keeps the generator held since construction when no new one is given",
                               f"{m.name}() overwrites self.{attr}, which the constructor initialised from its {attr} argument, with a value that never falls back to the held one: "
                               f"a generator given at construction (sample_posterior routes {attr}= to the constructor) is silently replaced by a fresh unseeded source", disc=attr)

    # a class whose constructor (by MRO) accepts a random source receives it there -- sample_posterior routes every keyword the
    # constructor accepts to the constructor and removes it from the sampling call -- so a method of that class must not fall
    # back to a fresh source for a parameter of the same name without consulting the held one
    n_fb = 0
    for c in [base] + list(repo.subclasses(base)):
        ctor_params = set()
        for k in c.mro():
            ini = k.methods.get("__init__")
            if ini is not None:
                ctor_params = set(ini.params) & RANDOM_PARAMS
                break
        for mname in {m_ for k in c.mro() for m_ in k.methods}:
            m = c.resolve(mname)
            if m is None or m.name == "__init__" or not m.params:
                continue
            me = m.params[0]
            for pn in set(m.params) & ctor_params:
                for n in walk_no_nested(m.node):
                    if not (isinstance(n, ast.Assign) and isinstance(n.targets[0], ast.Name) and n.targets[0].id == pn):
                        continue
                    fresh = [x for x in ast.walk(n.value) if isinstance(x, ast.Call) and (dotted(x.func) or "").rsplit(".", 1)[-1] in FRESH_CTORS
                             and not ((dotted(x.func) or "").endswith("default_rng") and x.args)]
                    if not fresh:
                        continue
                    n_fb += 1
                    keeps = any(isinstance(x, ast.Attribute) and x.attr == pn and isinstance(x.value, ast.Name) and x.value.id == me for x in ast.walk(n.value))
                    ctx.decide(keeps, "C20.held", f"{c.ident}.{m.name}", loc_of(m, n),
                               f"the fallback of `{pn}` consults the source held since construction",
                               f"{c.name}.__init__ accepts `{pn}` (so sample_posterior(..., {pn}=g) hands g to the constructor and calls {m.name}() without it), but "
                               f"{m.name}() replaces a missing `{pn}` by a fresh unseeded source and never looks at the held one: the caller's generator never reaches the kernel",
                               disc=f"fallback|{pn}")
    ctx.count("fresh_fallbacks_in_classes_holding_a_source", n_fb)

    # ------------------------------------------------------------ the random stream is consumed the same way whatever the diagnostics setting
    # a draw (from the flow, a generator, a key split) under a test of the logging state makes every later draw of the run depend on the log level
    DRAWS = {"sample", "sample_and_log_prob", "rsample", "choice", "uniform", "normal", "standard_normal", "random", "split", "integers", "permutation",
             "shuffle", "rand", "randn", "multinomial", "draw_initial_samples", "resample"}
    DIAG = {"isEnabledFor", "getEffectiveLevel"}
    n_diag = 0
    for f in repo.all_functions():
        par = None
        for n in walk_no_nested(f.node):
            if not isinstance(n, ast.If):
                continue
            t = n.test
            is_diag = any((isinstance(x, ast.Attribute) and (x.attr in DIAG or (x.attr == "level" and "log" in ast.unparse(x.value).lower()))) or (isinstance(x, ast.Name) and x.id in ("__debug__", "verbose", "debug"))
                          for x in ast.walk(t))
            if not is_diag:
                continue
            n_diag += 1
            polar = [n.body, n.orelse]
            draws = [c for blk in polar for st_ in blk for c in ast.walk(st_) if isinstance(c, ast.Call) and isinstance(c.func, ast.Attribute) and c.func.attr in DRAWS
                     and not (isinstance(c.func.value, ast.Name) and c.func.value.id in ("logger", "logging", "str", "os"))]
            ctx.decide(not draws, "C20.fresh", f.ident, loc_of(f, draws[0] if draws else n),
                       "no random draw depends on the diagnostics setting",
                       (f"`{ast.unparse(draws[0])[:60]}` is executed only when `{ast.unparse(t)[:50]}` holds: it consumes the seeded stream (torch's global generator / the flow's key / the "
                        "generator), so every later draw of the run -- and the result -- changes with the log level although seed, key and generator are the same") if draws else "",
                       disc=f"diag|{n_diag}")
    ctx.count("diagnostic_guards_scanned", n_diag)

    # ------------------------------------------------------------ nothing random is derived from Python's salted hash()
    # hash() of str / bytes (and of tuples containing them) changes from one interpreter process to the next (PYTHONHASHSEED): a seed, a key or an order
    # derived from it makes identically seeded runs in two processes differ
    n_hash, salted = 0, []
    for f in repo.all_functions():
        if f.name == "__hash__":
            continue
        for n in walk_no_nested(f.node):
            if isinstance(n, ast.Call) and isinstance(n.func, ast.Name) and n.func.id == "hash":
                n_hash += 1
                only_numbers = n.args and all(isinstance(x, ast.Constant) and isinstance(x.value, (int, float)) for x in ast.walk(n.args[0]) if isinstance(x, ast.Constant)) \
                    and not any(isinstance(x, (ast.Name, ast.Attribute, ast.JoinedStr)) for x in ast.walk(n.args[0]))
                if not only_numbers:
                    salted.append((f, n))
    ctx.count("builtin_hash_calls", n_hash)
    ctx.decide(not salted, "C20.seed", "package", loc_of(salted[0][0], salted[0][1]) if salted else "src/aspire",
               "no value is derived from the process-salted builtin hash()",
               (f"{salted[0][0].ident} calls hash({ast.unparse(salted[0][1].args[0])[:50] if salted[0][1].args else ''}): for strings (and tuples holding them) the result depends on the interpreter's "
                "per-process hash salt, so whatever is derived from it -- a seed for a refitted flow, a key, an iteration order -- differs between two runs that were given the same seed, key and generator") if salted else "",
               disc="salted-hash")

    # ------------------------------------------------------------ random-source parameters are effectual
    n_params = 0
    for f in repo.all_functions(include_nested=False):
        if f.cls is None and not f.module.name.startswith("aspire.flows"):
            pass
        for p in f.params:
            if p not in RANDOM_PARAMS:
                continue
            if f.name in ("get_flow",) or _is_stub(f):
                pass
            n_params += 1
            uses = 0
            for n in walk_no_nested(f.node):
                if isinstance(n, ast.Name) and n.id == p and isinstance(n.ctx, ast.Load):
                    # a load inside the parameter's own redefinition / None test does not count
                    st = _enclosing_stmt(f.node, n)
                    own = isinstance(st, ast.Assign) and all(isinstance(t, ast.Name) and t.id == p for t in st.targets)
                    test_only = isinstance(st, ast.If) and n in ast.walk(st.test) and _is_none_test(st.test, p)
                    if not own and not test_only:
                        uses += 1
            ctx.decide(uses > 0, "C20.used", f.ident, loc_of(f), f"parameter {p} reaches a call, store or return",
                       f"parameter {p} of {f.name} is accepted but never used (apart from its own default): a random source supplied by the caller has no effect", disc=p)
    ctx.floor("random-source parameters", n_params, 10)

    # ------------------------------------------------------------ kernels receive the sampler's source
    n_k = 0
    for f in repo.all_functions(include_nested=False):
        imports = repo.function_imports(f)
        for n in walk_no_nested(f.node):
            if not isinstance(n, ast.Call):
                continue
            d = dotted(n.func) or ""
            head = d.split(".")[0]
            origin = imports.get(head, (None, None))
            mod = (origin[0] or "")
            kw = {k.arg: k.value for k in n.keywords}
            if (mod == "minipcn" and d == "Sampler") or d == "minipcn.Sampler":
                n_k += 1
                v = kw.get("rng")
                ok = v is not None and ((isinstance(v, ast.Attribute) and v.attr == "rng") or (isinstance(v, ast.Name) and v.id == "rng"))
                if v is not None and not ok:
                    # resolve aliases on values
                    evk = Evaluator(repo, max_depth=0, assume=lambda cnd: None)
                    try:
                        evk.run(f, f.cls)
                        for e in evk.events:
                            if e.node is n:
                                val = dict(e.kwargs).get("rng")
                                ok = val is not None and any(l in (self_attr("rng"), T.atom("rng")) for l in (list(T.phi_leaves(val)) + (list(val[1]) if val[0] == "or" else [])))
                    except Exception:
                        pass
                ctx.decide(ok, "C20.kernel", f.ident, loc_of(f, n), "the minipcn kernel is constructed with the sampler's generator (rng=)",
                           "the minipcn kernel is constructed without the sampler's generator", disc="minipcn")
            if (mod == "emcee" and d == "EnsembleSampler") or d == "emcee.EnsembleSampler":
                n_k += 1
                seeded = False
                for m2 in walk_no_nested(f.node):
                    if isinstance(m2, ast.Call) and isinstance(m2.func, ast.Attribute) and m2.func.attr == "run_mcmc":
                        if any(k.arg in ("rstate0", "random_state") for k in m2.keywords):
                            seeded = True
                    if isinstance(m2, ast.Attribute) and m2.attr in ("random_state", "_random") and isinstance(m2.ctx, ast.Store):
                        seeded = True
                ctx.decide(seeded, "C20.kernel", f.ident, loc_of(f, n), "the emcee ensemble sampler is given the sampler's random state",
                           "the emcee ensemble sampler is constructed and run without any random source (no random_state / rstate0): its proposals come from NumPy's global "
                           "state, so two runs with the same generators differ", disc="emcee")
    ctx.floor("third-party kernel constructions", n_k, 4)

    # ------------------------------------------------------------ JAX key discipline
    n_j = 0
    for f in repo.all_functions(include_nested=True):
        src_names = set()
        splits = []
        for n in walk_no_nested(f.node):
            if isinstance(n, ast.Call) and (dotted(n.func) or "").endswith("random.split") or (isinstance(n, ast.Call) and (dotted(n.func) or "") in ("jrandom.split",)):
                splits.append(n)
        direct = [n for n in walk_no_nested(f.node) if isinstance(n, ast.Call) and not (dotted(n.func) or "").endswith(("split", "key_data"))
                  and any(isinstance(a, ast.Attribute) and a.attr == "key" and isinstance(a.value, ast.Name) and f.params and a.value.id == f.params[0]
                          for a in list(n.args) + [k.value for k in n.keywords])]
        if not splits and not direct:
            continue
        n_j += 1
        parents = parent_map(f.node)
        g = CFG(f.node)
        bad = []
        for sp in splits:
            st = parents.get(sp)
            if not isinstance(st, ast.Assign):
                continue
            tgt = st.targets[0]
            arg0 = sp.args[0] if sp.args else None
            if isinstance(tgt, ast.Tuple) and len(tgt.elts) == 2:
                carry, sub = tgt.elts
                # the carried key must be the one that was split (advanced)
                if ast.unparse(carry) != ast.unparse(arg0):
                    bad.append(f"line {sp.lineno}: split({ast.unparse(arg0)}) does not advance the key it splits (result stored in {ast.unparse(carry)})")
                if isinstance(sub, ast.Name):
                    # consumed at most once on every path
                    def weight(node, name=sub.id, split_stmt=st):
                        if node.ast is split_stmt:
                            return 0
                        w = 0
                        for c in calls_in(node.ast):
                            for a in list(c.args) + [k.value for k in c.keywords]:
                                if isinstance(a, ast.Name) and a.id == name:
                                    w += 1
                        return w
                    mx = _max_uses(g, weight)
                    if mx is None or mx > 1:
                        bad.append(f"sub-key {sub.id} (line {sp.lineno}) is consumed more than once on a path: two draws share one key")
        # a held key consumed directly (not through a split)
        for n in walk_no_nested(f.node):
            if isinstance(n, ast.Call) and not ((dotted(n.func) or "").endswith("split")) and not ((dotted(n.func) or "").endswith("key_data")):
                for a in list(n.args) + [k.value for k in n.keywords]:
                    if isinstance(a, ast.Attribute) and a.attr == "key" and isinstance(a.value, ast.Name) and a.value.id == (f.params[0] if f.params else ""):
                        bad.append(f"line {n.lineno}: the held key self.key is consumed directly by {dotted(n.func)} instead of a fresh sub-key")
        ctx.decide(not bad, "C20.key", f.ident, loc_of(f), f"{len(splits)} split(s): the held key is advanced and each sub-key is consumed at most once per path",
                   "; ".join(bad[:3]))
    ctx.floor("functions splitting JAX keys", n_j, 5)

    # ------------------------------------------------------------ sibling constructors
    smc = repo.cls("aspire.samplers.smc.base:SMCSampler")
    for c in repo.subclasses(smc, strict=True):
        ini = c.methods.get("__init__")
        if ini is None:
            continue
        parent_ini = None
        for k in c.mro()[1:]:
            if "__init__" in k.methods:
                parent_ini = k.methods["__init__"]
                break
        if parent_ini is None:
            continue
        for p in parent_ini.params:
            if p in RANDOM_PARAMS:
                accepts = p in ini.params
                forwards = False
                for n in walk_no_nested(ini.node):
                    if isinstance(n, ast.Call) and isinstance(n.func, ast.Attribute) and n.func.attr == "__init__":
                        forwards = forwards or any(k.arg == p and isinstance(k.value, ast.Name) and k.value.id == p for k in n.keywords)
                    if isinstance(n, ast.Assign) and isinstance(n.targets[0], ast.Attribute) and n.targets[0].attr == p and any(isinstance(x, ast.Name) and x.id == p for x in ast.walk(n.value)):
                        forwards = True
                ctx.decide(accepts and forwards, "C20.sib", ini.ident, loc_of(ini), f"accepts {p} like {parent_ini.ident} and hands it on",
                           f"{parent_ini.ident} takes {p} but {ini.ident} " + ("does not accept it" if not accepts else "accepts it without handing it on") +
                           f": the generator cannot be supplied for this sampler (sample_posterior(..., {p}=g) raises TypeError or is ignored)", disc=p)

    # ------------------------------------------------------------ caller-owned option dictionaries
    for c in repo.subclasses(base):
        for m in c.methods.values():
            me = m.params[0] if m.params else None
            for n in walk_no_nested(m.node):
                if isinstance(n, ast.Assign) and isinstance(n.targets[0], ast.Attribute) and isinstance(n.targets[0].value, ast.Name) and n.targets[0].value.id == me:
                    attr = n.targets[0].attr
                    v = n.value
                    alias = None
                    if isinstance(v, ast.Name) and v.id in m.params:
                        alias = v.id
                    if isinstance(v, ast.BoolOp) and isinstance(v.op, ast.Or) and isinstance(v.values[0], ast.Name) and v.values[0].id in m.params:
                        alias = v.values[0].id
                    if alias is None or not alias.endswith("kwargs"):
                        continue
                    # destructive use of self.<attr> anywhere in the class hierarchy
                    pops = []
                    for k in c.mro():
                        for mm in k.methods.values():
                            for x in walk_no_nested(mm.node):
                                if isinstance(x, ast.Call) and isinstance(x.func, ast.Attribute) and x.func.attr in ("pop", "popitem", "clear") and isinstance(x.func.value, ast.Attribute) \
                                        and x.func.value.attr == attr:
                                    pops.append(f"{mm.ident}:{x.lineno}")
                                if isinstance(x, ast.Delete) and any(isinstance(t, ast.Subscript) and isinstance(t.value, ast.Attribute) and t.value.attr == attr for t in x.targets):
                                    pops.append(f"{mm.ident}:{x.lineno}")
                    ctx.decide(not pops, "C20.alias", m.ident, loc_of(m, n), f"self.{attr} aliases the caller's {alias} but is never consumed destructively",
                               f"self.{attr} is the caller's own {alias} dictionary and entries are removed from it at {pops[:2]}: a second run given the same dictionary runs with different options", disc=attr)
    n_copy = 0
    for c in repo.subclasses(smc, strict=True):
        m = c.methods.get("sample")
        if m is None:
            continue
        for n in walk_no_nested(m.node):
            if isinstance(n, ast.Assign) and isinstance(n.targets[0], ast.Attribute) and n.targets[0].attr == "sampler_kwargs":
                n_copy += 1
                v = n.value
                copied = isinstance(v, ast.Call) and (dotted(v.func) or "").rsplit(".", 1)[-1] in ("dict", "copy", "deepcopy")
                ctx.decide(copied, "C20.alias", m.ident, loc_of(m, n), "the sampler works on a copy of the caller's sampler_kwargs",
                           "self.sampler_kwargs is the caller's own dictionary (later popped from / extended in place)", disc="copy")
    ctx.floor("sampler_kwargs stores in SMC samplers", n_copy, 3)

    # ------------------------------------------------------------ routing in sample_posterior
    A = repo.cls("aspire.aspire:Aspire")
    sp = A.methods["sample_posterior"]
    from ..evalr import Evaluator as _Ev
    evr = _Ev(repo, max_depth=0)
    evr.run(sp, A)
    ctor = [e for e in evr.events if e.func is sp and e.callee.endswith("Aspire.init_sampler")]
    runs = [e for e in evr.events if e.func is sp and e.callee == "method:sample"]

    def split_of(e):
        """(source mapping, filter conditions) of the **-spread handed to a call, when it is a dict comprehension over a mapping's items"""
        sp_ = dict(e.kwargs).get("**")
        if sp_ is None or not (sp_[0] == "f" and sp_[1] == "dictcomp" and len(sp_[2]) == 2):
            return None, ()
        body, gen = sp_[2]
        src_, conds_ = gen[1][0], gen[1][1][1]
        el = ("f", "elem", (src_,), ())
        if body != ("t", (("s", el, T.const(0)), ("s", el, T.const(1)))):
            return None, ()
        return src_, conds_
    ok = False
    why = "the keyword arguments handed to the sampler constructor / to sample() are not complementary selections of the caller's keyword arguments"
    if len(ctor) == 1 and len(runs) == 1:
        s1, c1 = split_of(ctor[0])
        s2, c2 = split_of(runs[0])
        if s1 is not None and s1 == s2:
            el = ("f", "elem", (s1,), ())
            key = ("s", el, T.const(0))
            sigs = [x for c in c1 for x in T.subterms(c) if x[0] == "in" and x[1] == key]
            if len(sigs) == 1:
                member = sigs[0]
                not_self = ("cmp", "!=", *sorted((key, T.K("self")), key=repr))
                is_self = ("cmp", "==", *sorted((key, T.K("self")), key=repr))
                want1 = {frozenset([member, not_self]), frozenset([member])}
                want2 = {frozenset([("not", member)]), frozenset([("or", (("not", member), is_self))]), frozenset([("or", (is_self, ("not", member)))])}
                f1 = frozenset(x for c in c1 for x in (c[1] if c[0] == "and" else [c]))
                f2 = frozenset(c2)
                ok = f1 in want1 and f2 in want2 and any(x[0] == "f" and "signature" in x[1] for x in T.subterms(member[2]))
                why = f"constructor gets the entries with {[T.show(c)[:80] for c in c1]}, sample() those with {[T.show(c)[:80] for c in c2]}"
    ctx.decide(ok, "C20.route", sp.ident, loc_of(sp), "keyword arguments are split between the sampler constructor and sample() by the constructor's signature",
               why + ": a random source given to sample_posterior does not reach the place that uses it")
    isam = A.methods["init_sampler"]
    evi = _Ev(repo, max_depth=0)
    evi.run(isam, A)
    made = [e for e in evi.events if e.func is isam and e.callee.startswith("call:") and "get_sampler_class" in e.callee]
    kwv = T.atom("**" + isam.node.args.kwarg.arg) if isam.node.args.kwarg else None
    fwd2 = bool(made) and kwv is not None and all(dict(e.kwargs).get("**") == kwv for e in made)
    ctx.decide(fwd2, "C20.route", isam.ident, loc_of(isam), "init_sampler hands the extra keyword arguments to the sampler constructor", "init_sampler drops the extra keyword arguments", disc="ctor")
    # resampling uses the sampler's generator
    sample = smc.methods["sample"]
    rs = [n for n in walk_no_nested(sample.node) if isinstance(n, ast.Call) and isinstance(n.func, ast.Attribute) and n.func.attr == "resample"]
    okr = rs and all(any(k.arg == "rng" and isinstance(k.value, ast.Attribute) and k.value.attr == "rng" for k in n.keywords) for n in rs)
    ctx.decide(bool(okr), "C20.kernel", sample.ident, loc_of(sample), f"all {len(rs)} resampling calls draw from the sampler's generator (rng=self.rng)",
               "a resampling call does not pass the sampler's generator: it falls back to a fresh unseeded one", disc="resample")
    # nothing re-seeds a process-global generator from entropy (torch.seed() *sets* a fresh non-deterministic seed and returns it)
    reseeds = []
    for f_ in repo.all_functions():
        for n_ in walk_no_nested(f_.node):
            if isinstance(n_, ast.Call) and not n_.args and not n_.keywords:
                d_ = dotted(n_.func) or ""
                if d_ in ("torch.seed", "np.random.seed", "numpy.random.seed", "random.seed", "torch.cuda.seed", "torch.cuda.seed_all"):
                    reseeds.append((f_, n_, d_))
    ctx.decide(not reseeds, "C20.fresh", "package", loc_of(reseeds[0][0], reseeds[0][1]) if reseeds else "src/aspire",
               "no call re-seeds a process-global generator from entropy",
               (f"{reseeds[0][0].ident} calls {reseeds[0][2]}(), which re-seeds the global generator non-deterministically: every draw after it ignores the seed the user gave") if reseeds else "",
               disc="reseed")
    # a resumed run continues with the checkpointed generator state
    from ..report import reuse as _reuse
    from . import c11 as _c11
    _reuse(ctx, _c11.run, ("C11.refit",), "C20refit", "refit rule shared with C11: a preconditioning transform that carries trained weights (and the position of the random stream it "
           "was seeded on) from one fit to the next holds state that no seed, generator or checkpoint describes: a second run on the same sampler, or a resumed run, differs from a fresh one")
    _reuse(ctx, _c11.run, ("C11.restore",), "C20res", "restore rule shared with C11: without the checkpointed generator state a resumed run draws from a fresh entropy-seeded generator",
           only=lambda f: "rng_state" in f.key)
    # torch flows seed the global torch RNG from their seed argument
    try:
        btf = repo.cls("aspire.flows.torch.flows:BaseTorchFlow").methods["__init__"]
        from .common import flat_conds
        evs_ = _Ev(repo, max_depth=0)
        evs_.run(btf, btf.cls)
        seeds = [e for e in evs_.events if e.func is btf and e.callee.endswith("manual_seed") and e.args and e.args[-1] == T.atom("seed")]
        sd = len(seeds) == 1
        why_s = "the torch flow does not seed torch from its seed argument"
        if sd:
            fc = flat_conds(seeds[0].conds)
            # every seed value must take effect: the only acceptable guard is `seed is not None`
            sd = fc <= {(("is", T.atom("seed"), T.NONE), False)}
            if not sd:
                why_s = ("torch is seeded only when " + " and ".join(("" if pol else "not ") + T.show(c)[:40] for c, pol in sorted(fc, key=repr))
                         + ": a seed for which that is false (e.g. seed=0 under a truthiness test) is silently ignored and the flow is initialised from the global state")
        ctx.decide(sd, "C20.seed", btf.ident, loc_of(btf), "the torch flow seeds torch's generator from its seed argument, for every seed value", why_s)
    except (AnalysisError, KeyError):
        pass
    # a random key / generator handed to sample() is the one in force when the run starts -- on the first call and on every later one
    import re as _re
    n_keyed = 0
    for m_ in repo.modules.values():
        if not m_.name.startswith("aspire.samplers"):
            continue
        for c_ in m_.classes.values():
            sm_ = c_.methods.get("sample")
            if sm_ is None or not sm_.params:
                continue
            for prm in sm_.params[1:]:
                if not _re.search(r"(^|_)(key|seed)$", prm):
                    continue
                evk = _Ev(repo, max_depth=0)
                evk.run(sm_, c_)
                me_k, pk = T.atom(sm_.params[0]), T.atom(prm)
                stored = [(a, v) for (o, a, v, node, fn, seq) in evk.stores if o == me_k and fn is sm_ and any(x == pk for x in T.subterms(v))]
                if not stored:
                    continue
                n_keyed += 1
                attr_k = stored[-1][0]
                # the value when control passes to the run (the last call on self made by this method), else at exit
                hand = [e for e in evk.events if e.func is sm_ and e.depth == 0 and e.snap and me_k in e.snap and attr_k in e.snap[me_k]]
                final = hand[-1].snap[me_k][attr_k] if hand else evk.heap.get((me_k, attr_k))
                given = T.resolve(final, lambda c, pk=pk: False if c == ("is", pk, T.NONE) else None) if final is not None else None
                ctx.decide(given == pk, "C20.seed", sm_.ident, loc_of(sm_),
                           f"when `{prm}` is given, self.{attr_k} is that key when the run starts",
                           f"with `{prm}` given, self.{attr_k} at the start of the run is {T.show(given)[:120] if given else None}, not the key the caller passed: "
                           "a later call on the same sampler silently continues from the key left over by the previous run", disc=f"given|{prm}")
    ctx.count("samplers_taking_a_key", n_keyed)

    # ... and nothing may undo that seeding: torch.random.fork_rng restores the generator state when its block is left, so a flow
    # constructed (or torch seeded) inside such a block leaves the global generator as if the seed had never been applied
    seeding = set()
    for m_ in repo.modules.values():
        for c_ in m_.classes.values():
            init_ = c_.resolve("__init__")
            if init_ is not None and any(isinstance(n, ast.Call) and (dotted(n.func) or "").endswith("manual_seed") for n in walk_no_nested(init_.node)):
                seeding.add(c_.ident)
    undone = []
    n_forks = 0
    for f in repo.all_functions():
        for w in walk_no_nested(f.node):
            if not (isinstance(w, ast.With) and any(isinstance(i.context_expr, ast.Call) and (dotted(i.context_expr.func) or "").endswith("fork_rng") for i in w.items)):
                continue
            n_forks += 1
            for b in w.body:
                for n in ast.walk(b):
                    if not isinstance(n, ast.Call):
                        continue
                    d_ = dotted(n.func) or ""
                    if d_.endswith("manual_seed") or d_.endswith("random.seed"):
                        undone.append((f, n, f"{d_}(...)"))
                    elif isinstance(n.func, ast.Name) and f.cls is not None and f.params and n.func.id == f.params[0] and f.has_decorator("classmethod") \
                            and any(f.cls in repo.cls(sc).mro() or repo.cls(sc) in f.cls.mro() for sc in seeding):
                        undone.append((f, n, f"the construction {ast.unparse(n)[:40]} (its __init__ seeds torch from the stored seed)"))
                    elif isinstance(n.func, ast.Name) and any(sc.endswith(":" + n.func.id) for sc in seeding):
                        undone.append((f, n, f"the construction of {n.func.id} (its __init__ seeds torch)"))
    ctx.count("fork_rng_blocks", n_forks)
    ctx.count("classes_seeding_torch_in_init", len(seeding))
    ctx.decide(not undone, "C20.seed", "package", loc_of(undone[0][0], undone[0][1]) if undone else "src/aspire",
               f"no seeding of the torch generator happens inside a fork_rng block ({n_forks} such blocks; {len(seeding)} classes seed torch in __init__)",
               (f"{undone[0][0].ident} runs {undone[0][2]} inside `with torch.random.fork_rng(...)`: the generator state is restored when the block is left, so the seed "
                "has no effect on the draws that follow -- two runs that load the same flow and sample draw different numbers") if undone else "", disc="fork")


def _is_stub(f):
    body = [s for s in f.node.body if not (isinstance(s, ast.Expr) and isinstance(s.value, ast.Constant))]
    return len(body) == 1 and isinstance(body[0], ast.Raise)


def _enclosing_stmt(root, node):
    best = None
    for s in ast.walk(root):
        if isinstance(s, ast.stmt) and s is not root:
            if any(x is node for x in ast.walk(s)):
                if best is None or (s.lineno >= best.lineno and (s.end_lineno or 0) <= (best.end_lineno or 0)):
                    best = s
    return best


def _is_none_test(test, name):
    return isinstance(test, ast.Compare) and isinstance(test.left, ast.Name) and test.left.id == name and isinstance(test.ops[0], (ast.Is, ast.IsNot)) \
        and isinstance(test.comparators[0], ast.Constant) and test.comparators[0].value is None


def _max_uses(g, weight):
    memo = {}

    def rec(n):
        if n in memo:
            return memo[n]
        memo[n] = 0
        best = 0
        for m, lab in g.succ[n]:
            if lab in ("exc", "back", "reraise"):
                continue
            best = max(best, rec(m))
        memo[n] = weight(n) + best
        return memo[n]

    for lp in g.loops:
        for n in lp["body"]:
            if weight(n):
                return None
    return rec(g.entry)


_MP = "src/aspire/samplers/smc/minipcn.py"
_B = "src/aspire/samplers/smc/base.py"
_BJ = "src/aspire/samplers/smc/blackjax.py"
_JF = "src/aspire/flows/jax/flows.py"
_S = "src/aspire/samples.py"
_E = "src/aspire/samplers/smc/emcee.py"
MUTANTS = [
    M("a fresh run keeps an existing history", _B, "self.history = SMCHistory()\n", "if not isinstance(self.history, SMCHistory):\n                self.history = SMCHistory()\n", "C20.fresh"),
    M("resample always uses a fresh generator", _S, "if rng is None:\n            rng = np.random.default_rng()\n        if n_samples is None:", "rng = np.random.default_rng()\n        if n_samples is None:", "C20.fresh"),
    M("rejection sampling from the global state", _S, "np.log(rng.uniform(size=len(self.x)))", "np.log(np.random.uniform(size=len(self.x)))", ("C20.fresh", "C20.used")),
    M("SMC constructor ignores rng", _B, "self.rng = rng or np.random.default_rng()\n        self._adapative_target_efficiency = False", "self.rng = np.random.default_rng()\n        self._adapative_target_efficiency = False", ("C20.fresh", "C20.used")),
    M("resampling without the sampler generator", _B, "samples = samples.resample(beta, rng=self.rng)", "samples = samples.resample(beta)", "C20.kernel"),
    M("minipcn kernel without generator", _MP, "step_fn=self.sampler_kwargs[\"step_fn\"],\n            rng=self.rng,", "step_fn=self.sampler_kwargs[\"step_fn\"],", "C20.kernel"),
    M("loaded torch flow is constructed inside fork_rng (its seeding is undone)", "src/aspire/flows/torch/flows.py", "obj = self(**config)\n", "with torch.random.fork_rng(devices=[]):\n            obj = self(**config)\n", "C20.seed"),
    M("blackjax keeps a key it already holds (a key passed to a later call is ignored)", _BJ, "if rng_key is None:\n            import jax\n\n            self.key = jax.random.key(42)\n        else:\n            self.key = rng_key",
      "if self.key is None:\n            if rng_key is None:\n                import jax\n\n                rng_key = jax.random.key(42)\n            self.key = rng_key", "C20.seed"),
    M("blackjax key not advanced", _BJ, "self.key, subkey = jax.random.split(self.key)", "_, subkey = jax.random.split(self.key)", "C20.key"),
    M("flowjax draws with the held key", _JF, "self.key, subkey = jrandom.split(self.key)\n        x_prime = self._flow.sample(subkey, (n_samples,))\n        x = self.inverse_rescale(x_prime)[0]", "x_prime = self._flow.sample(self.key, (n_samples,))\n        x = self.inverse_rescale(x_prime)[0]", "C20.key"),
    M("flowjax sub-key used twice", _JF, "x_prime = jnp.asarray(self.fit_data_transform(x), dtype=self.dtype)\n        self.key, subkey = jrandom.split(self.key)", "self.key, subkey = jrandom.split(self.key)\n        x = x + 0 * jrandom.normal(subkey, x.shape)\n        x_prime = jnp.asarray(self.fit_data_transform(x), dtype=self.dtype)", "C20.key"),
    M("numpy SMC sampler drops rng", _B, "preconditioning_transform=None,\n        rng=None,\n    ):\n        if preconditioning_transform is not None:", "preconditioning_transform=None,\n    ):\n        if preconditioning_transform is not None:", "C20.sib",
      more=[("parameters=parameters,\n            rng=rng,\n            preconditioning_transform=preconditioning_transform,", "parameters=parameters,\n            preconditioning_transform=preconditioning_transform,")]),
    M("emcee SMC consumes the caller's dictionary", _E, "self.sampler_kwargs = dict(sampler_kwargs or {})", "self.sampler_kwargs = sampler_kwargs or {}", "C20.alias"),
    M("flow key parameter ignored", _JF, "self.key = key\n        self.loc = None", "self.key = jrandom.key(0)\n        self.loc = None", "C20.used"),
    M("saving a torch flow re-seeds torch from entropy", "src/aspire/flows/torch/flows.py", "flow_grp = h5_file.create_group(path)\n        # Save config", "flow_grp = h5_file.create_group(path)\n        flow_grp.attrs[\"torch_seed\"] = str(torch.seed())\n        # Save config", "C20.fresh"),
    M("generator state restored only for a matching class name", _B, "if rng_state is not None and hasattr(self.rng, \"bit_generator\"):", "if rng_state is not None and hasattr(self.rng, \"bit_generator\") and rng_state[\"bit_generator\"] == type(self.rng).__name__:", "C20res"),
    M("torch flow ignores seed 0", "src/aspire/flows/torch/flows.py", "torch.manual_seed(seed)", "if seed:\n            torch.manual_seed(seed)", "C20.seed"),
    M("torch flow not seeded", "src/aspire/flows/torch/flows.py", "torch.manual_seed(seed)", "pass", ("C20.seed", "C20.used")),
    M("routing sends everything to sample()", "src/aspire/aspire.py", "if k in sampler_init_kwargs and k != \"self\"\n        }", "if False\n        }", "C20.route"),
]
MUTANTS += [
    M("torch rejection sampling from the global generator", _S, "log_u = asarray(\n            np.log(rng.uniform(size=len(self.x))), self.xp, device=self.device\n        )", "log_u = self.xp.log(self.xp.rand(len(self.x)))", ("C20.fresh", "C20.used")),
]
MUTANTS += [
    M("generator parameter hoisted to the base sampler constructor", "src/aspire/samplers/base.py", "preconditioning_transform: Callable | None = None,\n    ):\n        self.prior_flow = prior_flow",
      "preconditioning_transform: Callable | None = None,\n        rng=None,\n    ):\n        self.rng = rng\n        self.prior_flow = prior_flow", "C20.held"),
]
MUTANTS += [
    M("debug-only sanity check draws from the trained flow", "src/aspire/aspire.py", "history = self.flow.fit(samples.x, **kwargs)", "history = self.flow.fit(samples.x, **kwargs)\n        if logger.isEnabledFor(logging.DEBUG):\n            logger.debug(\"flow mean %s\", self.flow.sample(100).mean(0))", "C20.fresh"),
]
MUTANTS += [
    M("a per-fit seed derived with the builtin hash of a labelled tuple", "src/aspire/utils.py", "def copy_array(x, xp: Any = None) -> Array:", "def derive_seed(seed, *labels):\n    return hash((seed, *labels)) % 2**32\n\n\ndef copy_array(x, xp: Any = None) -> Array:", "C20.seed"),
]
MUTANTS += [
    M("flow preconditioning keeps training the flow of the previous fit", "src/aspire/transforms.py", "self.flow = self._FlowClass(\n            dims=len(self.parameters),\n            device=self.device,\n            data_transform=self._data_transform,\n            **self.flow_kwargs,\n        )",
      "if self.flow is None:\n            self.flow = self._FlowClass(\n                dims=len(self.parameters),\n                device=self.device,\n                data_transform=self._data_transform,\n                **self.flow_kwargs,\n            )", "C20refit.refit"),
]
NEUTRALS = [
    M("debug-only summary of the training data (no draw)", "src/aspire/aspire.py", "history = self.flow.fit(samples.x, **kwargs)", "history = self.flow.fit(samples.x, **kwargs)\n        if logger.isEnabledFor(logging.DEBUG):\n            logger.debug(\"data mean %s\", samples.x.mean(0))"),
    __import__("aspire_sa.rules.smcloop", fromlist=["HELPER_NEUTRAL"]).HELPER_NEUTRAL,
    M("torch flow seeded unless seed is None", "src/aspire/flows/torch/flows.py", "torch.manual_seed(seed)", "if seed is not None:\n            torch.manual_seed(seed)"),
    M("fallback written as a conditional expression", _B, "self.rng = rng or np.random.default_rng()\n        self._adapative_target_efficiency = False", "self.rng = rng if rng is not None else np.random.default_rng()\n        self._adapative_target_efficiency = False"),
    M("fallback written as an if", _B, "self.rng = rng or np.random.default_rng()\n        self._adapative_target_efficiency = False", "if rng is None:\n            rng = np.random.default_rng()\n        self.rng = rng\n        self._adapative_target_efficiency = False"),
    M("copy via dict unpacking call", _E, "self.sampler_kwargs = dict(sampler_kwargs or {})", "self.sampler_kwargs = copy.deepcopy(sampler_kwargs or {})"),
]

# functions the property is anchored in (auto-mutant sweep of the thorough tier)
ANCHORS = [
    'aspire.samplers.smc.base:SMCSampler.__init__',
    'aspire.samplers.smc.base:NumpySMCSampler.__init__',
    'aspire.samplers.smc.minipcn:MiniPCNSMC.sample',
    'aspire.samplers.smc.minipcn:MiniPCNSMC.mutate',
    'aspire.samplers.smc.blackjax:BlackJAXSMC.__init__',
    'aspire.samplers.smc.blackjax:BlackJAXSMC.sample',
    'aspire.flows.jax.flows:FlowJax.__init__',
    'aspire.flows.jax.flows:FlowJax.sample',
    'aspire.flows.jax.flows:FlowJax.sample_and_log_prob',
    'aspire.flows.jax.flows:FlowJax.fit',
    'aspire.samples:SMCSamples.resample',
    'aspire.samples:Samples.rejection_sample',
    'aspire.samplers.smc.emcee:EmceeSMC.sample',
]
