"""C09 -- resampling selects by incremental weight and copies particles intact."""

from __future__ import annotations

from .. import AnalysisError
from .. import terms as T
from ..mutants import M
from ..spec import spec
from .common import SELF, fold, is_scalar, loc_of, max_args, self_attr
from .schedule import population_weights

META = {
    "explanation": (
        "SMCSamples.resample is folded into normal form: the probability vector given to the generator == exp(u - LSE(u)) "
        "with u differing from (b - beta)(L+P-Q) by a per-set scalar; the population size argument == len(x); size == the "
        "requested size (population size by default); replace=True; the draw is made on the rng parameter (a fresh generator "
        "only as the None fallback); every per-sample constructor field of the class is F=self.F[idx] with the one drawn idx; "
        "beta is the new temperature; dtype and parameters are carried."
    ),
    "not_decided": "the generator's own sampling algorithm",
    "assumptions": ["numpy Generator.choice(n, size, replace, p) semantics"],
}


def run(ctx):
    repo = ctx.repo
    from ..report import reuse as _reuse
    from . import c08 as _c08
    _reuse(ctx, lambda c: _c08.inf_rule(c), ("C08.inf",), "C09w", "incremental-weight rule shared with C08: a NaN weight makes log_weights raise inside determine_beta / resample")
    from . import c05 as _c05
    _reuse(ctx, _c05.temp_rule, ("C05.temp",), "C09site", "call-site rule shared with C05: the temperature handed to resample() is the end of the move the incremental weights are computed for, "
           "and the one the resampled population is labelled with -- it must be the temperature the kernel then targets")
    from . import c10 as _c10
    _reuse(ctx, lambda c: _c10.own_rule(c, only_module="aspire.samples"), ("C10.own",), "C09own", "ownership rule shared with C10: the probability vector handed to the generator and the rows the "
           "indices select are used after they were computed; code in between (a diagnostic that sorts its argument, say) must not write into them, or particle i is offered another particle's weight")
    S = repo.cls("aspire.samples:SMCSamples")
    m = S.resolve("resample")
    if m is None:
        raise AnalysisError("SMCSamples.resample not found")
    ev, ret = fold(repo, m, S)
    # an optional parameter through which the caller may hand in ready-made weights (`x if x is not None else computed`):
    # the method is folded on the "not given" path, the call sites are checked separately (supplied_rule)
    supplied = None
    opt = [T.atom(p_) for p_ in m.params[2:] if p_ not in ("n_samples", "rng")]
    for e0 in ev.events:
        if e0.depth == 0 and e0.callee == "method:choice":
            pv = dict(e0.kwargs).get("p")
            for x in (T.subterms(pv) if pv is not None else []):
                if x[0] == "phi" and x[1][0] == "is" and x[1][2] == T.NONE and x[1][1] in opt and x[3] == x[1][1]:
                    supplied = x[1][1][1]
    if supplied is not None:
        from ..evalr import Evaluator
        sup_atom = T.atom(supplied)
        ev = Evaluator(repo, max_depth=3, assume=lambda c: True if c == ("is", sup_atom, T.NONE) else None)
        ret = ev.run(m, S)
    ctx.count("functions_folded")
    construct, loc = m.ident, loc_of(m)
    beta = T.atom("beta")
    N = T.app("len", self_attr("x"))
    news = [x for x in ev.events if x.depth == 0 and x.callee.startswith("new:")]
    if len(news) != 1:
        ctx.unknown("C09.copy", construct, loc, f"expected one constructed population, found {len(news)}")
        return
    xs = dict(news[0].kwargs).get("x") or (news[0].args[0] if news[0].args else None)
    if xs is None or xs[0] != "s" or xs[1] != self_attr("x"):
        ctx.refute("C09.copy", construct, loc_of(m, news[0].node), f"resampled coordinates are {T.show(xs)[:120] if xs else None}, not self.x[idx]", disc="x")
        return
    ch = [e for e in ev.events if e.depth == 0 and e.callee == "method:choice" and e.result == xs[2]]
    if len(ch) != 1:
        ctx.refute("C09.draw", construct, loc, f"the row index {T.show(xs[2])[:120]} of the resampled coordinates is not the result of a generator.choice draw")
        return
    e = ch[0]
    loc = loc_of(m, e.node)
    kw = dict(e.kwargs)
    rng = e.args[0]
    if rng[0] == "or":
        # `rng or default_rng()`: the supplied generator first, a fresh one only as fallback
        leaves = list(rng[1])
        ok = leaves[0] == T.atom("rng") and all(l[0] == "f" and "default_rng" in l[1] for l in leaves[1:])
    else:
        leaves = list(T.phi_leaves(rng))
        ok = T.atom("rng") in leaves and all(l == T.atom("rng") or (l[0] == "f" and "default_rng" in l[1]) for l in leaves)
        if ok and rng[0] == "phi":
            ok = rng[1] == ("is", T.atom("rng"), T.NONE) and T.select(rng, rng[1], False) == T.atom("rng")
    ctx.decide(ok, "C09.rng", construct, loc, "indices are drawn from the rng argument (fresh generator only when it is None)",
               f"indices are drawn from {T.show(rng)[:160]}, not from the generator the caller supplied")
    pop = e.args[1] if len(e.args) > 1 else kw.get("a")
    ctx.decide(pop == N, "C09.draw", construct, loc, "indices range over the whole population len(x)",
               f"indices are drawn from range({T.show(pop)[:80] if pop else None}), not len(x)", disc="n")
    size = kw.get("size") or (e.args[2] if len(e.args) > 2 else None)
    ns = T.atom("n_samples")
    want_size = T.phi(("is", ns, T.NONE), N, ns)
    ctx.decide(size == want_size, "C09.draw", construct, loc, "number of draws == requested size (population size when None)",
               f"number of draws is {T.show(size)[:160] if size else None}", disc="size")
    rep = kw.get("replace") or (e.args[3] if len(e.args) > 3 else T.TRUE)
    ctx.decide(rep == T.TRUE, "C09.draw", construct, loc, "sampling with replacement", f"replace={T.show(rep)}", disc="replace")
    p = kw.get("p") or (e.args[4] if len(e.args) > 4 else None)
    w = population_weights(SELF, beta)
    ok, why = False, f"probability vector is {T.show(p)[:300] if p else 'absent (uniform)'}"
    if p is not None:
        for u in max_args(p):
            for name, tpl in (("exp(u - LSE(u))", spec("exp(u - LSE(u))", u=u)),
                              ("exp(u - max u)/sum(exp(u - max u))", spec("exp(u - max(u)) / sum(exp(u - max(u)))", u=u))):
                if p == tpl:
                    d = T.sub(u, w)
                    if d == T.ZERO or is_scalar(d):
                        ok, why = True, f"p == {name}, u - (b-beta)(L+P-Q) = per-set scalar"
                    else:
                        why = f"p == {name} but u = {T.show(u)[:160]} is not the incremental log-weight (b-beta)(L+P-Q) up to a scalar"
    ctx.decide(ok, "C09.p", construct, loc, why, why + " ; expected normalised incremental weights exp(u - LSE(u))")
    if supplied is not None:
        supplied_rule(ctx, repo, m, supplied)
    idx = e.result
    nk = dict(news[0].kwargs)
    loc2 = loc_of(m, news[0].node)
    per_sample = [f.name for f in S.init_fields() if f.per_sample]
    ctx.floor("per-sample constructor fields of SMCSamples", len(per_sample), 4)
    for F in per_sample:
        got = nk.get(F)
        want = ("s", self_attr(F), idx)
        if got is None:
            ctx.refute("C09.copy", construct, loc2, f"field {F} is not copied to the resampled population", disc=F)
        else:
            g = T.strip_raise(got)
            ctx.decide(g == want, "C09.copy", construct, loc2, f"{F} == self.{F}[idx] with the drawn idx",
                       f"{F} is {T.show(g)[:120]}, not self.{F}[idx] with the drawn index array (rows would no longer belong to one source particle)", disc=F)
    ctx.decide(nk.get("beta") == beta, "C09.meta", construct, loc2, "resampled population carries the new temperature",
               f"beta={T.show(nk.get('beta')) if nk.get('beta') else 'unset'}", disc="beta")
    for F in ("dtype", "parameters"):
        ctx.decide(nk.get(F) == self_attr(F), "C09.meta", construct, loc2, f"{F} carried", f"{F} not carried to the resampled population", disc=F)
    label_rule(ctx)
    # the early return is only taken for an unchanged temperature at unchanged size
    if ret[0] == "phi":
        c = ret[1]
        same = T.select(ret, c, True)
        want_c = ("and", (("cmp", "==", T.sub(beta, self_attr("beta"))), ("is", ns, T.NONE)))
        alt = ("and", (("cmp", "==", T.sub(self_attr("beta"), beta)), ("is", ns, T.NONE)))
        ok = same == SELF and c in (want_c, alt)
        ctx.decide(ok, "C09.same", construct, loc_of(m), "returns self only when beta is unchanged and no size was requested",
                   f"early return {T.show(same)[:60]} taken on {T.show(c)[:160]}")


def supplied_rule(ctx, repo, m, pname):
    """resample() accepts a caller-computed weight vector: every call that hands one in must hand in
    log_weights(<the population being resampled>, <the temperature it is resampled to>)."""
    from .smcloop import SMC, fold_sample
    smc = repo.cls(SMC)
    sample = smc.methods["sample"]
    sf = fold_sample(repo, resumed=False, final=None, inline_db=True)
    n = 0
    for e in sf.events("method:resample", in_loop=None):
        given = dict(e.kwargs).get(pname)
        if given is None:
            continue
        n += 1
        recv, b_arg = e.args[0], (e.args[1] if len(e.args) > 1 else dict(e.kwargs).get(m.params[1]))
        want = ("f", "method:log_weights", (recv, b_arg), ())
        leaves = list(T.phi_leaves(given))
        okc = all(l == want for l in leaves)
        ctx.decide(okc, "C09.p", sample.ident, loc_of(sample, e.node),
                   f"the weights handed to resample({pname}=...) are log_weights(population, beta') for the temperature it resamples to",
                   f"resample is handed {pname} = {T.show(given)[:140]}, which is not log_weights(population, {T.show(b_arg)[:80]}) on every path: when the temperature actually used differs "
                   "from the one the weights were computed for (e.g. a step forced by the minimum step), particles are selected by the weights of another temperature move",
                   disc=f"supplied|{n}")


def label_rule(ctx):
    """The population entering the loop is labelled with the temperature the loop starts from."""
    from .smcloop import SMC, fold_sample, roles
    repo = ctx.repo
    smc = repo.cls(SMC)
    sample = smc.methods["sample"]
    for resumed in (False, True):
        sf = fold_sample(repo, resumed=resumed, final=False)
        tag = "resumed" if resumed else "fresh"
        lp = sf.loop
        if lp is None:
            ctx.unknown("C09.label", sample.ident, loc_of(sample), f"[{tag}] loop not recorded")
            continue
        R = roles(repo)
        ps, pb = lp["pre"].get(R.samples), lp["pre"].get(R.beta)
        if not resumed:
            lab = dict(ps[3]).get("beta") if ps is not None and ps[0] == "f" and "from_samples" in ps[1] else None
            if ps is not None and ps[0] == "obj":
                lab = sf.ev.heap.get((ps, "beta"))
                for l_ in sf.ev.loops:
                    lab = lab if lab is not None else l_.get("body_heap", {}).get((ps, "beta"))
            ctx.decide(lab is not None and lab == pb, "C09.label", sample.ident, loc_of(sample), "[fresh] the initial population is labelled with the starting temperature",
                       f"[fresh] the initial population is labelled beta={T.show(lab) if lab else None} but the loop starts from beta={T.show(pb) if pb else None}", disc=tag)
        else:
            ok = ps is not None and pb is not None and ps[0] == "s" and pb[0] == "s" and ps[1] == pb[1] and "restore_from_checkpoint" in str(ps[1][1]) \
                and T.const_value(ps[2]) == 0 and T.const_value(pb[2]) == 1
            ctx.decide(ok, "C09.label", sample.ident, loc_of(sample), "[resumed] the restored population and the restored temperature are used as returned by restore_from_checkpoint",
                       f"[resumed] the population entering the loop is {T.show(ps)[:140] if ps else None}, not the restored one as labelled by restore_from_checkpoint: "
                       "the first resampling after a resume weights by the wrong temperature move", disc=tag)
    rfc = smc.resolve("restore_from_checkpoint")
    from ..evalr import Evaluator
    ev = Evaluator(repo, max_depth=1, no_inline={"aspire.samplers.base:Sampler.restore_from_checkpoint", "aspire.samples:BaseSamples.from_samples"})
    ret = T.strip_raise(ev.run(rfc, smc))
    ok = ret[0] == "t" and len(ret[1]) == 3 and ret[1][0][0] == "f" and "from_samples" in ret[1][0][1] and dict(ret[1][0][3]).get("beta") == ret[1][1]
    ctx.decide(ok, "C09.label", rfc.ident, loc_of(rfc), "restore_from_checkpoint labels the restored population with the restored temperature",
               "restore_from_checkpoint returns a population whose beta label is not the restored temperature", disc="restore")


_S = "src/aspire/samples.py"
MUTANTS = [
    M("uniform resampling", _S, "idx = rng.choice(len(self.x), size=n_samples, replace=True, p=w)", "idx = rng.choice(len(self.x), size=n_samples, replace=True)", "C09.p"),
    M("weights of the target temperature", _S, "log_w = self.log_weights(beta)\n        w = to_numpy(", "log_w = self.log_weights(1.0)\n        w = to_numpy(", "C09.p"),
    M("weights not normalised by LSE", _S, "w = to_numpy(self.xp.exp(log_w - logsumexp(log_w)))", "w = to_numpy(self.xp.exp(log_w - self.xp.max(log_w)))", "C09.p"),
    M("without replacement", _S, "size=n_samples, replace=True, p=w", "size=n_samples, replace=False, p=w", "C09.draw"),
    M("size ignores request", _S, "idx = rng.choice(len(self.x), size=n_samples,", "idx = rng.choice(len(self.x), size=len(self.x),", "C09.draw"),
    M("log_q from a second draw", _S, "log_q=self.log_q[idx],\n            beta=beta,", "log_q=self.log_q[rng.choice(len(self.x), size=n_samples, replace=True, p=w)],\n            beta=beta,", "C09.copy"),
    M("log_prior not resampled", _S, "log_prior=self.log_prior[idx],\n            log_q=self.log_q[idx],", "log_prior=self.log_prior,\n            log_q=self.log_q[idx],", "C09.copy"),
    M("log_likelihood dropped", _S, "log_likelihood=self.log_likelihood[idx],\n            log_prior=self.log_prior[idx],\n            log_q=self.log_q[idx],", "log_prior=self.log_prior[idx],\n            log_q=self.log_q[idx],", "C09.copy"),
    M("old temperature kept", _S, "log_q=self.log_q[idx],\n            beta=beta,", "log_q=self.log_q[idx],\n            beta=self.beta,", "C09.meta"),
    M("fresh generator always", _S, "if rng is None:\n            rng = np.random.default_rng()\n        if n_samples is None:", "rng = np.random.default_rng()\n        if n_samples is None:", "C09.rng"),
    M("early return ignores size", _S, "if beta == self.beta and n_samples is None:", "if beta == self.beta:", "C09.same"),
]
MUTANTS += [
    M("final enlargement resampled at the loop's last temperature", "src/aspire/samplers/smc/base.py", "final_samples = samples.resample(\n                1.0, n_samples=n_final_samples, rng=self.rng\n            )", "final_samples = samples.resample(\n                beta, n_samples=n_final_samples, rng=self.rng\n            )", "C09site"),
    M("restored population relabelled as beta 0", "src/aspire/samplers/smc/base.py", "samples, beta, iterations = self.restore_from_checkpoint(\n                resume_from\n            )", "samples, beta, iterations = self.restore_from_checkpoint(\n                resume_from\n            )\n            samples = SMCSamples.from_samples(samples, xp=self.xp, beta=0.0, dtype=self.dtype)", "C09.label"),
    M("weights only for the default size", _S, "log_w = self.log_weights(beta)\n        w = to_numpy(self.xp.exp(log_w - logsumexp(log_w)))\n        idx = rng.choice(len(self.x), size=n_samples, replace=True, p=w)", "w = None\n        if n_samples == len(self.x):\n            log_w = self.log_weights(beta)\n            w = to_numpy(self.xp.exp(log_w - logsumexp(log_w)))\n        idx = rng.choice(len(self.x), size=n_samples, replace=True, p=w)", "C09.p"),
]
NEUTRALS = [
    __import__("aspire_sa.rules.smcloop", fromlist=["HELPER_NEUTRAL"]).HELPER_NEUTRAL,
    M("generator fallback written with or", _S, "if rng is None:\n            rng = np.random.default_rng()\n        if n_samples is None:", "rng = rng or np.random.default_rng()\n        if n_samples is None:"),
    M("index via temporary weights", _S, "w = to_numpy(self.xp.exp(log_w - logsumexp(log_w)))", "lse = logsumexp(log_w)\n        w = to_numpy(self.xp.exp(log_w - lse))"),
    M("constructor keywords reordered", _S, "log_q=self.log_q[idx],\n            beta=beta,\n            dtype=self.dtype,", "beta=beta,\n            log_q=self.log_q[idx],\n            dtype=self.dtype,"),
    M("population size via len(self)", _S, "idx = rng.choice(len(self.x), size=n_samples,", "idx = rng.choice(len(self), size=n_samples,"),
]

# functions the property is anchored in (auto-mutant sweep of the thorough tier)
ANCHORS = [
    'aspire.samples:SMCSamples.resample',
    'aspire.samples:SMCSamples.log_weights',
]

MUTANTS += [
    M("debug summary sorts the probability vector it is given", "src/aspire/samples.py", "idx = rng.choice(len(self.x), size=n_samples, replace=True, p=w)", "_ = _sorted_summary(w)\n        idx = rng.choice(len(self.x), size=n_samples, replace=True, p=w)", "C09own.own",
      more=[("class SMCSamples(BaseSamples):", "def _sorted_summary(w):\n    w = np.asarray(w)\n    w.sort()\n    return str(w[-1])\n\n\nclass SMCSamples(BaseSamples):")]),
]
