"""C02 -- weights, evidence and ESS are exact functionals of the log-densities.

Decided by value numbering with a polynomial normal form (DESIGN 3.5): the code
of each anchored function is folded into terms and compared with the
property's algebra written as spec expressions.
"""

from __future__ import annotations

from .. import AnalysisError
from .. import terms as T
from ..evalr import lse
from ..mutants import M
from ..spec import spec
from .common import (
    SELF, exp_args, exp_is_bounded, fold, fold_method, index_dependent_ops,
    is_scalar, loc_of, max_args, method_stores, self_attr, store_node,
)

SAMPLES = "aspire.samples:Samples"

META = {
    "explanation": (
        "Structural proof of the formula clauses of C02 by global value numbering with a polynomial "
        "normal form: log_w == L+P-Q, log_evidence == LSE(log_w)-log N, ESS == exp(2 LSE(u)-LSE(2u)) "
        "(or an accepted equivalent) with u-log_w a per-set scalar, logsumexp is max-shifted, "
        "efficiency == ESS/N, scaled_weights == exp(log_w-max), the rejection mask compares "
        "log_w-max(log_w) with log U (U one uniform draw per sample) and indexes every kept field, "
        "only element-wise operations and symmetric reductions occur (permutation invariance), and no "
        "exp() whose exponent moves with a constant shift of the log-densities reaches log_evidence, "
        "log_evidence_error or effective_sample_size (overflow taint)."
    ),
    "not_decided": "floating-point accuracy, per-namespace/dtype behaviour, ESS in [1,N] beyond being a consequence of the ESS identity",
    "assumptions": [
        "real arithmetic; array operations are element-wise with NumPy semantics",
        "asarray / to_numpy / array_to_namespace / safe_to_device are value preserving",
    ],
}


def _ess_templates(u):
    yield "exp(2*LSE(u) - LSE(2*u))", spec("exp(2*LSE(u) - LSE(2*u))", u=u)
    yield "sum(exp(u))**2 / sum(exp(u)**2)", spec("sum(exp(u))**2 / sum(exp(u)**2)", u=u)
    yield "sum(exp(u))**2 / sum(exp(2*u))", spec("sum(exp(u))**2 / sum(exp(2*u))", u=u)
    yield "1 / sum(exp(u - LSE(u))**2)", spec("1 / sum(exp(u - LSE(u))**2)", u=u)
    yield "1 / sum(exp(2*(u - LSE(u))))", spec("1 / sum(exp(2*(u - LSE(u))))", u=u)


def check_ess(ctx, rule, construct, loc, ess, log_w):
    """ess must be an accepted ESS functional of some u with u - log_w scalar."""
    cands = []
    for a in exp_args(ess) + max_args(ess):
        for c in (a, T.mul(a, T.const(T.Fraction(1, 2)))):
            if c not in cands:
                cands.append(c)
    for u in cands:
        for name, tpl in _ess_templates(u):
            if tpl == ess:
                d = T.sub(u, log_w)
                if d == T.ZERO or is_scalar(d):
                    return ctx.prove(rule, construct, loc,
                                     f"ESS == {name} with u = {T.show(u)[:200]} ; u - log_w = {T.show(d)[:120]} is a per-set scalar")
                return ctx.refute(rule, construct, loc,
                                  f"ESS == {name} but u = {T.show(u)[:200]} differs from the log-weights by a non-scalar {T.show(d)[:200]}")
    return ctx.refute(rule, construct, loc,
                      f"effective sample size {T.show(ess)[:400]} is not (sum w)^2/sum w^2 of the log-weights {T.show(log_w)[:120]} in any accepted form")


def cancellation_rule(ctx, ev, m, construct, shifted, obj_names=("self", "sliced")):
    """C02.cancel: the ESS is computed from log-weights that were shifted first.
    exp(2*LSE(u) - LSE(2u)) is algebraically shift invariant, but evaluated on
    unshifted u it is a difference of two numbers of size 2*max|u|: in float32
    the cancellation error reaches several per cent for |u| ~ 1e5 (ESS > N)."""
    import ast as _ast

    for st in _ast.walk(m.node):
        if not isinstance(st, _ast.Assign):
            continue
        tg = st.targets[0]
        if not (isinstance(tg, _ast.Attribute) and tg.attr == "effective_sample_size"):
            continue
        inside = {id(n) for n in _ast.walk(st)}
        evs = [e for e in ev.events if id(e.node) in inside and (e.callee.endswith("logsumexp") or e.callee.endswith("effective_sample_size"))]
        bad = []
        for e in evs:
            if not e.args:
                continue
            from .common import shift_weight
            sw = shift_weight(e.args[0], shifted)
            if sw is None or sw != 0:
                bad.append((e, sw))
        ctx.decide(not bad and bool(evs) or (not evs), "C02.cancel", construct, loc_of(m, st),
                   "the ESS is computed from max-shifted log-weights (no large cancelling terms)",
                   (f"the ESS is computed from unshifted log-weights ({T.show(bad[0][0].args[0])[:80]} moves by {bad[0][1]}*c under a constant shift): "
                    "2*LSE(u) - LSE(2u) then cancels two numbers of size 2*max|u|; in single precision the ESS is off by per cents for |log w| ~ 1e5 and can exceed N") if bad else "",
                   disc=f"L{sum(1 for x in _ast.walk(m.node) if isinstance(x, _ast.Assign) and x.lineno < st.lineno)}")


def _leaf_when_weights(t):
    """Pick the value on the path where weights are computed (non-None leaf)."""
    leaves = [l for l in T.phi_leaves(t) if l != T.NONE and not (l[0] == "attr" and l[1][0] == "obj")]
    return leaves


def run(ctx):
    repo = ctx.repo
    S = repo.cls(SAMPLES)
    L, P, Q = self_attr("log_likelihood"), self_attr("log_prior"), self_attr("log_q")
    N = T.app("len", self_attr("x"))
    shifted = {L: 1}

    # ---- discover the methods of Samples that compute the weights
    writers = []
    for c in S.mro():
        for m in c.methods.values():
            if S.resolve(m.name) is m and "log_w" in method_stores(m) and m.name != "__post_init__":
                # a method that only resets log_w to None and delegates the computation (calls another method) is not a writer of weights
                import ast as _ast
                real = any(isinstance(n, _ast.Assign) and any(isinstance(t, _ast.Attribute) and t.attr == "log_w" for t in n.targets)
                           and not (isinstance(n.value, _ast.Constant) and n.value.value is None) for n in _ast.walk(m.node))
                if real:
                    writers.append(m)
    ctx.floor("methods storing Samples.log_w", len(writers), 1)
    def weighted(v):
        """value on the path where weights are computed: a helper may also hold the `not all three densities given -> None` alternative"""
        if v is None:
            return None
        alts = []
        for l in T.phi_leaves(v):
            if l != T.NONE and l not in alts:
                alts.append(l)
        return alts[0] if len(alts) == 1 else v

    for m in writers:
        ev, _ = fold(repo, m, S)
        ctx.count("functions_folded")
        construct = m.ident
        loc = loc_of(m)
        for k_ in ("log_w", "log_evidence", "effective_sample_size", "weights", "evidence", "evidence_error", "log_evidence_error"):
            if (SELF, k_) in ev.heap:
                ev.heap[(SELF, k_)] = weighted(ev.heap[(SELF, k_)])
        log_w = ev.heap.get((SELF, "log_w"))
        if log_w is None:
            ctx.unknown("C02.w", construct, loc, "no store to self.log_w found after folding")
            continue
        want = spec("L + P - Q", L=L, P=P, Q=Q)
        ctx.decide(log_w == want, "C02.w", construct, loc,
                   f"log_w == {T.show(want)}",
                   f"log_w is {T.show(log_w)[:300]} ; expected {T.show(want)}")
        # evidence
        le = ev.heap.get((SELF, "log_evidence"))
        if le is None:
            ctx.unknown("C02.z", construct, loc, "no store to self.log_evidence")
        else:
            wantz = spec("LSE(w) - log(N)", w=log_w, N=N)
            alt = spec("log(mean(exp(w - max(w)))) + max(w)", w=log_w)
            ok = le in (wantz, alt)
            ctx.decide(ok, "C02.z", construct, loc,
                       "log_evidence == LSE(log_w) - log(len(x))",
                       f"log_evidence is {T.show(le)[:400]} ; expected LSE(log_w) - log(len(x))")
        ess = ev.heap.get((SELF, "effective_sample_size"))
        if ess is None:
            ctx.unknown("C02.ess", construct, loc, "no store to self.effective_sample_size")
        else:
            check_ess(ctx, "C02.ess", construct, loc, ess, log_w)
        cancellation_rule(ctx, ev, m, construct, shifted)
        # derived quantities
        wts, evd, err, rel = (ev.heap.get((SELF, k)) for k in ("weights", "evidence", "evidence_error", "log_evidence_error"))
        if wts is not None:
            ctx.decide(wts == spec("exp(w)", w=log_w), "C02.derived", construct, loc, "weights == exp(log_w)", f"weights is {T.show(wts)[:200]}", disc="weights")
        if evd is not None and le is not None:
            ctx.decide(evd == spec("exp(z)", z=le), "C02.derived", construct, loc, "evidence == exp(log_evidence)", f"evidence is {T.show(evd)[:200]}", disc="evidence")
        if err is not None and wts is not None and evd is not None:
            want_e = spec("sqrt(sum((w - Z)**2) / (N * (N - 1)))", w=wts, Z=evd, N=N)
            ctx.decide(err == want_e, "C02.derived", construct, loc, "evidence_error == sqrt(sum((w - Z)^2) / (N (N-1)))  (standard error of the mean weight)",
                       f"evidence_error is {T.show(err)[:260]}", disc="evidence_error")
        if rel is not None and le is not None:
            want_r = spec("sqrt(sum((exp(w - z) - 1)**2) / (N * (N - 1)))", w=log_w, z=le, N=N)
            alt_r = spec("abs(e / Z)", e=err, Z=evd) if err is not None and evd is not None else None
            ctx.decide(rel in (want_r, alt_r), "C02.derived", construct, loc, "log_evidence_error == relative standard error of the mean weight, sqrt(sum((w/Z - 1)^2) / (N (N-1)))",
                       f"log_evidence_error is {T.show(rel)[:260]}", disc="log_evidence_error")
        # symmetric operations only
        bad = []
        for name in ("log_w", "log_evidence", "effective_sample_size", "log_evidence_error"):
            v = ev.heap.get((SELF, name))
            if v is not None:
                bad += [f"{name}: {b}" for b in index_dependent_ops(v)]
        ctx.decide(not bad, "C02.sym", construct, loc,
                   "only element-wise operations and symmetric reductions feed log_w / log_evidence / ESS / error",
                   f"index-dependent operation(s): {bad[:3]}")
        # overflow taint
        for name in ("log_evidence", "log_evidence_error", "effective_sample_size"):
            v = ev.heap.get((SELF, name))
            if v is None:
                continue
            worst = None
            for a in exp_args(v):
                cls, why = exp_is_bounded(a, shifted)
                if cls == "unbounded":
                    worst = ("unbounded", a, why)
                    break
                if cls == "unknown" and worst is None:
                    worst = ("unknown", a, why)
            node, fn = store_node(ev, SELF, name)
            l2 = loc_of(fn or m, node)
            if worst is None:
                ctx.prove("C02.ovf", construct, l2, f"every exp() feeding {name} has a max/LSE-shifted or shift-invariant exponent", disc=name)
            elif worst[0] == "unbounded":
                ctx.refute("C02.ovf", construct, l2,
                           f"{name} depends on exp({T.show(worst[1])[:160]}): {worst[2]}; it overflows/underflows when log-weights lie outside the range of exp()", disc=name)
            else:
                ctx.unknown("C02.ovf", construct, l2, f"{name}: exp({T.show(worst[1])[:160]}): {worst[2]}", disc=name)

    # ---- selection recomputes the ESS of the selected rows
    gi = S.resolve("__getitem__")
    if gi is None:
        raise AnalysisError("Samples.__getitem__ not found")
    ev, ret = fold(repo, gi, S)
    ctx.count("functions_folded")
    cancellation_rule(ctx, ev, gi, gi.ident, {self_attr("log_w"): 1, ("s", self_attr("log_w"), T.atom("idx")): 1})
    objs = [l for l in T.phi_leaves(ret) if l and l[0] == "obj"]
    if not objs:
        ctx.unknown("C02.ess", gi.ident, loc_of(gi), "selection does not return a constructed sample set")
    else:
        o = objs[0]
        ess = ev.heap.get((o, "effective_sample_size"))
        lw = ev.heap.get((o, "log_w"))
        if ess is None or lw is None:
            ctx.unknown("C02.ess", gi.ident, loc_of(gi), "selection does not set effective_sample_size / log_w")
        else:
            has_w = ("not", ("is", self_attr("log_w"), T.NONE))
            ess_w = T.select(ess, has_w, True)
            lw_w = T.select(lw, has_w, True)
            if ess_w[0] == "phi" or lw_w[0] == "phi" or ess_w == ess:
                ctx.unknown("C02.ess", gi.ident, loc_of(gi),
                            "could not isolate the path on which the source set carries weights")
            else:
                want_lw = ("s", self_attr("log_w"), T.atom("idx"))
                ctx.decide(lw_w == want_lw, "C02.sel", gi.ident, loc_of(gi),
                           "selected log_w == self.log_w[idx]",
                           f"selected log_w is {T.show(lw_w)[:200]}")
                check_ess(ctx, "C02.ess", gi.ident, loc_of(gi), ess_w, lw_w)

    # ---- helper functions
    f = repo.func("aspire.utils:effective_sample_size")
    ev, ret = fold(repo, f)
    ctx.count("functions_folded")
    check_ess(ctx, "C02.ess", f.ident, loc_of(f), ret, T.atom(f.params[0]))

    lwp = T.atom(f.params[0])
    worst = None
    for a in exp_args(ret):
        cls_, why = exp_is_bounded(a, {lwp: 1})
        if cls_ == "unbounded":
            worst = (a, why)
            break
    ctx.decide(worst is None, "C02.ovf", f.ident, loc_of(f), "every exp() in the ESS helper has a max/LSE-shifted or shift-invariant exponent", 
               f"the ESS helper evaluates exp({T.show(worst[0])[:120] if worst else ''}) of unshifted log-weights ({worst[1] if worst else ''}): for log-weights of large magnitude "
               "all weights underflow or overflow and the ESS becomes nan / garbage", disc="helper")

    f = repo.func("aspire.utils:logsumexp")
    ev, ret = fold(repo, f)
    ctx.count("functions_folded")
    x = T.atom(f.params[0])
    ok = False
    detail = ""
    axis = T.atom("axis") if "axis" in f.params else None
    for cand in [t for t in T.subterms(ret) if t and t[0] == "f" and t[1] == "max" and t[2] and t[2][0] == x] or [None]:
        if cand is None:
            break
        kw = {"axis": axis} if axis is not None else {}
        tpl = spec("c + log(sum(exp(x - c), axis=axis))", c=cand, x=x, axis=axis) if axis is not None else None
        tpl2 = spec("c + log(sum(exp(x - c)))", c=cand, x=x)
        if ret == tpl or (axis is None and ret == tpl2):
            ok = True
            detail = f"logsumexp(x) == c + log(sum(exp(x - c))) with c = {T.show(cand)}"
    ctx.decide(ok, "C02.lse", f.ident, loc_of(f), detail,
               f"logsumexp returns {T.show(ret)[:300]} ; expected c + log(sum(exp(x - c))) with c = max(x)")

    # ---- efficiency / scaled weights
    for name, want, rule in (
        ("efficiency", spec("E / N", E=self_attr("effective_sample_size"), N=N), "C02.eff"),
        ("scaled_weights", spec("exp(w - max(w))", w=self_attr("log_w")), "C02.eff"),
    ):
        m = S.resolve(name)
        if m is None:
            raise AnalysisError(f"Samples.{name} not found")
        ev, ret = fold(repo, m, S)
        ctx.count("functions_folded")
        got = T.strip_raise(ret)
        ctx.decide(got == want, rule, m.ident, loc_of(m),
                   f"{name} == {T.show(want)}", f"{name} is {T.show(got)[:300]} ; expected {T.show(want)}")

    # ---- rejection sampling
    m = S.resolve("rejection_sample")
    if m is None:
        raise AnalysisError("Samples.rejection_sample not found")
    ev, ret = fold(repo, m, S)
    ctx.count("functions_folded")
    news = [e for e in ev.events if e.callee.startswith("new:") and e.depth == 0]
    if len(news) != 1:
        ctx.unknown("C02.rej", m.ident, loc_of(m), f"expected one constructed result, found {len(news)}")
    else:
        kw = dict(news[0].kwargs)
        xs = kw.get("x") or (news[0].args[0] if news[0].args else None)
        if xs is None or xs[0] != "s" or xs[1] != self_attr("x"):
            ctx.refute("C02.rej", m.ident, loc_of(m, news[0].node), f"kept coordinates are {T.show(xs)[:120]}, not self.x[mask]")
        else:
            mask = xs[2]
            lw = self_attr("log_w")
            shifted_lw = spec("w - max(w)", w=lw)
            ok, why = False, f"mask is {T.show(mask)[:300]}"

            def alternatives(t):
                """t with every embedded phi resolved to one of its branches (all combinations)."""
                ph = next((x for x in T.subterms(t) if x and x[0] == "phi"), None)
                if ph is None:
                    yield t
                    return
                for br in (ph[2], ph[3]):
                    yield from alternatives(T.substitute(t, {ph: br}))

            def uniform_ok(u):
                """u is one U[0,1) draw per sample: rng.uniform(size=N) / xp.rand(N) / rng.random(N)"""
                if not (u is not None and u[0] == "f"):
                    return False, f"{T.show(u)[:80] if u else None} is not a uniform draw"
                name = u[1].rsplit(".", 1)[-1].replace("method:", "")
                ukw = dict(u[3])
                pos = [a for a in u[2] if a != T.atom("rng") and not (a[0] == "attr" and a[2] in ("xp",)) and a[0] != "ref" and not (a[0] == "a" and a[1] in ("rng", "xp"))]
                if name == "uniform":
                    size = ukw.get("size")
                    lo, hi = ukw.get("low"), ukw.get("high")
                    if size not in (N, ("t", (N,))):
                        return False, f"uniform draw has size {T.show(size) if size else None}, expected one per sample"
                    if not ((lo is None or lo == T.ZERO) and (hi is None or hi == T.ONE) and len(u[2]) <= 1):
                        return False, f"uniform draw has bounds {T.show(u)[:120]}"
                    return True, ""
                if name in ("rand", "random", "random_sample"):
                    size = ukw.get("size") or (pos[-1] if pos else None)
                    if size not in (N, ("t", (N,))):
                        return False, f"uniform draw has size {T.show(size) if size else None}, expected one per sample"
                    return True, ""
                return False, f"{T.show(u)[:80]} is not a recognised U[0,1) draw"

            if mask[0] == "cmp" and mask[1] in (">", ">=") and len(mask) == 3:
                alts = list(alternatives(mask[2]))
                results = []
                for alt in alts:
                    r = T.sub(shifted_lw, alt)  # must be log(U)
                    r2 = T.sub(spec("exp(w - max(w))", w=lw), alt)  # or U itself
                    good, msg = False, f"mask is {T.show(('cmp', mask[1], alt))[:200]}"
                    for cand, form in ((r, "log"), (r2, "lin")):
                        u = None
                        if form == "log" and cand[0] == "f" and cand[1] == "log" and cand[2]:
                            u = cand[2][0]
                        elif form == "lin" and cand[0] == "f":
                            u = cand
                        if u is not None:
                            g, mm = uniform_ok(u)
                            if g:
                                good, msg = True, f"keep iff log_w - max(log_w) {mask[1]} log U, U = {T.show(u)[:80]}"
                                break
                            msg = mm
                    results.append((good, msg))
                ok = bool(results) and all(g for g, _ in results)
                why = "; ".join(dict.fromkeys(mm for g, mm in results if g == ok))[:400]
            ctx.decide(ok, "C02.rej", m.ident, loc_of(m, news[0].node), why,
                       f"rejection mask is not (log_w - max(log_w) > log U): {why}")
            flds = {k: v for k, v in kw.items() if k in ("log_likelihood", "log_prior", "log_q")}
            bad = [k for k, v in flds.items() if T.strip_raise(v) != ("s", self_attr(k), mask)]
            bad += [f"{k} (dropped)" for k in ("log_likelihood", "log_prior") if k not in flds]
            ctx.decide(not bad, "C02.rejidx", m.ident, loc_of(m, news[0].node),
                       f"kept fields {sorted(flds)} are indexed by the same mask as x",
                       f"field(s) {bad} not indexed by the acceptance mask of x")


    when_rule(ctx)
    # ---- nothing in the sample classes updates stored weights / densities in place (a shifted log_w is no longer L + P - Q)
    from ..report import reuse
    from . import c08, c10
    reuse(ctx, lambda c: c10.own_rule(c, only_module="aspire.samples", fields=("log_w", "weights", "log_likelihood", "log_prior", "log_q")), ("C10.own",), "C02own",
          "ownership rule shared with C10: an in-place update through an alias of self.log_w / a density field changes the stored value")
    # ---- the SMC evidence is rebuilt from the recorded per-step series: it keeps the requested float width only if the series does
    from . import c15
    reuse(ctx, c15.evidence_dtype_rule, ("C15.evid",), "C02smc", "precision rule shared with C15: per-step ratios narrowed to Python floats come back in the namespace's default width "
          "(float32 under torch), so the returned log-evidence and its error are not accurate to the requested float64")
    # ---- the weight functionals are computed with the set's own array namespace: math.exp / math.log on a field of the set turn an overflow into an exception
    #      (math.exp(x) raises OverflowError above 709.78 where xp.exp gives inf) and narrow the value to a Python float of the platform's width
    import ast as _ast
    from ..model import walk_no_nested as _wnn
    bad_math = []
    n_math = 0
    for f_ in repo.all_functions():
        if not f_.ident.startswith("aspire.samples:") or not f_.params:
            continue
        me_ = f_.params[0]
        for n_ in _wnn(f_.node):
            if isinstance(n_, _ast.Call) and isinstance(n_.func, _ast.Attribute) and isinstance(n_.func.value, _ast.Name) and n_.func.value.id == "math" and n_.func.attr in ("exp", "expm1", "pow"):
                n_math += 1
                if any(isinstance(x_, _ast.Attribute) and isinstance(x_.value, _ast.Name) and x_.value.id == me_ for a_ in n_.args for x_ in _ast.walk(a_)):
                    bad_math.append((f_, n_))
    ctx.count("python_math_exponentials_in_the_sample_classes", n_math)
    ctx.decide(not bad_math, "C02.ovf", "aspire.samples", loc_of(bad_math[0][0], bad_math[0][1]) if bad_math else "src/aspire/samples.py",
               "no Python-math exponential is applied to a field of a sample set",
               (f"{bad_math[0][0].ident} applies `{_ast.unparse(bad_math[0][1])[:50]}` to a stored field: Python's math.exp raises OverflowError above 709.78 where the array exp returns inf, "
                "so building a weighted set whose log-evidence exceeds that -- a constant added to the log-likelihood is enough -- raises instead of giving log-evidence, relative error and ESS") if bad_math else "",
               disc="python-math")
    # ---- what concatenate() returns for a weighted set carries the evidence its constructor just computed from the joined weights: nothing in the
    #      concatenate that Samples resolves to writes log_evidence / log_w / weights on the result afterwards (selections of one parent share the parent's
    #      log_evidence by design of __getitem__, so "copy what the inputs agree on" stamps the parent's value on a set with other members)
    S_ = repo.cls("aspire.samples:Samples")
    cat_ = S_.resolve("concatenate")
    DERIVED = ("log_evidence", "log_evidence_error", "log_w", "weights")
    if cat_ is None:
        ctx.unknown("C02.z", S_.ident, "src/aspire/samples.py", "Samples.concatenate not found", disc="concatenate")
    else:
        chain_, seen_ = [cat_], {cat_.ident}
        # follow super().concatenate(...) through the classes of Samples' MRO
        owner_ = cat_.cls
        while owner_ is not None and any(isinstance(n_, _ast.Call) and isinstance(n_.func, _ast.Attribute) and n_.func.attr == "concatenate" and isinstance(n_.func.value, _ast.Call)
                                         and isinstance(n_.func.value.func, _ast.Name) and n_.func.value.func.id == "super" for n_ in _wnn(chain_[-1].node)):
            nxt_ = S_.resolve_after(owner_, "concatenate")
            if nxt_ is None or nxt_.ident in seen_:
                break
            chain_.append(nxt_)
            seen_.add(nxt_.ident)
            owner_ = nxt_.cls
        bad_cat = []
        for f_ in chain_:
            for n_ in _wnn(f_.node):
                if isinstance(n_, (_ast.Assign, _ast.AugAssign, _ast.AnnAssign)):
                    for t_ in (n_.targets if isinstance(n_, _ast.Assign) else [n_.target]):
                        if isinstance(t_, _ast.Attribute) and t_.attr in DERIVED:
                            bad_cat.append((f_, n_, t_.attr))
                if isinstance(n_, _ast.Call) and isinstance(n_.func, _ast.Name) and n_.func.id == "setattr" and len(n_.args) == 3:
                    k_ = n_.args[1]
                    if not isinstance(k_, _ast.Constant) or k_.value in DERIVED:
                        bad_cat.append((f_, n_, k_.value if isinstance(k_, _ast.Constant) else f"<{_ast.unparse(k_)}>"))
        ctx.count("concatenate_bodies_checked_for_Samples", len(chain_))
        ctx.decide(not bad_cat, "C02.z", S_.ident, loc_of(bad_cat[0][0], bad_cat[0][1]) if bad_cat else loc_of(cat_),
                   f"the set Samples.concatenate() returns keeps the log-evidence its constructor computed from the joined weights ({', '.join(f.ident.split(':')[1] for f in chain_)} write none of {list(DERIVED)})",
                   (f"{bad_cat[0][0].ident.split(':')[1]} writes {bad_cat[0][2]} on the set it returns after the constructor has computed the weights of the joined set: "
                    "for selections of one parent (which all carry the parent's log_evidence) the result reports the parent's evidence, not the log of the mean of its own weights") if bad_cat else "",
                   disc="concatenate")
    # ---- derived weight quantities are functions of the current log-weights: nothing computed from log_w is cached across a recomputation
    from . import cachecoh
    cachecoh.rule(ctx, "C02.stale", ("aspire.samples",), "a weight-derived value (scaled weights, efficiency, ESS) read after compute_weights() still belongs to the previous log-weights")
    # ---- the three densities a weight is computed from are those of the same draw: the initial population is built row-aligned
    reuse(ctx, c10.init_rule, ("C10.init",), "C02init", "pairing rule shared with C10: log_w[i] = L + P - Q needs log_q[i] to be the proposal density of x[i]; a population whose "
          "coordinates are filtered by the prior mask while log_q is only truncated carries another draw's log_q in row i",
          only=lambda f: not f.key.endswith("tested-is-stored"))
    # ---- values returned by a pool-mapped likelihood / prior belong to the rows they were computed for
    reuse(ctx, c10.pool_rule, ("C10.pool",), "C02pool", "pool rule shared with C10: with an unordered map the log-likelihood stored in row i is that of another sample, so log_w[i] is not L + P - Q of sample i")
    # ---- the same functional on SMC populations: the step's evidence ratio is the log of the mean incremental weight
    from . import c11 as _c11
    reuse(ctx, _c11.run, ("C11.snapshot",), "C02ckpt", "snapshot rule shared with C11: the SMC log-evidence is the sum of the recorded ratios; a checkpoint that shares the live series with the running "
          "sampler makes a run resumed from it add the ratios of the iterations it repeats a second time")
    reuse(ctx, c08.run, ("C08.ratio", "C08.var", "C08.sum"), "C02smc", "identity shared with C08: log of the mean (incremental) weight over all N particles, summed over the steps of this run only "
          "(a constant added to the log-likelihood then shifts the reported log-evidence by exactly that constant)")


def _set_on_every_path(v):
    """True when *v* is not the literal None (never stored) on any path."""
    def walk(t, nonnull):
        if t is None or t == T.NONE:
            return False
        if t[0] == "phi":
            c = t[1]
            nn_t, nn_f = set(nonnull), set(nonnull)
            if c[0] == "is" and c[2] == T.NONE:
                nn_f.add(c[1])
            if c[0] == "not" and c[1][0] == "is" and c[1][2] == T.NONE:
                nn_t.add(c[1][1])
            return walk(t[2], nn_t) and walk(t[3], nn_f)
        return True  # a caller-supplied value: None there fails loudly in the arithmetic, it cannot give silently wrong weights
    return walk(v, set())


def when_rule(ctx):
    """C02.when: outside the sample classes, weights are computed on a set only
    after its three log-densities have been stored, they are not overwritten
    afterwards, and the importance sampler returns the weighted set."""
    import ast as _ast
    from ..evalr import Evaluator
    from ..model import walk_no_nested
    repo = ctx.repo
    CW = "aspire.samples:Samples.compute_weights"
    sites = []
    for f in repo.all_functions():
        if f.ident.split(":")[0].endswith(".samples"):
            continue
        if any(isinstance(n, _ast.Call) and isinstance(n.func, _ast.Attribute) and n.func.attr == "compute_weights" for n in walk_no_nested(f.node)):
            sites.append(f)
    ctx.floor("functions calling compute_weights", len(sites), 3)
    for f in sites:
        ev = Evaluator(repo, max_depth=2, no_inline={CW})
        ret = T.strip_raise(ev.run(f, f.cls))
        ctx.count("functions_folded")
        calls = [e for e in ev.events if e.func is f and e.depth == 0 and e.callee == CW]
        if not calls:
            ctx.unknown("C02.when", f.ident, loc_of(f), "compute_weights call not resolved")
            continue
        for i, e in enumerate(calls):
            o = e.receiver
            sn = (e.snap or {}).get(o, {})
            unset = [k for k in ("log_likelihood", "log_prior", "log_q") if not _set_on_every_path(sn.get(k))]
            def final(k):
                v = ev.heap.get((o, k))
                for c in e.conds:  # the value at exit on the paths that made the call
                    v = T.select(v, c[0], c[1])
                return v
            late = [k for k in ("log_likelihood", "log_prior", "log_q", "x") if final(k) != sn.get(k)]
            ctx.decide(not unset and not late, "C02.when", f.ident, loc_of(f, e.node),
                       "weights are computed after log_likelihood, log_prior and log_q of that set are stored, and none of them changes afterwards",
                       (f"compute_weights() runs while {unset} may still be unset" if unset else f"{late} of the set are overwritten after its weights were computed (stale weights)"),
                       disc=str(i))
    try:
        f = repo.func("aspire.samplers.importance:ImportanceSampler.sample")
    except AnalysisError:
        f = None
    if f is not None:
        ev = Evaluator(repo, max_depth=2, no_inline={CW})
        ret = T.strip_raise(ev.run(f, f.cls))
        calls = [e for e in ev.events if e.func is f and e.depth == 0 and e.callee == CW and not e.conds]
        ctx.decide(any(e.receiver == ret for e in calls), "C02.when", f.ident, loc_of(f), "the importance sampler returns the set whose weights it computed",
                   "the set returned by the importance sampler is not one on which compute_weights() was called unconditionally: it carries no weights / evidence / ESS", disc="returned")


# ------------------------------------------------------------ self-validation
_S = "src/aspire/samples.py"
_U = "src/aspire/utils.py"
_I = "src/aspire/samplers/importance.py"
MUTANTS = [
    M("rejection sampling shifts the stored log-weights in place", _S, "log_w = self.log_w - self.xp.max(self.log_w)\n        accept = log_w > log_u", "log_w = self.log_w\n        log_w -= self.xp.max(log_w)\n        accept = log_w > log_u", "C02own"),
    M("importance: weights never computed", _I, "samples.compute_weights()\n", "", "C02.when"),
    M("importance: weights before the likelihood", _I, "samples.log_likelihood = samples.array_to_namespace(\n            self.log_likelihood(samples)\n        )\n        samples.compute_weights()",
      "samples.log_likelihood = samples.xp.zeros(len(samples.x))\n        samples.compute_weights()\n        samples.log_likelihood = samples.array_to_namespace(\n            self.log_likelihood(samples)\n        )", "C02.when"),
    M("convert_to_samples: likelihood replaced after the weights", "src/aspire/aspire.py", "samples.compute_weights()\n        return samples", "samples.compute_weights()\n            samples.log_likelihood = samples.log_likelihood - samples.xp.max(samples.log_likelihood)\n        return samples", "C02.when"),
    M("log_w sign of prior flipped", _S, "self.log_w = self.log_likelihood + self.log_prior - self.log_q",
      "self.log_w = self.log_likelihood - self.log_prior - self.log_q", "C02.w"),
    M("log_w drops proposal", _S, "self.log_w = self.log_likelihood + self.log_prior - self.log_q",
      "self.log_w = self.log_likelihood + self.log_prior", "C02.w"),
    M("evidence drops -log N", _S, "self.log_evidence = asarray(logsumexp(self.log_w), self.xp) - math.log( len(self.x) )",
      "self.log_evidence = asarray(logsumexp(self.log_w), self.xp)", "C02.z"),
    M("evidence uses N-1", _S, "self.log_evidence = asarray(logsumexp(self.log_w), self.xp) - math.log( len(self.x) )",
      "self.log_evidence = asarray(logsumexp(self.log_w), self.xp) - math.log(len(self.x) - 1)", "C02.z"),
    M("ESS mis-scaled", _S, "asarray(logsumexp(log_w) * 2 - logsumexp(log_w * 2), self.xp)",
      "asarray(logsumexp(log_w) * 2 - logsumexp(log_w) * 2, self.xp)", "C02.ess"),
    M("ESS of selection uses unselected weights", _S, "log_w = sliced.log_w - sliced.xp.max(sliced.log_w)",
      "log_w = self.log_w - sliced.xp.max(self.log_w)", "C02.ess"),
    M("ESS helper wrong power", _U, "return xp.exp(xp.asarray(logsumexp(log_w) * 2 - logsumexp(log_w * 2)))",
      "return xp.exp(xp.asarray(logsumexp(log_w) * 2 - logsumexp(log_w * 3)))", "C02.ess"),
    M("logsumexp unshifted", _U, "return c + xp.log(xp.sum(xp.exp(x - c), axis=axis))",
      "return xp.log(xp.sum(xp.exp(x), axis=axis))", "C02.lse"),
    M("logsumexp shift not added back", _U, "return c + xp.log(xp.sum(xp.exp(x - c), axis=axis))",
      "return xp.log(xp.sum(xp.exp(x - c), axis=axis))", "C02.lse"),
    M("logsumexp shift by mean", _U, "c = x.max()", "c = x.mean()", "C02.lse", within="logsumexp"),
    M("efficiency divides by N-1", _S, "return self.effective_sample_size / len(self.x)",
      "return self.effective_sample_size / (len(self.x) - 1)", "C02.eff"),
    M("scaled weights unshifted", _S, "return self.xp.exp(self.log_w - self.xp.max(self.log_w))",
      "return self.xp.exp(self.log_w)", "C02.eff"),
    M("rejection uniforms of the wrong size on torch", _S, "log_u = asarray(\n            np.log(rng.uniform(size=len(self.x))), self.xp, device=self.device\n        )",
      "if self.device is not None:\n            log_u = self.xp.log(self.xp.rand(1))\n        else:\n            log_u = asarray(np.log(rng.uniform(size=len(self.x))), self.xp, device=self.device)", "C02.rej"),
    M("rejection compares the wrong way", _S, "accept = log_w > log_u", "accept = log_w < log_u", "C02.rej"),
    M("rejection without max shift", _S, "log_w = self.log_w - self.xp.max(self.log_w) accept = log_w > log_u",
      "log_w = self.log_w\n        accept = log_w > log_u", "C02.rej"),
    M("rejection one uniform for all", _S, "np.log(rng.uniform(size=len(self.x)))", "np.log(rng.uniform(size=1))", "C02.rej"),
    M("rejection field misaligned", _S, "log_prior=self.log_prior[accept], dtype=self.dtype",
      "log_prior=self.log_prior[~accept], dtype=self.dtype", "C02.rejidx"),
    M("evidence via cumulative op", _S, "self.log_w = self.log_likelihood + self.log_prior - self.log_q",
      "self.log_w = self.xp.cumsum(self.log_likelihood) + self.log_prior - self.log_q", ("C02.sym", "C02.w")),
    M("relative error via unshifted exp", _S, "self.effective_sample_size = self.xp.exp( asarray(logsumexp(log_w) * 2 - logsumexp(log_w * 2), self.xp) )",
      "self.effective_sample_size = self.xp.sum(self.xp.exp(self.log_w)) ** 2 / self.xp.sum(self.xp.exp(self.log_w) ** 2)",
      "C02.ovf", within="Samples.compute_weights"),
]
MUTANTS += [
    M("per-step evidence ratios narrowed to Python floats", "src/aspire/samplers/smc/base.py", "log_evidence_ratio = samples.log_evidence_ratio(beta)", "log_evidence_ratio = float(samples.log_evidence_ratio(beta))", "C02smc.evid"),
    M("pool map returns results in completion order", "src/aspire/utils.py", "self.original_log_likelihood, map_fn=self.pool.map", "self.original_log_likelihood, map_fn=self.pool.imap_unordered", "C02pool"),
    M("SMC history created once per sampler object: a second run sums both runs' ratios", "src/aspire/samplers/smc/base.py", "iterations = 0\n            self.history = SMCHistory()", "iterations = 0", "C02smc.sum"),
    M("ESS from unshifted log-weights via the helper", _S, "log_w = self.log_w - self.xp.max(self.log_w)\n        self.effective_sample_size = self.xp.exp(\n            asarray(logsumexp(log_w) * 2 - logsumexp(log_w * 2), self.xp)\n        )",
      "self.effective_sample_size = self.xp.exp(\n            asarray(logsumexp(self.log_w) * 2 - logsumexp(self.log_w * 2), self.xp)\n        )", "C02.cancel"),
    M("ESS helper in the plain Kish form", _U, "return xp.exp(xp.asarray(logsumexp(log_w) * 2 - logsumexp(log_w * 2)))", "w = xp.exp(log_w)\n    return xp.sum(w) ** 2 / xp.sum(w**2)", "C02.ovf"),
    M("weights of the squared log-weight", _S, "self.weights = self.xp.exp(self.log_w)", "self.weights = self.xp.exp(2 * self.log_w)", "C02.derived"),
    M("evidence error divides by N squared", _S, "self.xp.sum((self.weights - self.evidence) ** 2) / (n * (n - 1))", "self.xp.sum((self.weights - self.evidence) ** 2) / (n * n)", "C02.derived"),
    M("relative error without centring", _S, "self.xp.sum((rel_w - 1.0) ** 2) / (n * (n - 1))", "self.xp.sum(rel_w ** 2) / (n * (n - 1))", "C02.derived"),
    M("rejection sample drops the likelihood", _S, "log_likelihood=self.log_likelihood[accept],\n            log_prior=self.log_prior[accept],\n            dtype=self.dtype,", "log_prior=self.log_prior[accept],\n            dtype=self.dtype,", "C02.rejidx"),
    M("logsumexp ignores axis", _U, "return c + xp.log(xp.sum(xp.exp(x - c), axis=axis))", "return c + xp.log(xp.sum(xp.exp(x - c)))", "C02.lse"),
]
MUTANTS += [
    M("initial population keeps the proposal density of a different draw", "src/aspire/samplers/mcmc.py", "x, log_q = self.prior_flow.sample_and_log_prob(n_samples)",
      "x, _ = self.prior_flow.sample_and_log_prob(n_samples)\n            _, log_q = self.prior_flow.sample_and_log_prob(n_samples)", "C02init.init"),
]
MUTANTS += [
    M("concatenate copies the evidence the inputs agree on", "src/aspire/samples.py", "xp = samples[0].xp\n        return cls(\n            x=xp.concatenate([s.x for s in samples], axis=0),", "xp = samples[0].xp\n        out = cls(\n            x=xp.concatenate([s.x for s in samples], axis=0),", "C02.z",
      more=[("parameters=samples[0].parameters,\n            dtype=samples[0].dtype,\n        )\n\n    @classmethod\n    def from_samples(", "parameters=samples[0].parameters,\n            dtype=samples[0].dtype,\n        )\n        first = samples[0]\n        if getattr(first, \"log_evidence\", None) is not None and all(s.log_evidence == first.log_evidence for s in samples):\n            out.log_evidence = first.log_evidence\n        return out\n\n    @classmethod\n    def from_samples(")]),
    M("scaled weights cached on first use", "src/aspire/samples.py", "@property\n    def scaled_weights(self):", "@cached_property\n    def scaled_weights(self):", "C02.stale",
      more=[("import math\n", "import math\nfrom functools import cached_property\n")]),
]
MUTANTS += [
    M("linear evidence computed with math.exp", "src/aspire/samples.py", "self.evidence = self.xp.exp(self.log_evidence)", "self.evidence = math.exp(self.log_evidence)", "C02.ovf"),
]
NEUTRALS = [
    M("weight initialisation moved into a helper", _S, "super().__post_init__()\n\n        if all(", "super().__post_init__()\n        self._init_weights()\n\n    def _init_weights(self):\n        if all(", within="Samples"),
    M("rejection uniforms drawn on the device for torch", _S, "log_u = asarray(\n            np.log(rng.uniform(size=len(self.x))), self.xp, device=self.device\n        )",
      "if self.device is not None:\n            log_u = self.xp.log(self.xp.rand(len(self.x), device=self.device))\n        else:\n            log_u = asarray(np.log(rng.uniform(size=len(self.x))), self.xp, device=self.device)"),
    M("evidence with the -log N inside the logsumexp", _S, "self.log_evidence = asarray(logsumexp(self.log_w), self.xp) - math.log(\n            len(self.x)\n        )", "self.log_evidence = asarray(logsumexp(self.log_w - math.log(len(self.x))), self.xp)"),
    M("ESS via normalised weights", _S, "self.effective_sample_size = self.xp.exp(\n            asarray(logsumexp(log_w) * 2 - logsumexp(log_w * 2), self.xp)\n        )", "wn = self.xp.exp(log_w - logsumexp(log_w))\n        self.effective_sample_size = 1 / self.xp.sum(wn**2)", within="Samples.compute_weights"),
    M("log_w operands reordered", _S, "self.log_w = self.log_likelihood + self.log_prior - self.log_q",
      "self.log_w = -self.log_q + self.log_prior + self.log_likelihood"),
    M("evidence via temporary", _S, "self.log_evidence = asarray(logsumexp(self.log_w), self.xp) - math.log( len(self.x) )",
      "lz = logsumexp(self.log_w)\n        self.log_evidence = asarray(lz, self.xp) - math.log(len(self))"),
    M("ESS factor order", _S, "asarray(logsumexp(log_w) * 2 - logsumexp(log_w * 2), self.xp)",
      "asarray(2 * logsumexp(log_w) - logsumexp(2 * log_w), self.xp)", within="Samples.compute_weights"),
    M("logsumexp via xp.max", _U, "c = x.max()", "c = xp.max(x)", within="logsumexp"),
    M("rejection mirrored comparison", _S, "accept = log_w > log_u", "accept = log_u < log_w"),
    M("scaled weights via temporary", _S, "return self.xp.exp(self.log_w - self.xp.max(self.log_w))",
      "m = self.log_w.max()\n        return self.xp.exp(self.log_w - m)"),
]

# functions the property is anchored in (auto-mutant sweep of the thorough tier)
ANCHORS = [
    'aspire.samples:Samples.compute_weights',
    'aspire.samples:Samples.__getitem__',
    'aspire.samples:Samples.efficiency',
    'aspire.samples:Samples.scaled_weights',
    'aspire.samples:Samples.rejection_sample',
    'aspire.utils:logsumexp',
    'aspire.utils:effective_sample_size',
]

MUTANTS += [
    M("checkpoint holds a shallow copy of the history", "src/aspire/samplers/smc/base.py", "copy.deepcopy(self.history)", "copy.copy(self.history)", "C02ckpt.snapshot", within="SMCSampler._checkpoint_extra_state"),
]
