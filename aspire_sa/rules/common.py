"""Helpers shared by the rule modules."""

from __future__ import annotations

import ast

from .. import AnalysisError
from .. import terms as T
from ..evalr import Evaluator, lse
from ..model import ClassInfo, FuncInfo, Repo, walk_no_nested

SELF = T.atom("self")


def fold(repo: Repo, f: FuncInfo, concrete: ClassInfo | None = None, args: dict | None = None, ev=None, **opts):
    """Fold function *f* (as a method of *concrete*) into terms.
    Returns (evaluator, return term).  Passing an existing evaluator keeps its
    heap, so methods can be folded in sequence on one abstract object."""
    if ev is None:
        ev = Evaluator(repo, **opts)
    ret = ev.run(f, concrete or f.cls, args=args)
    return ev, ret


def fold_method(repo: Repo, cls_ident: str, name: str, args: dict | None = None, **opts):
    c = repo.cls(cls_ident)
    f = c.resolve(name)
    if f is None:
        raise AnalysisError(f"method {name} not found on {cls_ident}")
    ev, ret = fold(repo, f, c, args, **opts)
    return ev, ret, f


def self_attr(name: str):
    return ("attr", SELF, name)


def loc_of(f: FuncInfo, node: ast.AST | None = None) -> str:
    line = getattr(node, "lineno", None) or f.node.lineno
    return f"{f.module.relpath}:{line}"


def apps(term, fname: str):
    for t in T.subterms(term):
        if t and t[0] == "f" and t[1] == fname:
            yield t


def exp_args(term):
    return [t[2][0] for t in apps(term, "exp") if t[2]]


def max_args(term):
    return [t[2][0] for t in apps(term, "max") if t[2]]


from ..evalr import SCALAR_REDUCTIONS, is_scalar  # noqa: E402,F401


def shift_weight(t, shifted: dict):
    """d/dc of term *t* when each atom in *shifted* (term -> weight) is shifted
    by weight*c uniformly across the sample axis.  Returns a Fraction, or None
    when the term is not shift-linear."""
    from fractions import Fraction

    if t in shifted:
        return Fraction(shifted[t])
    if T.is_poly(t):
        tot = Fraction(0)
        for m, c in t[1]:
            if m == ():
                continue
            ws = []
            for b, e in m:
                w = shift_weight(b, shifted)
                if w is None:
                    return None
                ws.append((w, e))
            nz = [(w, e) for w, e in ws if w != 0]
            if not nz:
                continue
            if len(m) == 1 and m[0][1] == 1:
                tot += c * nz[0][0]
            else:
                # a product / power involving a shifted factor is not shift-linear
                return None
        return tot
    k = t[0]
    if k == "f":
        name, args = t[1], t[2]
        if name in ("max", "min", "mean") and args:
            return shift_weight(args[0], shifted)
        if name == "log" and args and args[0][0] == "f" and args[0][1] in ("sum", "mean") and args[0][2]:
            inner = args[0][2][0]
            if inner[0] == "f" and inner[1] == "exp":
                return shift_weight(inner[2][0], shifted)
            return None
        if name in ("len",):
            return Fraction(0)
        if name == "log" and args and is_scalar(args[0]) and not any(x in shifted for x in T.subterms(args[0])):
            return Fraction(0)
        ws = [shift_weight(a, shifted) for a in args]
        if all(w == 0 for w in ws):
            return Fraction(0)
        return None
    if k == "s":
        return shift_weight(t[1], shifted)
    if k in ("a", "attr", "k", "obj", "ref", "opaque", "u"):
        return Fraction(0)
    return None


def exp_is_bounded(arg, shifted: dict | None = None) -> tuple:
    """Classify exp(arg).  ('bounded', why) / ('unbounded', why) / ('unknown', why)."""
    # vector-valued: v - max(v)  (<= 0)
    for v in max_args(arg):
        if T.add(arg, T.app("max", v)) == v:
            return ("bounded", f"{T.show(v)} - max(.) <= 0")
        rest = T.add(T.sub(arg, v), lse(v))
        if is_scalar(rest):
            sw = shift_weight(rest, shifted or {})
            if sw == 0:
                return ("bounded", "v - LSE(v) + shift-free scalar <= scalar")
        # 2v - max(2v) etc. are covered by the first test with v' = k*v
    if is_scalar(arg):
        if shifted is not None:
            sw = shift_weight(arg, shifted)
            if sw is None:
                return ("unknown", "scalar exponent is not shift-linear")
            if sw != 0:
                return ("unbounded", f"scalar exponent moves by {sw}*c when log-densities shift by c")
        return ("bounded", "shift-invariant scalar exponent")
    if shifted is not None:
        sw = shift_weight(arg, shifted)
        if sw is not None and sw != 0:
            return ("unbounded", f"exponent moves by {sw}*c when log-densities shift by c (no max/LSE shift applied)")
        if sw is None:
            return ("unknown", "exponent is not shift-linear")
    return ("unknown", "exponent has no max/LSE shift")


INDEX_DEPENDENT = {"cumsum", "argsort", "sort", "argmax", "arange", "linspace", "elem"}


def index_dependent_ops(term) -> list:
    out = []
    for t in T.subterms(term):
        if t and t[0] == "f" and t[1] in INDEX_DEPENDENT:
            out.append(t[1])
        if t and t[0] == "s":
            out.append(f"subscript {T.show(t)[:60]}")
    return out


def method_stores(f: FuncInfo) -> set:
    """self attributes stored directly in the body of method *f*."""
    me = f.params[0] if f.params else None
    out = set()
    for n in walk_no_nested(f.node):
        if isinstance(n, ast.Attribute) and isinstance(n.ctx, ast.Store) and isinstance(n.value, ast.Name) and n.value.id == me:
            out.add(n.attr)
    return out


def store_node(ev: Evaluator, obj, attr):
    for o, a, v, node, func, _seq in reversed(ev.stores):
        if o == obj and a == attr:
            return node, func
    return None, None


def flat_conds(conds) -> set:
    """A path condition as a set of (atomic condition, polarity): leading `not`s are
    folded into the polarity, a true conjunction and a false disjunction are split
    into their parts (De Morgan), comparisons are oriented (`!=` true == `==` false)."""
    out = set()
    for c, pol in conds:
        while c[0] == "not":
            c, pol = c[1], not pol
        if c[0] == "and" and pol:
            out |= flat_conds([(x, True) for x in c[1]])
        elif c[0] == "or" and not pol:
            out |= flat_conds([(x, False) for x in c[1]])
        elif c[0] == "cmp" and c[1] == "!=":
            out.add((("cmp", "==") + tuple(c[2:]), not pol))
        else:
            out.add((c, pol))
    return out


IMMEDIATE_CONSUMERS = {"sorted", "min", "max", "sort", "reduce", "next", "sum", "any", "all"}


def late_bound_closures(f: FuncInfo) -> list:
    """[(closure node, loop node, variable)]: a lambda / nested def created inside a loop body that reads a variable the loop
    assigns (its target, or a name assigned in the body) as a *free* variable.  Python binds free variables late: once the
    loop has moved on, every closure created in it sees the value of the last iteration.  Closures that are called or consumed
    inside the same iteration (direct call, key= of sorted/min/max ...) and closures that capture the value through a default
    argument (`lambda x=x: ...`) are not reported."""
    out = []
    parents = {ch: pa for pa in ast.walk(f.node) for ch in ast.iter_child_nodes(pa)}
    for L in ast.walk(f.node):
        if not isinstance(L, (ast.For, ast.While, ast.AsyncFor)):
            continue
        loopvars = set()
        if not isinstance(L, ast.While):
            loopvars |= {n.id for n in ast.walk(L.target) if isinstance(n, ast.Name)}
        for st in L.body:
            for n in ast.walk(st):
                if isinstance(n, ast.Name) and isinstance(n.ctx, ast.Store):
                    loopvars.add(n.id)
                elif isinstance(n, (ast.FunctionDef, ast.AsyncFunctionDef)):
                    loopvars.add(n.name)
        for st in L.body:
            for c in ast.walk(st):
                if not isinstance(c, (ast.Lambda, ast.FunctionDef, ast.AsyncFunctionDef)):
                    continue
                a = c.args
                own = {x.arg for x in a.posonlyargs + a.args + a.kwonlyargs} | ({a.vararg.arg} if a.vararg else set()) | ({a.kwarg.arg} if a.kwarg else set())
                body = [c.body] if isinstance(c, ast.Lambda) else c.body
                bound = own | {n.id for b in body for n in ast.walk(b) if isinstance(n, ast.Name) and isinstance(n.ctx, ast.Store)}
                free = {n.id for b in body for n in ast.walk(b) if isinstance(n, ast.Name) and isinstance(n.ctx, ast.Load)} - bound
                hit = sorted(free & loopvars - ({c.name} if not isinstance(c, ast.Lambda) else set()))
                if not hit:
                    continue
                pa = parents.get(c)
                if isinstance(pa, ast.Call) and pa.func is c:
                    continue  # (lambda: ...)() -- called on the spot
                if isinstance(pa, ast.keyword) and pa.arg == "key":
                    continue
                if isinstance(pa, ast.Call) and c in pa.args and (getattr(pa.func, "id", None) or getattr(pa.func, "attr", None)) in IMMEDIATE_CONSUMERS:
                    continue
                out.append((c, L, hit[0]))
    return out


def numeric_or_defaults(f: FuncInfo) -> list:
    """[(node, text)]: `x or c` where c is a non-zero number or an infinity -- the defaulting idiom applied to a *number*:
    a legitimate value of 0 (a bound at the origin, a seed of 0, beta = 0) is replaced by the default as well.
    (`x or 0` / `x or 0.0` are harmless: the replacement equals the value.)"""
    def numeric_default(e):
        if isinstance(e, ast.UnaryOp) and isinstance(e.op, (ast.USub, ast.UAdd)):
            return numeric_default(e.operand)
        if isinstance(e, ast.Constant) and isinstance(e.value, (int, float)) and not isinstance(e.value, bool):
            return e.value != 0
        if isinstance(e, ast.Attribute) and e.attr in ("inf", "infty", "Inf", "pi", "e", "nan"):
            return True
        if isinstance(e, ast.Call) and isinstance(e.func, ast.Name) and e.func.id == "float" and e.args and isinstance(e.args[0], ast.Constant) and isinstance(e.args[0].value, str):
            return True
        return False
    out = []
    for n in walk_no_nested(f.node):
        if isinstance(n, ast.BoolOp) and isinstance(n.op, ast.Or) and len(n.values) >= 2 and numeric_default(n.values[-1]) \
                and not any(isinstance(v, (ast.Compare, ast.BoolOp)) for v in n.values[:-1]):
            out.append((n, ast.unparse(n)[:60]))
    return out


def positional_name_mismatches(repo, want=None, stats=None):
    """Calls whose *positional* arguments are plain names that spell parameters of the resolved callee at a different
    position (`f(b, a)` against `def f(a, b)`): the value lands in the slot of another parameter.

    Resolved callees only: `super().__init__(...)` / `super().m(...)` by the MRO after the calling class, `self.m(...)`,
    `Cls(...)` -> `Cls.__init__`, module-level functions through the import map.  Yields
    (caller, call node, callee, position, argument name, parameter at that position).  *want(callee)* filters callees."""
    import ast

    from ..model import walk_no_nested

    def callee_of(f, call):
        fn = call.func
        cls = f.cls
        me = f.params[0] if f.params and cls is not None else None
        if isinstance(fn, ast.Attribute):
            v = fn.value
            if isinstance(v, ast.Call) and isinstance(v.func, ast.Name) and v.func.id == "super" and cls is not None:
                return cls.resolve_after(cls, fn.attr), 1
            if isinstance(v, ast.Name) and v.id == me and cls is not None:
                return cls.resolve(fn.attr), 1
            if isinstance(v, ast.Name):
                tgt = repo.resolve_name(f.module, v.id)
                if hasattr(tgt, "resolve"):  # Cls.m(...)
                    m_ = tgt.resolve(fn.attr)
                    if m_ is not None:
                        unbound = not any(getattr(d, "id", None) in ("classmethod", "staticmethod") for d in m_.node.decorator_list)
                        return m_, (0 if unbound else (1 if any(getattr(d, "id", None) == "classmethod" for d in m_.node.decorator_list) else 0))
            return None, 0
        if isinstance(fn, ast.Name):
            tgt = repo.resolve_name(f.module, fn.id, repo.function_imports(f))
            if hasattr(tgt, "resolve"):
                return tgt.resolve("__init__"), 1
            if hasattr(tgt, "params"):
                return tgt, 0
        return None, 0

    for f in repo.all_functions():
        for call in walk_no_nested(f.node):
            if not isinstance(call, ast.Call) or not call.args or any(isinstance(a, ast.Starred) for a in call.args):
                continue
            try:
                callee, skip = callee_of(f, call)
            except Exception:  # unresolved: not judged
                continue
            if callee is None or (want is not None and not want(callee)):
                continue
            a_ = callee.node.args
            pos = [x.arg for x in a_.posonlyargs + a_.args][skip:]
            allp = set(pos) | {x.arg for x in a_.kwonlyargs}
            if stats is not None:
                stats["resolved_calls_with_positional_arguments"] = stats.get("resolved_calls_with_positional_arguments", 0) + 1
                stats["positional_name_arguments"] = stats.get("positional_name_arguments", 0) + sum(isinstance(a, ast.Name) and a.id in allp for a in call.args)
            for i, arg in enumerate(call.args):
                if not isinstance(arg, ast.Name) or i >= len(pos):
                    continue
                if arg.id in allp and pos[i] != arg.id:
                    yield f, call, callee, i, arg.id, pos[i]


def null_contradictions(cls):
    """Engler-style contradiction: an attribute that one method of *cls* compares with None (so None is a state the class expects)
    and another dereferences with no such test in force.  -> [(method FuncInfo, node, attribute name)]"""
    import ast
    from ..model import walk_no_nested

    def implies(t, attr, truth):
        """does *t* evaluating to *truth* imply self.<attr> is not None?"""
        if isinstance(t, ast.Compare) and len(t.ops) == 1 and isinstance(t.left, ast.Attribute) and isinstance(t.left.value, ast.Name) and t.left.value.id == "self" \
                and t.left.attr == attr and isinstance(t.comparators[0], ast.Constant) and t.comparators[0].value is None:
            return isinstance(t.ops[0], ast.IsNot) if truth else isinstance(t.ops[0], ast.Is)
        if isinstance(t, ast.BoolOp):
            conj = isinstance(t.op, ast.And)
            if conj == truth:  # (A and B) is true / (A or B) is false: every operand has that value
                return any(implies(v, attr, truth) for v in t.values)
            return all(implies(v, attr, truth) for v in t.values)
        if isinstance(t, ast.UnaryOp) and isinstance(t.op, ast.Not):
            return implies(t.operand, attr, not truth)
        return False

    tested = set()
    for m in cls.methods.values():
        for n in walk_no_nested(m.node):
            if isinstance(n, ast.Compare) and len(n.ops) == 1 and isinstance(n.ops[0], (ast.Is, ast.IsNot)) and isinstance(n.left, ast.Attribute) \
                    and isinstance(n.left.value, ast.Name) and n.left.value.id == "self" and isinstance(n.comparators[0], ast.Constant) and n.comparators[0].value is None:
                tested.add(n.left.attr)
    out = []
    for m in cls.methods.values():
        parents = {}
        for n in ast.walk(m.node):
            for ch in ast.iter_child_nodes(n):
                parents[ch] = n
        for n in walk_no_nested(m.node):
            if not (isinstance(n, ast.Attribute) and isinstance(n.value, ast.Attribute) and isinstance(n.value.value, ast.Name) and n.value.value.id == "self" and n.value.attr in tested):
                continue
            attr = n.value.attr
            guarded = False
            cur = n
            while cur in parents and not guarded:
                par = parents[cur]
                if isinstance(par, (ast.If, ast.IfExp)):
                    in_body = cur in par.body if isinstance(par, ast.If) else cur is par.body
                    in_else = cur in par.orelse if isinstance(par, ast.If) else cur is par.orelse
                    if (in_body and implies(par.test, attr, True)) or (in_else and implies(par.test, attr, False)):
                        guarded = True
                if isinstance(par, ast.BoolOp) and isinstance(par.op, ast.And) and cur in par.values:
                    if any(implies(v, attr, True) for v in par.values[: par.values.index(cur)]):
                        guarded = True
                if isinstance(par, ast.FunctionDef) and par is m.node:
                    # early exit: `if self.attr is None: return / raise` earlier in the function body
                    for st in m.node.body:
                        if st.lineno >= n.lineno:
                            break
                        if isinstance(st, ast.If) and implies(st.test, attr, False) and st.body and isinstance(st.body[-1], (ast.Return, ast.Raise)):
                            guarded = True
                cur = par
            if not guarded:
                out.append((m, n, attr))
    return out
