"""Shared analysis of SMCSampler.sample: the SMC loop, its events, appends.

The function is folded under *named assumptions* (fresh / resumed entry,
enlargement taken or not, sample history stored or not), which cuts the phi
trees down to one path each -- a path-sensitive view of the same code.
"""

from __future__ import annotations

import ast
from dataclasses import dataclass, field

from .. import AnalysisError
from .. import terms as T
from ..cfg import CFG, calls_in
from ..evalr import Evaluator
from ..model import walk_no_nested

SMC = "aspire.samplers.smc.base:SMCSampler"


def mentions_atom(t, name: str) -> bool:
    return any(s == ("a", name) for s in T.subterms(t))


@dataclass
class SampleFold:
    ev: Evaluator
    ret: tuple
    sample: object
    cls: object
    loop: dict | None
    loop_node: ast.AST | None
    assumptions: dict

    def in_loop(self, node) -> bool:
        ln = self.loop_node
        return ln is not None and ln.lineno <= getattr(node, "lineno", -1) <= ln.end_lineno

    def events(self, callee_suffix=None, in_loop=None, depth0=True):
        out = []
        for e in self.ev.events:
            if depth0 and (e.depth != 0 or e.func is not self.sample):
                continue
            if callee_suffix is not None and not e.callee.endswith(callee_suffix):
                continue
            if in_loop is not None and self.in_loop(e.node) != in_loop:
                continue
            out.append(e)
        return out


def find_smc_loop(sample):
    """The loop of *sample* whose body calls self.mutate."""
    for n in walk_no_nested(sample.node):
        if isinstance(n, (ast.While, ast.For)):
            for c in ast.walk(n):
                if isinstance(c, ast.Call) and isinstance(c.func, ast.Attribute) and c.func.attr == "mutate":
                    return n
    return None


@dataclass
class Roles:
    """Names of the loop-carried locals of SMCSampler.sample, found from what
    they are *used for* (never from their spelling): the temperature is what
    determine_beta's first result is bound to, the population what mutate's
    result is bound to, the counter what is incremented by one per iteration."""
    beta: str
    min_step: str
    samples: str
    iterations: str
    beta_step: str | None
    guard: str | None
    db_args: dict  # determine_beta parameter -> local name handed to it


def roles(repo) -> Roles:
    cached = repo.__dict__.get("_smc_roles")
    if cached is not None:
        return cached
    smc = repo.cls(SMC)
    sample = smc.methods.get("sample")
    if sample is None:
        raise AnalysisError("SMCSampler.sample not found")
    loop = find_smc_loop(sample)
    if loop is None:
        raise AnalysisError("the SMC loop (a loop calling self.mutate) was not found in SMCSampler.sample")
    me = sample.params[0]
    beta = min_step = samples = iterations = None
    db_args: dict = {}
    db = smc.resolve("determine_beta")

    def is_self_call(v, name):
        return isinstance(v, ast.Call) and isinstance(v.func, ast.Attribute) and v.func.attr == name and isinstance(v.func.value, ast.Name) and v.func.value.id == me
    for n in walk_no_nested(loop):
        if isinstance(n, ast.Assign) and is_self_call(n.value, "determine_beta"):
            tg = n.targets[0]
            if isinstance(tg, (ast.Tuple, ast.List)) and len(tg.elts) >= 2 and all(isinstance(x, ast.Name) for x in tg.elts[:2]):
                beta, min_step = tg.elts[0].id, tg.elts[1].id  # (new temperature, new minimum step[, extras])
            elif isinstance(tg, ast.Name):
                beta = tg.id
            params = db.params[1:] if db is not None else []
            for pn, a in zip(params, n.value.args):
                if isinstance(a, ast.Name):
                    db_args[pn] = a.id
            for k in n.value.keywords:
                if k.arg and isinstance(k.value, ast.Name):
                    db_args[k.arg] = k.value.id
        if isinstance(n, ast.Assign) and is_self_call(n.value, "mutate") and isinstance(n.targets[0], ast.Name):
            samples = n.targets[0].id
        if isinstance(n, ast.AugAssign) and isinstance(n.op, ast.Add) and isinstance(n.target, ast.Name) and isinstance(n.value, ast.Constant) and n.value.value == 1:
            iterations = n.target.id
        if isinstance(n, ast.Assign) and isinstance(n.targets[0], ast.Name) and isinstance(n.value, ast.BinOp) and isinstance(n.value.op, ast.Add) \
                and isinstance(n.value.left, ast.Name) and n.value.left.id == n.targets[0].id and isinstance(n.value.right, ast.Constant) and n.value.right.value == 1:
            iterations = n.targets[0].id
    # the population is what the temperature search is run on; binding mutate's result to it is what C08.flow checks
    samples = db_args.get("samples") or samples
    if beta is None or samples is None or iterations is None:
        raise AnalysisError(f"loop-carried roles not found in the SMC loop (temperature={beta}, population={samples}, counter={iterations})")
    guard = None
    for n in walk_no_nested(sample.node):
        if isinstance(n, ast.If) and loop in n.body and isinstance(n.test, ast.Name):
            guard = n.test.id
    r = Roles(beta, min_step or "min_step", samples, iterations, db_args.get("beta_step"), guard, db_args)
    repo.__dict__["_smc_roles"] = r
    return r


def override_forwarding(repo):
    """For every SMC sampler class that overrides sample(): which of its parameters
    that the base sample() also has are handed on to super().sample() under the same
    name.  Yields (class, override, parameter, forwarded, call node)."""
    smc = repo.cls(SMC)
    base = smc.methods.get("sample")
    base_params = base.params[1:]
    for c in repo.subclasses(smc, strict=True):
        ov = c.methods.get("sample")
        if ov is None:
            continue
        calls = [n for n in walk_no_nested(ov.node) if isinstance(n, ast.Call) and isinstance(n.func, ast.Attribute) and n.func.attr == "sample"
                 and isinstance(n.func.value, ast.Call) and isinstance(n.func.value.func, ast.Name) and n.func.value.func.id == "super"]
        if len(calls) != 1:
            yield c, ov, None, False, None
            continue
        call = calls[0]
        # the parent that super() reaches may itself be an override with fewer parameters
        parent = c.resolve_after(c, "sample") if hasattr(c, "resolve_after") else base
        parent_params = (parent.params[1:] if parent is not None else base_params)
        handed = {}
        for pn, a in zip(parent_params, call.args):
            handed[pn] = a
        for k in call.keywords:
            if k.arg is not None:
                handed[k.arg] = k.value
        splat = any(k.arg is None for k in call.keywords)
        # options swallowed by the override's own **kwargs and handed on as **kwargs: forwarded (as far as this rule goes;
        # whether the front end can still *see* them is the signature-probe rule, C12.probe)
        kwarg = ov.node.args.kwarg.arg if ov.node.args.kwarg is not None else None
        if kwarg is not None and any(k.arg is None and isinstance(k.value, ast.Name) and k.value.id == kwarg for k in call.keywords):
            for p in parent_params:
                if p not in ov.params[1:] and p not in handed:
                    yield c, ov, p, True, call
        for p in ov.params[1:]:
            if p not in parent_params:
                continue
            v = handed.get(p)
            ok = splat or (v is not None and any(isinstance(x, ast.Name) and x.id == p for x in ast.walk(v)))
            yield c, ov, p, ok, call


def forwarding_rule(ctx, rule, params, consequence):
    """Every sampler class that overrides sample() hands the named options on to the
    sample() it extends (an option accepted and silently dropped changes the run)."""
    from .common import loc_of
    n = 0
    for c, ov, p, ok, call in override_forwarding(ctx.repo):
        if p is None:
            ctx.unknown(rule, ov.ident, loc_of(ov), "expected exactly one super().sample(...) call in the override", disc="forward")
            continue
        if p not in params:
            continue
        n += 1
        ctx.decide(ok, rule, ov.ident, loc_of(ov, call), f"{c.name}.sample hands `{p}` on to the sample() it extends",
                   f"{c.name}.sample accepts `{p}` but does not hand it on to super().sample(): {consequence}", disc=f"forward|{p}")
    # the front end splits the caller's keyword arguments by the *constructor's* signature: a name the constructor accepts goes there and is removed
    # from the sampling call.  An option of sample() that is also a constructor parameter therefore never reaches sample() through sample_posterior,
    # and sample()'s own default for it is what the run uses.
    repo = ctx.repo
    smc = repo.cls(SMC)
    for c in [smc] + list(repo.subclasses(smc, strict=True)):
        ini, smp = c.resolve("__init__"), c.resolve("sample")
        if ini is None or smp is None:
            continue
        both = (set(ini.params[1:]) | {x.arg for x in ini.node.args.kwonlyargs}) & (set(smp.params[1:]) | {x.arg for x in smp.node.args.kwonlyargs}) & set(params)
        for p in sorted(both):
            ctx.refute(rule, f"{c.ident}.__init__", loc_of(ini),
                       f"`{p}` is a parameter of {c.name}.__init__ and of {c.name}.sample: sample_posterior(..., {p}=v) routes every keyword the constructor accepts to the constructor "
                       f"and drops it from the sampling call, so sample() runs with its own default for `{p}` (which it installs over the constructor's value): {consequence}",
                       disc=f"routing|{p}")
    return n


def checkpoint_closure(repo):
    """The nested function of SMCSampler.sample that builds the checkpoint payload
    (found by what it does, not by its name)."""
    sample = repo.cls(SMC).methods.get("sample")
    for f in sample.nested.values():
        for n in ast.walk(f.node):
            if isinstance(n, ast.Call) and isinstance(n.func, ast.Attribute) and n.func.attr == "build_checkpoint_state":
                return f
    return None


def fold_sample(repo, concrete=None, resumed: bool | None = False, final: bool | None = False,
                store_hist: bool | None = True, inline_mutate: bool = False, extra_no_inline=(), inline_db: bool = False):
    smc = repo.cls(SMC)
    sample = smc.methods.get("sample")
    if sample is None:
        raise AnalysisError("SMCSampler.sample not found")
    concrete = concrete or smc
    loop_node = find_smc_loop(sample)

    def assume(c):
        if resumed is not None:
            if c == ("is", T.atom("resume_from"), T.NONE):
                return not resumed
            if c == T.atom("resumed"):
                return resumed
        if final is not None and mentions_atom(c, "n_final_samples"):
            return final
        if store_hist is not None and c == T.atom("store_sample_history"):
            return store_hist
        return None

    no_inline = {f"{SMC}.determine_beta", f"{SMC}.restore_from_checkpoint",
                 "aspire.samplers.mcmc:MCMCSampler.draw_initial_samples",
                 "aspire.samplers.base:Sampler.default_file_checkpoint_callback",
                 "aspire.samplers.base:Sampler.fit_preconditioning_transform",
                 "aspire.utils:effective_sample_size"} | set(extra_no_inline)
    if inline_db:
        no_inline.discard(f"{SMC}.determine_beta")
    mu = concrete.resolve("mutate")
    if mu is not None and not inline_mutate:
        no_inline.add(mu.ident)
    ev = Evaluator(repo, max_depth=1, assume=assume, no_inline=no_inline,
                   opaque_methods={"to_standard_samples", "resample", "log_weights", "log_evidence_ratio", "log_evidence_ratio_variance"})
    ret = ev.run(sample, concrete)
    lp = None
    for l in ev.loops:
        if l["node"] is loop_node:
            lp = l
    return SampleFold(ev, T.strip_raise(ret), sample, concrete, lp, loop_node,
                      dict(resumed=resumed, final=final, store_hist=store_hist))


_HA_CACHE: dict = {}


def history_appends(sample, repo=None, cls=None):
    """(series, call node) for every append/extend/insert on a series of the
    sampler's history object in function *sample*.  Resolved on values, not on
    spelling: ``h = self.history; h.beta.append(b)`` is found as well."""
    if repo is None:
        # syntactic fallback
        out = []
        for n in walk_no_nested(sample.node):
            if isinstance(n, ast.Call) and isinstance(n.func, ast.Attribute) and n.func.attr in ("append", "extend", "insert"):
                r = n.func.value
                if isinstance(r, ast.Attribute) and isinstance(r.value, ast.Attribute) and r.value.attr == "history":
                    out.append((r.attr, n))
        return out
    cache = repo.__dict__.setdefault("_ha_cache", {})
    key = (sample.ident, getattr(cls, "ident", None))
    if key in cache:
        return cache[key]
    no_inline = {f.ident for f in repo.all_functions(include_nested=False) if f is not sample}
    ev = Evaluator(repo, max_depth=0, assume=lambda c: None)
    ev.run(sample, cls or sample.cls)
    hist_vals = {("attr", T.atom(sample.params[0]), "history")}
    for (o, a, v, node, fn, seq) in ev.stores:
        if a == "history" and o == T.atom(sample.params[0]):
            hist_vals.add(v)
    for lp in ev.loops:
        for (o, a), v in lp.get("body_heap", {}).items():
            if a == "history":
                hist_vals.add(v)
    hv = ev.heap.get((T.atom(sample.params[0]), "history"))
    if hv is not None:
        hist_vals.add(hv)
        hist_vals |= set(T.phi_leaves(hv))
    out = []
    for e in ev.events:
        if e.func is sample and e.callee in ("method:append", "method:extend", "method:insert") and e.args:
            r = e.args[0]
            if r[0] == "attr" and (r[1] in hist_vals or (r[1][0] == "phi" and set(T.phi_leaves(r[1])) & hist_vals)):
                if isinstance(e.node, ast.Call):
                    out.append((r[2], e.node))
    cache[key] = out
    return out


# behaviour-preserving extract-method refactoring of the loop body (negative control shared by the properties that fold the SMC driver):
# the new private helper is inlined back by aspire_sa/inline.py before any rule looks at sample()
from ..mutants import M as _M  # noqa: E402

HELPER_NEUTRAL = _M("loop body's resample + mutate + record moved into a new private helper", "src/aspire/samplers/smc/base.py",
                    "samples = samples.resample(beta, rng=self.rng)\n\n                samples = self.mutate(samples, beta)\n                if store_sample_history:\n                    self.history.sample_history.append(samples)",
                    "samples = self._move(samples, beta, store_sample_history)", within="SMCSampler",
                    more=[("def mutate(self, particles):", "def _move(self, samples, beta, store):\n        samples = samples.resample(beta, rng=self.rng)\n        samples = self.mutate(samples, beta)\n        if store:\n            self.history.sample_history.append(samples)\n        return samples\n\n    def mutate(self, particles):")])
