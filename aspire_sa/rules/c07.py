"""C07 -- adaptive temperature steps meet the ESS target and are maximal.

Template match on the loop transfer function of determine_beta's bisection,
in value-numbered normal form (no source text is compared).
"""

from __future__ import annotations

from .. import AnalysisError
from .. import terms as T
from ..mutants import M
from ..spec import spec
from .c02 import check_ess
from .common import SELF, fold, loc_of, self_attr
from .schedule import SMC, fold_db, population_weights

META = {
    "explanation": (
        "The bisection in determine_beta is folded into its loop transfer function: bracket (lo, hi) initialised to "
        "(beta, 1) with lo = 1 iff the full step meets the target; loop guard hi - lo > tolerance; midpoint (lo+hi)/2; "
        "the branch on which efficiency >= target assigns lo and the other assigns hi; the result is lo, floored by "
        "beta + min_step and clamped to 1. efficiency == ESS(u)/N with u differing from (b - beta_s)(L+P-Q) by a per-set "
        "scalar on the same population; the target is current_target_efficiency(previous beta) == t0 + (t1-t0)*beta^rate "
        "when ramped, else the scalar; unnormalized_log_weights and log_weights satisfy their identities."
    ),
    "not_decided": "monotonicity of ESS in beta (an assumption of the method), numerical tolerance, termination of the bisection",
    "assumptions": ["ESS(beta) is monotone non-increasing on [beta_prev, 1] (assumption of the bisection method)"],
}


def run(ctx):
    repo = ctx.repo
    from .smcloop import forwarding_rule
    forwarding_rule(ctx, "C07.opts", ("target_efficiency", "target_efficiency_rate", "adaptive"),
                    "the temperature search of that sampler uses the default target, not the one in force for the call")
    S = repo.cls("aspire.samples:SMCSamples")
    # ---- identities of the incremental weights
    m = S.resolve("unnormalized_log_weights")
    ev, ret = fold(repo, m, S)
    b = T.atom(m.params[1])
    want = population_weights(SELF, b)
    ctx.decide(T.strip_raise(ret) == want, "C07.w", m.ident, loc_of(m),
               "unnormalized_log_weights(b) == (b - beta)(log_likelihood + log_prior - log_q)",
               f"unnormalized_log_weights returns {T.show(ret)[:240]}")
    m = S.resolve("log_weights")
    ev, ret = fold(repo, m, S)
    b = T.atom(m.params[1])
    d = T.sub(T.strip_raise(ret), population_weights(SELF, b))
    from .common import is_scalar
    ctx.decide(is_scalar(d), "C07.w", m.ident, loc_of(m), "log_weights(b) differs from the unnormalised weights by a per-set scalar",
               f"log_weights(b) - (b-beta)(L+P-Q) = {T.show(d)[:200]} is not a per-set scalar", disc="norm")
    ctx.count("functions_folded", 2)

    smc = repo.cls(SMC)
    # ---- target efficiency
    cte = smc.resolve("current_target_efficiency")
    ev, ret = fold(repo, cte, smc)
    bb = T.atom(cte.params[1])
    te = self_attr("_target_efficiency")
    t0, t1 = ("s", te, T.const(0)), ("s", te, T.const(1))
    ramp = spec("t0 + (t1 - t0) * pow(b, r)", t0=t0, t1=t1, b=bb, r=self_attr("target_efficiency_rate"))
    ret = T.strip_raise(ret)
    leaves = list(T.phi_leaves(ret))
    ok = ret[0] == "phi" and set(leaves) == {ramp, te}
    # the ramp must be on the branch where the adaptive flag is set
    if ok:
        ok = T.select(ret, ret[1], True) in (ramp, te) and (
            (T.select(ret, ret[1], True) == ramp) == (ret[1][0] != "not"))
    ctx.decide(ok, "C07.target", cte.ident, loc_of(cte),
               "current_target_efficiency(beta) == t0 + (t1 - t0)*beta**rate when ramped, else the scalar target",
               f"current_target_efficiency returns {T.show(ret)[:300]}")
    target_prev = T.substitute(ret, {bb: T.atom("beta")})

    # ---- the temperature the loop moves to is the search result itself: one update per iteration, by determine_beta on the current state
    from ..report import reuse as _reuse
    from . import c06 as _c06
    _reuse(ctx, lambda c: _c06.run(c, shared=False), ("C06.opts",), "C07floor",
           "option rule shared with C06: the minimum-step floor (and whether it is rescaled) is decided by this call's options; a floor or a rescaling flag left over from an "
           "earlier call forces steps past the largest temperature that meets the ESS target", only=lambda f: "minimum step" in f.detail or "adaptive_min_step" in f.detail)
    _reuse(ctx, lambda c: _c06.run(c, shared=False), ("C06.once",), "C07once",
           "update rule shared with C06: a temperature changed again after the search (a nudge, a snap, a second assignment) is no longer the largest step that meets the ESS target",
           only=lambda f: "| beta" in f.key or "update" in f.key or f.key.count("|") >= 2)
    # ---- the options in force are this call's options
    from .smcloop import fold_sample
    sfo = fold_sample(repo, resumed=False, final=False)
    smp = smc.methods["sample"]
    for opt in ("target_efficiency", "target_efficiency_rate"):
        v = sfo.ev.heap.get((SELF, opt))
        ctx.decide(v == T.atom(opt), "C07.opts", smp.ident, loc_of(smp), f"sample() installs its {opt} argument before the loop",
                   f"sample({opt}=...) is not installed on the sampler before the loop (found {T.show(v)[:60] if v else 'no store'}): the search runs with a stale or missing target", disc=opt)
    setter = smc.methods.get("target_efficiency.setter")
    if setter is not None:
        evs_, _ = fold(repo, setter, smc)
        te_ = evs_.heap.get((SELF, "_target_efficiency"))
        fl_ = evs_.heap.get((SELF, "_adapative_target_efficiency"))
        val = T.atom(setter.params[1])
        isf = ("f", "isinstance", (val, ("ref", "builtins.float")), ())
        ok = te_ is not None and fl_ is not None and T.select(T.strip_raise(te_), isf, True) == val and T.select(T.strip_raise(fl_), isf, True) == T.FALSE \
            and T.TRUE in list(T.phi_leaves(T.select(T.strip_raise(fl_), isf, False)))
        ctx.decide(ok, "C07.opts", setter.ident, loc_of(setter), "a scalar target is stored as is (no ramp); a pair switches the ramp on",
                   f"target_efficiency setter stores {T.show(te_)[:120] if te_ else None} / ramp flag {T.show(fl_)[:120] if fl_ else None}", disc="setter")

    # ---- the bisection
    ev, ret, db, _ = fold_db(repo, adaptive=True)
    ctx.count("functions_folded")
    loops = [l for l in ev.loops if l["func"] is db and l["mode"] == "havoc"]
    if len(loops) != 1:
        ctx.unknown("C07.bisect", db.ident, loc_of(db), f"expected one search loop in determine_beta, found {len(loops)}")
        return
    lp = loops[0]
    loc = loc_of(db, lp["node"])
    test = lp["test"]
    heads = set(lp["head"].values())
    LO = HI = TOL = None
    if test is not None and test[0] == "cmp" and test[1] in (">", ">=") and len(test) == 3:
        lf = T.linear_form(test[2])
        pos = [k for k, c in lf.items() if k in heads and c == 1]
        neg = [k for k, c in lf.items() if k in heads and c == -1]
        rest = {k: c for k, c in lf.items() if k not in heads}
        if len(pos) == 1 and len(neg) == 1 and len(rest) == 1 and list(rest.values())[0] == -1:
            HI, LO, TOL = pos[0], neg[0], list(rest.keys())[0]
    if LO is None:
        ctx.refute("C07.guard", db.ident, loc, f"loop guard {T.show(test)[:200] if test else None} is not (hi - lo > tolerance) over the two bracket variables")
        return
    ctx.prove("C07.guard", db.ident, loc, f"loop guard == ({T.show(HI)} - {T.show(LO)} > {T.show(TOL)})")
    # the tolerance of the search is the caller's: the bracket is refined until it is narrower than the `beta_tolerance` argument, not than
    # something larger derived from it (the result is "maximal" only up to the width at which the search stops)
    tol_params = [T.atom(p_) for p_ in db.params if "tol" in p_]
    ctx.decide(TOL in tol_params, "C07.guard", db.ident, loc, "the search stops at the caller's tolerance",
               f"the search stops when the bracket is narrower than {T.show(TOL)[:80]}, not than the tolerance argument "
               f"({', '.join(T.show(t_) for t_ in tol_params) or 'none found'}): with a coarser stop the returned temperature can fall short of the largest admissible one by that much", disc="tolerance")
    name_of = {v: k for k, v in lp["head"].items()}
    lo_n, hi_n = name_of[LO], name_of[HI]
    b_lo, b_hi = lp["body"][lo_n], lp["body"][hi_n]
    MID = spec("(lo + hi) / 2", lo=LO, hi=HI)
    # orientation
    if b_lo[0] != "phi" or b_hi[0] != "phi":
        ctx.refute("C07.branch", db.ident, loc, f"bracket update is not a two-way branch: lo' = {T.show(b_lo)[:120]}, hi' = {T.show(b_hi)[:120]}")
        return
    C = b_lo[1]
    lo_t, lo_f = T.select(b_lo, C, True), T.select(b_lo, C, False)
    hi_t, hi_f = T.select(b_hi, C, True), T.select(b_hi, C, False)
    bad = []
    mids = {x for x in (lo_t, lo_f, hi_t, hi_f) if x not in (LO, HI)}
    if mids != {MID}:
        bad.append(f"trial point(s) {[T.show(x)[:80] for x in mids]} != (lo + hi)/2")
    ctx.decide(not bad, "C07.mid", db.ident, loc, "trial temperature == (lo + hi)/2", "; ".join(bad))
    # which side moves on C true
    if (lo_t, hi_t, lo_f, hi_f) == (MID, HI, LO, MID):
        cond_lo = C
    elif (lo_t, hi_t, lo_f, hi_f) == (LO, MID, MID, HI):
        from ..evalr import negate
        cond_lo = negate(C)
    else:
        ctx.refute("C07.branch", db.ident, loc, f"bracket update does not move exactly one end to the trial point: "
                   f"on {T.show(C)[:80]}: lo'={T.show(lo_t)[:40]}, hi'={T.show(hi_t)[:40]}; else lo'={T.show(lo_f)[:40]}, hi'={T.show(hi_f)[:40]}")
        return
    # cond_lo must be  EFF - TARGET >= 0
    if not (cond_lo[0] == "cmp" and len(cond_lo) == 3 and cond_lo[1] in (">=", ">")):
        ctx.refute("C07.branch", db.ident, loc, f"the lower end moves up on {T.show(cond_lo)[:200]}, which is not (efficiency >= target)")
        return
    dterm = cond_lo[2]
    # split into the part depending on the trial point and the rest
    dep, indep = T.ZERO, T.ZERO
    for mono, c in T._as_dict(dterm).items():
        piece = T._mk({mono: c})
        if any(s in (LO, HI) for s in T.subterms(piece)):
            dep = T.add(dep, piece)
        else:
            indep = T.add(indep, piece)
    EFF, TARGET = dep, T.neg(indep)
    samples = T.atom("samples")
    N = T.app("len", ("attr", samples, "x"))
    E = T.mul(EFF, N)
    f_ess = check_ess(ctx, "C07.eff", db.ident, loc, E, population_weights(samples, MID))
    if f_ess.verdict == "REFUTED":
        # distinguish a flipped comparison from a wrong efficiency
        Eneg = T.mul(T.neg(EFF), N)
        probe = type(ctx)(ctx.prop, ctx.tier, ctx.repo)
        if check_ess(probe, "x", "x", loc, Eneg, population_weights(samples, MID)).verdict == "PROVED":
            ctx.findings.pop()
            ctx.refute("C07.branch", db.ident, loc, "the lower end of the bracket moves up when efficiency < target (comparison flipped): the search keeps temperatures that violate the ESS target")
            return
    ctx.decide(TARGET == target_prev, "C07.tgt", db.ident, loc,
               "target in force == current_target_efficiency(previous beta)",
               f"target compared against is {T.show(TARGET)[:200]}, expected current_target_efficiency(beta_prev) = {T.show(target_prev)[:200]}")
    ctx.prove("C07.branch", db.ident, loc, "efficiency >= target moves the lower end up to the trial point, otherwise the upper end moves down")
    # ---- initial bracket
    pre_lo, pre_hi = lp["pre"].get(lo_n), lp["pre"].get(hi_n)
    bad = []
    if pre_hi != T.ONE:
        bad.append(f"hi starts at {T.show(pre_hi)[:80]}, expected 1.0")
    beta = T.atom("beta")
    if pre_lo is None or pre_lo[0] != "phi":
        bad.append(f"lo starts at {T.show(pre_lo)[:120] if pre_lo else None}: no full-step shortcut")
    else:
        c0 = pre_lo[1]
        full, other = T.select(pre_lo, c0, True), T.select(pre_lo, c0, False)
        if c0[0] == "cmp" and (full, other) == (beta, T.ONE):
            from ..evalr import negate
            c0 = negate(c0)
            full, other = other, full
        if (full, other) != (T.ONE, beta):
            bad.append(f"lo starts at {T.show(pre_lo)[:160]}, expected 1.0 if the full step meets the target else beta")
        elif not (c0[0] == "cmp" and c0[1] in (">=", ">")):
            bad.append(f"full-step shortcut taken on {T.show(c0)[:120]}")
        else:
            eff1 = T.substitute(EFF, {MID: T.ONE})
            want_d = T.sub(T.substitute(T.mul(E, T.div(T.ONE, N)), {}), TARGET)
            # efficiency at b=1: rebuild from the population weights
            got = c0[2]
            dep1 = T.add(got, target_prev)
            probe = type(ctx)(ctx.prop, ctx.tier, ctx.repo)
            r = check_ess(probe, "x", "x", loc, T.mul(dep1, N), population_weights(samples, T.ONE))
            if r.verdict != "PROVED":
                bad.append("full-step shortcut does not compare ESS(1.0)/N of the population with the target at the previous beta")
    ctx.decide(not bad, "C07.init", db.ident, loc, "bracket starts at (beta, 1.0); lo = 1.0 iff efficiency(1.0) >= target(beta)", "; ".join(bad))
    # ---- result
    v = ret[1][0] if ret[0] == "t" else None
    ok = False
    why = f"returned temperature is {T.show(v)[:200] if v else None}"
    if v is not None and v[0] == "f" and v[1] == "min2" and T.ONE in v[2]:
        inner = [a for a in v[2] if a != T.ONE][0]
        if inner[0] == "f" and inner[1] == "max2" and LO in inner[2]:
            ok = True
        elif inner == LO:
            ok = True
    ctx.decide(ok, "C07.result", db.ident, loc_of(db), "result == min(max(lo, beta + min_step), 1.0): the largest temperature known to meet the target",
               why + " ; expected the lower end of the bracket (floored by the minimum step, clamped to 1)")


_B = "src/aspire/samplers/smc/base.py"
_S = "src/aspire/samples.py"
MUTANTS = [
    M("bisection comparison flipped", _B, "if eff >= target_eff:\n                    beta_min = beta_try", "if eff < target_eff:\n                    beta_min = beta_try", "C07.branch"),
    M("bisection moves the wrong ends", _B, "beta_min = beta_try\n                else:\n                    beta_max = beta_try", "beta_max = beta_try\n                else:\n                    beta_min = beta_try", "C07.branch"),
    M("returns the upper end", _B, "beta_star = beta_min", "beta_star = beta_max", "C07.result"),
    M("midpoint biased", _B, "beta_try = 0.5 * (beta_max + beta_min)", "beta_try = 0.5 * beta_max + beta_min", "C07.mid"),
    M("efficiency of the full step in the loop", _B, "samples.log_weights(beta_try)", "samples.log_weights(beta_max)", "C07.eff"),
    M("efficiency not normalised", _B, "samples.log_weights(beta_try)\n                ) / len(samples)", "samples.log_weights(beta_try)\n                )", "C07.eff"),
    M("target at the new temperature", _B, "target_eff = self.current_target_efficiency(beta_prev)", "target_eff = self.current_target_efficiency(beta_max)", "C07.tgt"),
    M("bracket starts at zero", _B, "beta_min = beta_prev\n            beta_max = 1.0", "beta_min = 0.0\n            beta_max = 1.0", "C07.init"),
    M("no full-step shortcut", _B, "if eff_beta_max >= self.current_target_efficiency(beta_prev):\n                beta_min = 1.0", "pass", "C07.init"),
    M("loop guard without tolerance", _B, "while beta_max - beta_min > beta_tolerance:", "while beta_max - beta_min > 0.5:", "C07.guard"),
    M("incremental weights use absolute temperature", _S, "return (self.beta - beta) * self.log_q + (beta - self.beta) * (", "return (- beta) * self.log_q + (beta) * (", ("C07.w", "C07.eff")),
    M("ramp ignores beta", _B, ") * (beta**self.target_efficiency_rate)", ") * self.target_efficiency_rate", "C07.target"),
    M("ramp branches swapped", _B, "if self._adapative_target_efficiency:\n            return self._target_efficiency[0]", "if not self._adapative_target_efficiency:\n            return self._target_efficiency[0]", "C07.target"),
]
MUTANTS += [
    M("target option never installed", _B, "self.target_efficiency = target_efficiency\n        self.target_efficiency_rate = target_efficiency_rate", "self.target_efficiency_rate = target_efficiency_rate", "C07.opts"),
    M("scalar target switches the ramp on", _B, "self._target_efficiency = value\n            self._adapative_target_efficiency = False", "self._target_efficiency = value\n            self._adapative_target_efficiency = True", "C07.opts"),
]
MUTANTS += [
    M("loop nudges a stalled temperature past the search result", "src/aspire/samplers/smc/base.py", "self.history.eff_target.append(\n                    self.current_target_efficiency(beta)\n                )",
      "if beta <= self.history.beta[-1] if self.history.beta else False:\n                    beta = min(beta + beta_tolerance, 1.0)\n                self.history.eff_target.append(\n                    self.current_target_efficiency(beta)\n                )", "C07once.once"),
]
MUTANTS += [
    M("the SMC sampler's constructor also accepts the target efficiency", "src/aspire/samplers/smc/base.py", "rng: np.random.Generator | None = None,\n        preconditioning_transform: Callable | None = None,\n    ):\n        super().__init__(\n            log_likelihood=log_likelihood,",
      "rng: np.random.Generator | None = None,\n        preconditioning_transform: Callable | None = None,\n        target_efficiency: float = 0.5,\n    ):\n        self.target_efficiency = target_efficiency\n        super().__init__(\n            log_likelihood=log_likelihood,", "C07.opts"),
]
MUTANTS += [
    M("search stops once the bracket is narrower than the minimum step", _B, "beta_prev = beta\n            beta_min = beta_prev", "beta_prev = beta\n            beta_tolerance = max(beta_tolerance, min_step)\n            beta_min = beta_prev", "C07.guard"),
]
NEUTRALS = [
    __import__("aspire_sa.rules.smcloop", fromlist=["HELPER_NEUTRAL"]).HELPER_NEUTRAL,
    M("comparison mirrored with swapped branches", _B, "if eff >= target_eff:\n                    beta_min = beta_try\n                else:\n                    beta_max = beta_try",
      "if eff < target_eff:\n                    beta_max = beta_try\n                else:\n                    beta_min = beta_try"),
    M("midpoint as lo + half width", _B, "beta_try = 0.5 * (beta_max + beta_min)", "beta_try = beta_min + (beta_max - beta_min) / 2"),
    M("guard operands rearranged", _B, "while beta_max - beta_min > beta_tolerance:", "while beta_tolerance < beta_max - beta_min:"),
    M("weights regrouped", _S, "return (self.beta - beta) * self.log_q + (beta - self.beta) * (\n            self.log_likelihood + self.log_prior\n        )",
      "return (beta - self.beta) * (self.log_likelihood + self.log_prior - self.log_q)"),
]

# functions the property is anchored in (auto-mutant sweep of the thorough tier)
ANCHORS = [
    'aspire.samplers.smc.base:SMCSampler.determine_beta',
    'aspire.samplers.smc.base:SMCSampler.current_target_efficiency',
    'aspire.samples:SMCSamples.unnormalized_log_weights',
    'aspire.samples:SMCSamples.log_weights',
    'aspire.utils:effective_sample_size',
]
