"""C19 -- temporary overrides are fully restored on every exit path."""

from __future__ import annotations

import ast

from .. import AnalysisError
from .. import terms as T
from ..cfg import CFG, calls_in
from ..evalr import Evaluator
from ..model import walk_no_nested
from ..mutants import M
from .common import SELF, fold, loc_of, self_attr

META = {
    "explanation": (
        "auto_checkpoint: on the CFG with exceptional edges (the yield may raise into the generator) the previous value is "
        "read before the overwrite, nothing that can raise sits between the overwrite and the try, the yield is inside a try "
        "whose finally restores on both branches (delete when there was no previous value, reassign it otherwise), and no path "
        "from the overwrite to a normal or exceptional exit avoids the restore. PoolHandler: __enter__ stores both originals "
        "before replacing anything and the replacements wrap those originals; __exit__ reassigns both originals "
        "unconditionally, before any statement that may raise, closes/joins the pool only under close_pool and returns nothing "
        "truthy (exceptions propagate). Nesting is correct because save-at-enter / restore-at-exit is LIFO."
    ),
    "not_decided": "behaviour of the multiprocessing pool itself",
    "assumptions": ["attribute assignment on the instance does not raise"],
}


def stores_to(node, attr):
    out = []
    for n in ast.walk(node):
        if isinstance(n, ast.Attribute) and isinstance(n.ctx, ast.Store) and n.attr == attr:
            out.append(n)
    return out


def run(ctx):
    repo = ctx.repo
    A = repo.cls("aspire.aspire:Aspire")
    ac = A.methods.get("auto_checkpoint")
    if ac is None:
        raise AnalysisError("Aspire.auto_checkpoint not found")
    ATTR = "_checkpoint_defaults"
    g = CFG(ac.node, exc_edges=True)
    ctx.count("cfg_nodes", len(g.nodes))
    ctx.decide(ac.has_decorator("contextmanager"), "C19.ac", ac.ident, loc_of(ac), "auto_checkpoint is a generator context manager",
               "auto_checkpoint is not decorated as a context manager", disc="decorator")
    reads = [n for n in g.nodes if n.kind == "stmt" and isinstance(n.ast, ast.Assign) and any(
        isinstance(c, ast.Call) and isinstance(c.func, ast.Name) and c.func.id == "getattr" and len(c.args) >= 2 and isinstance(c.args[1], ast.Constant) and c.args[1].value == ATTR
        for c in ast.walk(n.ast.value)) or (n.kind == "stmt" and isinstance(n.ast, ast.Assign) and any(isinstance(a, ast.Attribute) and a.attr == ATTR and isinstance(a.ctx, ast.Load) for a in ast.walk(n.ast.value)))]
    yields = [n for n in g.nodes if n.ast is not None and n.kind == "stmt" and any(isinstance(x, ast.Yield) for x in ast.walk(n.ast))]
    prev0 = reads[0].ast.targets[0].id if reads and isinstance(reads[0].ast.targets[0], ast.Name) else None
    over = [n for n in g.nodes if n.kind == "stmt" and isinstance(n.ast, ast.Assign) and stores_to(n.ast, ATTR)
            and not (isinstance(n.ast.value, ast.Name) and n.ast.value.id == prev0)]
    if len(over) != 1 or not reads or len(yields) != 1:
        ctx.unknown("C19.ac", ac.ident, loc_of(ac), f"expected one overwrite / one save / one yield, found {len(over)}/{len(reads)}/{len(yields)}")
    else:
        O, R, Y = over[0], reads[0], yields[0]
        dom = g.dominators()
        prev = R.ast.targets[0].id if isinstance(R.ast.targets[0], ast.Name) else None
        ctx.decide(R in dom[O] and R is not O, "C19.ac", ac.ident, loc_of(ac, R.ast), "the previous defaults are read before they are overwritten",
                   "the 'previous' value is read after the overwrite: the context restores its own temporary value", disc="save-first")
        # restore nodes: reassignment of prev or delattr, inside a finally
        restores = []
        for n in g.nodes:
            if n.kind != "stmt" or n.ast is None:
                continue
            if isinstance(n.ast, ast.Assign) and stores_to(n.ast, ATTR) and n is not O and isinstance(n.ast.value, ast.Name) and n.ast.value.id == prev:
                restores.append(n)
            if any(isinstance(c.func, ast.Name) and c.func.id == "delattr" and len(c.args) == 2 and isinstance(c.args[1], ast.Constant) and c.args[1].value == ATTR for c in calls_in(n.ast)):
                restores.append(n)
            if isinstance(n.ast, ast.Delete) and any(isinstance(t, ast.Attribute) and t.attr == ATTR for t in n.ast.targets):
                restores.append(n)
            if any(isinstance(c.func, ast.Attribute) and c.func.attr == "pop" and c.args and isinstance(c.args[0], ast.Constant) and c.args[0].value == ATTR
                   and ("__dict__" in ast.unparse(c.func.value) or "vars(" in ast.unparse(c.func.value)) for c in calls_in(n.ast)):
                restores.append(n)
        # nothing between the overwrite and the guarded yield
        nxt = [m for m, lab in g.succ[O] if lab == "next"]
        ctx.decide(nxt == [Y], "C19.ac", ac.ident, loc_of(ac, O.ast), "the guarded yield immediately follows the overwrite",
                   "statements that may raise sit between the overwrite and the try/finally: an exception there leaves the temporary defaults in place", disc="gap")
        in_try = any(isinstance(p, ast.Try) and p.finalbody for p in _ancestors(ac.node, Y.ast))
        ctx.decide(in_try, "C19.ac", ac.ident, loc_of(ac, Y.ast), "the yield is inside try/finally", "the yield is not protected by try/finally: an exception in the with-body skips the restore", disc="finally")
        # every path from the yield (normal or exceptional) to an exit passes a restore or the benign 'nothing to delete' test
        def leaks(start):
            seen, todo = set(), [start]
            while todo:
                n = todo.pop()
                if n in seen or n in restores:
                    continue
                seen.add(n)
                if n is g.exit or n is g.raise_exit:
                    return n
                for m, lab in g.succ[n]:
                    if n is not start and lab == "exc":
                        continue  # raising while restoring is out of scope (attribute assignment is assumed not to raise)
                    todo.append(m)
            return None
        leak = leaks(Y)
        benign = False
        if leak is not None:
            # the only restore-free path allowed: prev is None and the attribute is already absent (hasattr false)
            tests = [n for n in g.nodes if n.kind == "test" and isinstance(n.ast, ast.Call) and isinstance(n.ast.func, ast.Name) and n.ast.func.id == "hasattr"
                     and len(n.ast.args) == 2 and isinstance(n.ast.args[1], ast.Constant) and n.ast.args[1].value == ATTR]
            if tests:
                skip = lambda a, b, lab: (a in tests and lab in ("false", "reraise"))
                seen, todo, found = set(), [Y], False
                while todo:
                    n = todo.pop()
                    if n in seen or n in restores:
                        continue
                    seen.add(n)
                    if n is g.exit or n is g.raise_exit:
                        found = True
                        break
                    for m, lab in g.succ[n]:
                        if (n is not Y and lab == "exc") or skip(n, m, lab):
                            continue
                        todo.append(m)
                benign = not found
        ctx.decide(leak is None or benign, "C19.ac", ac.ident, loc_of(ac, Y.ast),
                   "every normal or exceptional path from the yield to an exit restores the previous defaults (or finds nothing to delete)",
                   "a path from the yield to an exit restores nothing: after the with-block (or after an exception in it) the temporary checkpoint defaults stay on the instance", disc="all-paths")
        # the restore comes first in the clean-up: nothing that may raise is executed between leaving the yield and the restore
        BENIGN = {"hasattr", "getattr", "delattr", "isinstance", "len", "bool", "id"}

        def risky(node):
            for c in calls_in(node.ast) if node.ast is not None else []:
                if isinstance(c.func, ast.Name) and c.func.id in BENIGN:
                    continue
                if isinstance(c.func, ast.Attribute) and isinstance(c.func.value, ast.Name) and c.func.value.id in ("logger", "logging"):
                    continue
                if isinstance(c.func, ast.Attribute) and c.func.attr == "pop" and ("__dict__" in ast.unparse(c.func.value) or "vars(" in ast.unparse(c.func.value)):
                    continue
                return c
            return None
        seen_, todo_, early = set(), [m for m, lab in g.succ[Y]], None
        while todo_ and early is None:
            n = todo_.pop()
            if n in seen_ or n in restores or n is g.exit or n is g.raise_exit:
                continue
            seen_.add(n)
            if n.kind in ("stmt", "test") and n is not Y:
                early = risky(n) and n
                early = early or None
            nothing_to_delete = (n.kind == "test" and isinstance(n.ast, ast.Call) and isinstance(n.ast.func, ast.Name) and n.ast.func.id == "hasattr"
                                 and len(n.ast.args) == 2 and isinstance(n.ast.args[1], ast.Constant) and n.ast.args[1].value == ATTR)
            todo_.extend(m for m, lab in g.succ[n] if lab != "exc" and not (nothing_to_delete and lab == "false"))
        ctx.decide(early is None, "C19.ac", ac.ident, loc_of(ac, early.ast if early is not None else Y.ast),
                   "the clean-up restores first: no call that may raise runs between leaving the with-body and the restore",
                   (f"`{ast.unparse(risky(early))[:80]}` runs in the clean-up before the previous defaults are put back: if it raises (file I/O, serialisation, "
                    "a user object), the restore is skipped and the temporary defaults stay on the instance -- and in a nest the enclosing context then "
                    "fails the same way") if early is not None else "", disc="restore-first")
        # both branches restore the right thing
        kinds = set()
        for r in restores:
            kinds.add("reassign" if isinstance(r.ast, ast.Assign) else "delete")
        # "no previous value" is recognised as `prev is None`; deleting is the exact restore only if the attribute is never *present with value None*
        if "delete" in kinds:
            none_stores = []
            for f_ in repo.all_functions():
                if f_ is ac:
                    continue
                for n_ in walk_no_nested(f_.node):
                    tg_, val_ = None, None
                    if isinstance(n_, ast.Assign):
                        tg_, val_ = n_.targets, n_.value
                    elif isinstance(n_, ast.AnnAssign) and n_.value is not None:
                        tg_, val_ = [n_.target], n_.value
                    elif isinstance(n_, ast.Call) and isinstance(n_.func, ast.Name) and n_.func.id == "setattr" and len(n_.args) == 3 and isinstance(n_.args[1], ast.Constant) and n_.args[1].value == ATTR:
                        tg_, val_ = [ast.Attribute(value=n_.args[0], attr=ATTR, ctx=ast.Store())], n_.args[2]
                    if tg_ is None or not any(isinstance(t, ast.Attribute) and t.attr == ATTR for t in tg_):
                        continue
                    may_none = any(isinstance(x, ast.Constant) and x.value is None for x in ([val_] if isinstance(val_, ast.Constant) else
                                   ([val_.body, val_.orelse] if isinstance(val_, ast.IfExp) else (val_.values if isinstance(val_, ast.BoolOp) else []))))
                    if may_none:
                        none_stores.append((f_, n_))
            ctx.decide(not none_stores, "C19.ac", ac.ident, loc_of(none_stores[0][0], none_stores[0][1]) if none_stores else loc_of(ac),
                       f"no code stores None in {ATTR}: 'previous value is None' means the attribute was absent, so deleting it restores the entry state",
                       f"{none_stores[0][0].ident if none_stores else ''} stores None in {ATTR}, but the context manager restores a previous value of None by deleting the attribute: "
                       "an instance that entered with the attribute present (None) leaves without it -- not the entry state, and a direct read of the attribute then raises AttributeError", disc="absent")
        ctx.decide(kinds == {"reassign", "delete"}, "C19.ac", ac.ident, loc_of(ac), "restore deletes the attribute when there was none before and reassigns the previous value otherwise",
                   f"restore only handles {sorted(kinds)}: one of (no previous value / previous value) is not restored to its entry state", disc="both")
        # the branch taken depends on prev being None
        def unnot(a):
            k = 0
            while isinstance(a, ast.UnaryOp) and isinstance(a.op, ast.Not):
                a, k = a.operand, k + 1
            return a, k
        tests = [n for n in g.nodes if n.kind == "test" and isinstance(unnot(n.ast)[0], ast.Compare) and isinstance(unnot(n.ast)[0].left, ast.Name) and unnot(n.ast)[0].left.id == prev]
        okb = False
        if tests:
            t = tests[0]
            tnodes = {lab: m for m, lab in g.succ[t]}
            def reach(start, kind):
                seen, todo = set(), [start]
                while todo:
                    n = todo.pop()
                    if n in seen:
                        continue
                    seen.add(n)
                    if n in restores and (("reassign" if isinstance(n.ast, ast.Assign) else "delete") == kind):
                        return True
                    if n in restores:
                        continue
                    todo.extend(m for m, lab in g.succ[n] if lab not in ("exc", "reraise"))
                return False
            core, nots = unnot(t.ast)
            is_none = isinstance(core.ops[0], ast.Is) != bool(nots % 2)
            okb = reach(tnodes.get("true" if is_none else "false"), "delete") and reach(tnodes.get("false" if is_none else "true"), "reassign")
        ctx.decide(okb, "C19.ac", ac.ident, loc_of(ac), "no previous value -> delete; previous value -> reassign it",
                   "the restore branches are attached to the wrong case of 'previous value is None'", disc="polarity")

    # the settings a context installs are its own arguments: a value taken from whatever defaults were in force before (`prev`) makes the inner context
    # inherit from the enclosing one -- and an instance built by resume_from_file comes with pre-set defaults (save_config=False) that are no context at all
    if len(over) == 1 and isinstance(over[0].ast, ast.Assign) and isinstance(over[0].ast.value, ast.Dict):
        inherited = []
        for k_, v_ in zip(over[0].ast.value.keys, over[0].ast.value.values):
            okv = isinstance(v_, ast.Constant) or (isinstance(v_, ast.Name) and v_.id in ac.params)
            if not okv:
                inherited.append((k_, v_))
        ctx.decide(not inherited, "C19.ac", ac.ident, loc_of(ac, inherited[0][1] if inherited else over[0].ast),
                   "every setting the context installs is one of its own arguments (or a constant)",
                   (f"the installed defaults contain {ast.unparse(inherited[0][0]) if inherited[0][0] is not None else '**'}: {ast.unparse(inherited[0][1])[:60]}, which is not an argument of this "
                    "call: settings left unspecified are taken from the defaults that were in force on entry, so `with resumed.auto_checkpoint(path)` inherits the resume constructor's "
                    "save_config=False and the configuration written next to the new checkpoint is never refreshed") if inherited else "", disc="own-settings")
    # every attribute the context overwrites on entry is put back on exit: state written before the yield (directly or through a helper method of the
    # same object) other than the saved-and-restored defaults is left at the inner context's value when an enclosing context resumes
    def _self_stores(fn, me_):
        out = {}
        for n_ in walk_no_nested(fn):
            if isinstance(n_, ast.Attribute) and isinstance(n_.ctx, ast.Store) and isinstance(n_.value, ast.Name) and n_.value.id == me_:
                out.setdefault(n_.attr, n_)
        return out
    me0 = ac.params[0]
    try_nodes = [n_ for n_ in ac.node.body if isinstance(n_, ast.Try)]
    pre_stmts = ac.node.body[: ac.node.body.index(try_nodes[0])] if try_nodes else ac.node.body
    entry_writes = {}
    for st_ in pre_stmts:
        for a_, n_ in _self_stores(st_, me0).items():
            entry_writes.setdefault(a_, n_)
        for c_ in ast.walk(st_):
            if isinstance(c_, ast.Call) and isinstance(c_.func, ast.Attribute) and isinstance(c_.func.value, ast.Name) and c_.func.value.id == me0:
                h_ = A.resolve(c_.func.attr)
                if h_ is not None and h_.params:
                    for a_, n_ in _self_stores(h_.node, h_.params[0]).items():
                        entry_writes.setdefault(a_, c_)
    exit_restores = set()
    for t_ in try_nodes:
        for st_ in t_.finalbody:
            for n_ in ast.walk(st_):
                if isinstance(n_, ast.Assign) and isinstance(n_.value, ast.Name):
                    for tg_ in n_.targets:
                        if isinstance(tg_, ast.Attribute) and isinstance(tg_.value, ast.Name) and tg_.value.id == me0:
                            exit_restores.add(tg_.attr)
    extra = {a_: n_ for a_, n_ in entry_writes.items() if a_ != ATTR and a_ not in exit_restores}
    ctx.decide(not extra, "C19.ac", ac.ident, loc_of(ac, next(iter(extra.values())) if extra else None),
               f"the only state the context overwrites on entry is {ATTR}, which it saves and restores",
               (f"entering the context also overwrites self.{next(iter(extra))} (line {getattr(next(iter(extra.values())), 'lineno', '?')}), which is neither saved before nor put back from a saved value on exit: "
                "after an inner context is left, the enclosing context (or the plain instance) continues with the inner context's value of it") if extra else "", disc="all-attrs")
    # the saved previous value must not be modified through an alias while the context is active
    from ..evalr import Evaluator as _Ev
    evx = _Ev(repo, max_depth=0)
    evx.run(ac, A)
    prev_terms = set()
    for e in evx.events:
        if e.callee == "builtins.getattr" or (e.callee.endswith("getattr")):
            pass
    G = None
    for st_ in [evx.last_state]:
        for k_, v_ in st_.env.items():
            if v_[0] == "f" and v_[1] == "getattr" and len(v_[2]) >= 2 and v_[2][1] == T.K(ATTR):
                G = v_
    muts = []
    if G is not None:
        for e in evx.events:
            if e.callee in ("method:update", "method:pop", "method:clear", "method:setdefault", "method:popitem", "setitem") and e.args:
                recv = e.args[0]
                if recv == G or G in set(T.phi_leaves(recv)):
                    muts.append(e)
    ctx.decide(G is not None and not muts, "C19.ac", ac.ident, loc_of(ac, muts[0].node if muts else None),
               "the saved previous defaults are never modified while the context is active",
               f"the previous defaults object is modified in place ({muts[0].callee if muts else ''}) through an alias before it is restored: leaving the context "
               "reinstates an object that now carries this context's settings", disc="alias")

    # ------------------------------------------------------------ PoolHandler
    P = repo.cls("aspire.utils:PoolHandler")
    en, ex = P.methods.get("__enter__"), P.methods.get("__exit__")
    if en is None or ex is None:
        raise AnalysisError("PoolHandler.__enter__/__exit__ not found")
    def _dynamic(m_):
        """the method reads / writes attributes under computed names (a loop over names): the value-based clauses below do not follow that"""
        return any(isinstance(n_, ast.Call) and isinstance(n_.func, ast.Name) and n_.func.id in ("setattr", "getattr") and len(n_.args) >= 2 and not isinstance(n_.args[1], ast.Constant)
                   for n_ in walk_no_nested(m_.node))

    def _decide(m_, ok_, rule_, construct_, loc_, good_, bad_, disc=""):
        if not ok_ and _dynamic(m_):
            ctx.unknown(rule_, construct_, loc_, f"{m_.name} saves / restores through computed attribute names (getattr / setattr in a loop): not decided ({bad_[:80]})", disc=disc)
        else:
            ctx.decide(ok_, rule_, construct_, loc_, good_, bad_, disc=disc)

    # state shared between handlers: a mutable object created once in the class body and mutated through self belongs to every handler, so a second context
    # (nested, or on another instance) overwrites what the first one saved
    shared_ = []
    for st_ in P.node.body:
        tgt_, val_ = (st_.targets[0], st_.value) if isinstance(st_, ast.Assign) else ((st_.target, st_.value) if isinstance(st_, ast.AnnAssign) else (None, None))
        if isinstance(tgt_, ast.Name) and val_ is not None and (isinstance(val_, (ast.Dict, ast.List, ast.Set)) or (isinstance(val_, ast.Call) and isinstance(val_.func, ast.Name) and val_.func.id in ("dict", "list", "set"))):
            name_ = tgt_.id
            rebound = any(isinstance(n_, ast.Assign) and any(isinstance(t_, ast.Attribute) and t_.attr == name_ and isinstance(t_.value, ast.Name) and t_.value.id == "self" for t_ in n_.targets)
                          for m_ in P.methods.values() if m_.name in ("__init__", "__enter__") for n_ in walk_no_nested(m_.node))
            mutated = [(m_, n_) for m_ in P.methods.values() for n_ in walk_no_nested(m_.node)
                       if (isinstance(n_, (ast.Assign, ast.AugAssign)) and any(isinstance(t_, ast.Subscript) and isinstance(t_.value, ast.Attribute) and t_.value.attr == name_
                                                                                 for t_ in (n_.targets if isinstance(n_, ast.Assign) else [n_.target])))
                       or (isinstance(n_, ast.Call) and isinstance(n_.func, ast.Attribute) and n_.func.attr in ("append", "update", "setdefault", "pop", "clear", "add", "extend")
                           and isinstance(n_.func.value, ast.Attribute) and n_.func.value.attr == name_)]
            if mutated and not rebound:
                shared_.append((name_, mutated[0]))
    ctx.decide(not shared_, "C19.ph", P.ident, loc_of(shared_[0][1][0], shared_[0][1][1]) if shared_ else loc_of(en),
               "the handler keeps what it saved on the instance (no mutable object of the class body is written through self)",
               (f"`{shared_[0][0]}` is created once in the class body and {shared_[0][1][0].name} writes into it through self: every handler shares that object, so a second pool context that is "
                "entered while the first is open (nested, or on another Aspire instance) overwrites what the first saved, and leaving the first 'restores' the other's callables") if shared_ else "",
               disc="shared-state")
    ev, ret = fold(repo, en, P, max_depth=1)
    saved = {a: v for (o, a), v in ev.heap.items() if o == SELF and a.startswith("original_")}
    oll = saved.get("original_log_likelihood")
    inst = oll[1] if oll is not None and oll[0] == "attr" else self_attr("_aspire_instance")
    inst_ok = inst == self_attr("_aspire_instance") or (inst[0] == "f" and "aspire_instance" in inst[1])
    tgt = lambda name: ("attr", inst, name)
    ok = inst_ok and saved.get("original_log_likelihood") == tgt("log_likelihood") and saved.get("original_log_prior") == tgt("log_prior")
    from .common import late_bound_closures
    lbs = [(m_, c_, L_, v_) for m_ in P.methods.values() for c_, L_, v_ in late_bound_closures(m_)]
    ctx.decide(not lbs, "C19.ph", P.ident, loc_of(lbs[0][0], lbs[0][1]) if lbs else loc_of(en),
               "no closure of the pool handler reads a loop variable late",
               (f"{lbs[0][0].name}: a closure created in the loop at line {lbs[0][2].lineno} reads `{lbs[0][3]}` late: every saved / restoring callback refers to the last target only") if lbs else "",
               disc="late-binding")
    _decide(en, ok, "C19.ph", en.ident, loc_of(en), "__enter__ saves the instance's log_likelihood and log_prior",
               f"__enter__ saves {{{', '.join(f'{k}: {T.show(v)[:50]}' for k, v in saved.items())}}}", disc="save")
    st = sorted([(s[5], s[0], s[1]) for s in ev.stores], key=lambda x: x[0])
    first_repl = min((q for q, o, a in st if o == inst and a in ("log_likelihood", "log_prior")), default=None)
    last_save = max((q for q, o, a in st if o == SELF and a.startswith("original_")), default=None)
    _decide(en, first_repl is None or (last_save is not None and last_save < first_repl), "C19.ph", en.ident, loc_of(en),
               "both originals are saved before anything is replaced", "a callable is replaced before both originals have been saved", disc="order")
    for name in ("log_likelihood", "log_prior"):
        v = ev.heap.get((inst, name))
        if v is None:
            continue
        leaves = [l for l in T.phi_leaves(v) if l != tgt(name)]
        okw = all(l[0] == "f" and l[1].endswith("partial") and l[2] and l[2][0] == tgt(name) for l in leaves) and leaves
        _decide(en, bool(okw), "C19.ph", en.ident, loc_of(en), f"the temporary {name} wraps the saved original",
                   f"the temporary {name} is {T.show(v)[:120]}, which does not wrap the saved original", disc=f"wrap-{name}")
    # __exit__
    ev, ret = fold(repo, ex, P, max_depth=1)
    inst2 = ("f", "prop:aspire.utils:PoolHandler.aspire_instance", (SELF,), ())
    inst_terms = {o for (o, a) in ev.heap if a in ("log_likelihood", "log_prior")}
    okr = True
    for name in ("log_likelihood", "log_prior"):
        vals = [v for (o, a), v in ev.heap.items() if a == name]
        okr = okr and vals == [self_attr(f"original_{name}")]
    _decide(ex, okr, "C19.ph", ex.ident, loc_of(ex), "__exit__ reassigns both saved originals unconditionally",
               "__exit__ does not unconditionally reassign both saved originals (a conditional or partial restore leaves the pool-aware callable installed)", disc="restore")
    # restore before anything that can raise; close only under close_pool
    body = [s for s in ex.node.body if not (isinstance(s, ast.Expr) and isinstance(s.value, ast.Constant))]
    restore_idx = [i for i, s in enumerate(body) if isinstance(s, ast.Assign) and isinstance(s.targets[0], ast.Attribute) and s.targets[0].attr in ("log_likelihood", "log_prior")]
    first_other = min((i for i, s in enumerate(body) if i not in restore_idx), default=len(body))
    _decide(ex, len(restore_idx) == 2 and max(restore_idx) < first_other, "C19.ph", ex.ident, loc_of(ex), "the restores are the first statements of __exit__ (nothing that may raise precedes them)",
               "statements that may raise precede the restores in __exit__", disc="first")
    closes = [e for e in ev.events if e.callee in ("method:close", "method:join", "method:terminate")]
    def _conj(conds):
        for c, pol in conds:
            if c and c[0] == "and" and pol:
                yield from _conj([(x_, True) for x_ in c[1]])
            else:
                yield c, pol
    okc = all(any(c == self_attr("close_pool") and pol for c, pol in _conj(e.conds)) for e in closes) and closes
    ctx.decide(bool(okc), "C19.ph", ex.ident, loc_of(ex), "the pool is closed and joined only when close_pool is set",
               "the pool is closed regardless of close_pool (or never)", disc="close")
    # a state __enter__ provides for (no pool) must not make __exit__ raise: the AttributeError would replace the exception of the with-body
    from .common import null_contradictions
    nc = null_contradictions(P)
    ctx.decide(not nc, "C19.ph", P.ident, loc_of(nc[0][0], nc[0][1]) if nc else loc_of(ex),
               "no attribute of the handler is compared with None in one method and dereferenced without that test in another",
               (f"{nc[0][0].name} dereferences self.{nc[0][2]} (`{ast.unparse(nc[0][1])}`) with no None test in force, while another method of the handler provides for self.{nc[0][2]} "
                f"being None: with that value the context is entered normally and leaving it raises AttributeError -- also when the with-body raised, so the body's exception does not propagate as itself") if nc else "",
               disc="none-state")
    # one handler object entered twice (with h: with h: ...): the second __enter__ must not overwrite what the first saved.  Accepted: a guard at the top of
    # __enter__ that raises / returns when the handler is already entered, or saves kept on a stack (append on entry, pop on exit).
    def _reentry_safe():
        first_save = min((n_.lineno for n_ in walk_no_nested(en.node) if isinstance(n_, ast.Assign) and any(
            isinstance(t_, ast.Attribute) and isinstance(t_.value, ast.Name) and t_.value.id == "self" and t_.attr.startswith("original") for t_ in n_.targets)), default=None)
        for st_ in en.node.body:
            if first_save is not None and st_.lineno >= first_save:
                break
            if isinstance(st_, ast.If) and st_.body and isinstance(st_.body[-1], (ast.Raise, ast.Return)) and any(
                    isinstance(x_, ast.Attribute) and isinstance(x_.value, ast.Name) and x_.value.id == "self" for x_ in ast.walk(st_.test)):
                return True
        pushes = any(isinstance(n_, ast.Call) and isinstance(n_.func, ast.Attribute) and n_.func.attr == "append" and isinstance(n_.func.value, ast.Attribute)
                     and isinstance(n_.func.value.value, ast.Name) and n_.func.value.value.id == "self" for n_ in walk_no_nested(en.node))
        pops = any(isinstance(n_, ast.Call) and isinstance(n_.func, ast.Attribute) and n_.func.attr == "pop" and isinstance(n_.func.value, ast.Attribute)
                   and isinstance(n_.func.value.value, ast.Name) and n_.func.value.value.id == "self" for n_ in walk_no_nested(ex.node))
        return pushes and pops
    ctx.decide(_reentry_safe(), "C19.ph", en.ident, loc_of(en), "entering a handler that is already entered cannot overwrite the saved originals (guard or stack)",
               "__enter__ stores the current callables in the same attributes every time it runs: entered a second time on the same object (with h: with h: ...) it saves the "
               "pool-aware wrappers of the first entry over the originals, and leaving both levels restores the wrappers", disc="reentry")
    okn = T.strip_raise(ret) == T.NONE
    ctx.decide(okn, "C19.ph", ex.ident, loc_of(ex), "__exit__ returns None: exceptions from the with-body propagate",
               f"__exit__ returns {T.show(ret)[:60]}: a truthy value would swallow exceptions", disc="return")
    # enable_pool hands out the handler
    epm = A.methods.get("enable_pool")
    ev, ret = fold(repo, epm, A, max_depth=0)
    okh = any(e.callee.startswith("new:aspire.utils:PoolHandler") and e.args and e.args[0] == SELF for e in ev.events)
    # every call hands out a handler of its own: a handler kept on the instance and handed out again is entered twice by two nested
    # `with aspire.enable_pool(pool)` blocks, and its second __enter__ overwrites the originals the first one saved
    news_ = {e.result for e in ev.events if e.callee.startswith("new:aspire.utils:PoolHandler")}
    leaves_ = [l_ for l_ in T.phi_leaves(T.strip_raise(ret))]
    fresh_ = bool(leaves_) and all(l_ in news_ for l_ in leaves_)
    ctx.decide(fresh_, "C19.ph", epm.ident, loc_of(epm), "every enable_pool() call returns a new handler",
               f"enable_pool can return {T.show([l_ for l_ in leaves_ if l_ not in news_][0])[:60] if leaves_ and not fresh_ else 'something else'} instead of a new handler: two nested blocks then enter the "
               "same handler object, the inner __enter__ saves the pool-aware callables as 'originals', and after both exits the instance is left with the pool-bound likelihood", disc="fresh-handler")
    ctx.decide(okh, "C19.ph", epm.ident, loc_of(epm), "enable_pool returns a PoolHandler bound to this instance", "enable_pool does not bind the handler to this instance", disc="bind")


def _ancestors(root, node):
    path = []

    def rec(cur, stack):
        if cur is node:
            path.extend(stack)
            return True
        for ch in ast.iter_child_nodes(cur):
            if rec(ch, stack + [cur]):
                return True
        return False

    rec(root, [])
    return path


_A = "src/aspire/aspire.py"
_U = "src/aspire/utils.py"
MUTANTS = [
    M("defaults initialised to None in the constructor (restore still deletes the attribute)", _A, "self._flow = flow\n        self._sampler = None", "self._flow = flow\n        self._sampler = None\n        self._checkpoint_defaults = None", "C19.ac"),
    M("no finally", _A, "try:\n            yield self\n        finally:\n            if prev is None:", "yield self\n        if True:\n            if prev is None:", "C19.ac"),
    M("previous read after the overwrite", _A, "prev = getattr(self, \"_checkpoint_defaults\", None)\n        self._checkpoint_defaults = {", "self._checkpoint_defaults = {", "C19.ac",
      more=[("\"saved_flow\": False,\n        }\n        try:", "\"saved_flow\": False,\n        }\n        prev = getattr(self, \"_checkpoint_defaults\", None)\n        try:")]),
    M("previous value not restored", _A, "else:\n                self._checkpoint_defaults = prev", "else:\n                pass", "C19.ac"),
    M("restore only on success", _A, "try:\n            yield self\n        finally:\n            if prev is None:", "try:\n            yield self\n        except Exception:\n            raise\n        else:\n            if prev is None:", "C19.ac"),
    M("restore branches swapped", _A, "finally:\n            if prev is None:", "finally:\n            if prev is not None:", "C19.ac"),
    M("work between overwrite and try", _A, "\"saved_flow\": False,\n        }\n        try:", "\"saved_flow\": False,\n        }\n        AspireFile(path, \"a\").close()\n        try:", "C19.ac"),
    M("exit restores the likelihood only", _U, "self.aspire_instance.log_prior = self.original_log_prior\n        if self.close_pool and self.pool is not None:", "if self.close_pool and self.pool is not None:", "C19.ph"),
    M("exit restores only when a pool was given", _U, "self.aspire_instance.log_likelihood = self.original_log_likelihood\n        self.aspire_instance.log_prior = self.original_log_prior\n        if self.close_pool and self.pool is not None:",
      "if self.pool is not None:\n            self.aspire_instance.log_likelihood = self.original_log_likelihood\n            self.aspire_instance.log_prior = self.original_log_prior\n        if self.close_pool and self.pool is not None:", "C19.ph"),
    M("pool closed before the restore", _U, "self.aspire_instance.log_likelihood = self.original_log_likelihood\n        self.aspire_instance.log_prior = self.original_log_prior\n        if self.close_pool and self.pool is not None:\n            logger.debug(\"Closing pool\")\n            self.pool.close()\n            self.pool.join()\n        else:\n            logger.debug(\"Not closing pool\")",
      "if self.close_pool and self.pool is not None:\n            self.pool.close()\n            self.pool.join()\n        self.aspire_instance.log_likelihood = self.original_log_likelihood\n        self.aspire_instance.log_prior = self.original_log_prior", "C19.ph"),
    M("pool always closed", _U, "if self.close_pool and self.pool is not None:\n            logger.debug(\"Closing pool\")\n            self.pool.close()", "if True:\n            logger.debug(\"Closing pool\")\n            self.pool.close()", "C19.ph"),
    M("exit swallows exceptions", _U, "else:\n            logger.debug(\"Not closing pool\")", "else:\n            logger.debug(\"Not closing pool\")\n        return True", "C19.ph"),
    M("enter saves after replacing", _U, "self.original_log_prior = self.aspire_instance.log_prior\n        if self.pool is not None:", "if self.pool is not None:", "C19.ph",
      more=[("return self.pool\n\n    def __exit__", "self.original_log_prior = self.aspire_instance.log_prior\n        return self.pool\n\n    def __exit__")]),
]
MUTANTS += [
    M("inner context updates the outer defaults in place", _A, "self._checkpoint_defaults = {\n            \"path\": path,\n            \"every\": every,\n            \"save_config\": save_config,\n            \"save_flow\": save_flow,\n            \"saved_config\": False,\n            \"saved_flow\": False,\n        }",
      "defaults = prev if prev is not None and prev.get(\"path\") == path else {\"saved_config\": False, \"saved_flow\": False}\n        defaults.update(path=path, every=every, save_config=save_config, save_flow=save_flow)\n        self._checkpoint_defaults = defaults", "C19.ac"),
]
MUTANTS += [
    M("clean-up does file I/O before the restore", _A, "finally:\n            if prev is None:", "finally:\n            AspireFile(path, \"a\").close()\n            if prev is None:", "C19.ac"),
]
MUTANTS += [
    M("entry also resets a book-keeping attribute that is never put back", _A, "prev = getattr(self, \"_checkpoint_defaults\", None)\n        self._checkpoint_defaults = {", "prev = getattr(self, \"_checkpoint_defaults\", None)\n        self._checkpoint_saved = {\"config\": False}\n        self._checkpoint_defaults = {", "C19.ac"),
]
MUTANTS += [
    M("enable_pool hands back the handler it already has", _A, "return PoolHandler(self, pool, **kwargs)", "handler = getattr(self, \"pool_handler\", None)\n        if handler is not None and handler.pool is pool:\n            return handler\n        self.pool_handler = PoolHandler(self, pool, **kwargs)\n        return self.pool_handler", "C19.ph"),
]
MUTANTS += [
    M("unspecified options of a nested context are taken from the enclosing defaults", _A, "\"save_config\": save_config,", "\"save_config\": save_config if save_config is not None else (prev or {}).get(\"save_config\", True),", "C19.ac"),
]
MUTANTS += [
    M("exit closes a pool that may be None", _U, "if self.close_pool and self.pool is not None:\n            logger.debug(\"Closing pool\")", "if self.close_pool:\n            logger.debug(\"Closing pool\")", "C19.ph"),
]

MUTANTS += [
    M("saved callables also kept in a dict created in the class body", _U, "def __enter__(self):\n        self.original_log_likelihood = self.aspire_instance.log_likelihood",
      "_saved: dict = {}\n\n    def __enter__(self):\n        self._saved[\"log_likelihood\"] = self.aspire_instance.log_likelihood\n        self.original_log_likelihood = self.aspire_instance.log_likelihood", "C19.ph", within="PoolHandler"),
]

NEUTRALS = [
    M("handler refuses to be entered twice (repairs the re-entry finding)", _U, "def __enter__(self):\n        self.original_log_likelihood = self.aspire_instance.log_likelihood",
      "def __enter__(self):\n        if getattr(self, \"_entered\", False):\n            raise RuntimeError(\"PoolHandler is already entered\")\n        self._entered = True\n        self.original_log_likelihood = self.aspire_instance.log_likelihood",
      within="PoolHandler", more=[("self.aspire_instance.log_prior = self.original_log_prior\n        if self.close_pool", "self.aspire_instance.log_prior = self.original_log_prior\n        self._entered = False\n        if self.close_pool")]),
    M("saved callables also kept in a dict created per handler", _U, "def __enter__(self):\n        self.original_log_likelihood = self.aspire_instance.log_likelihood",
      "_saved: dict = {}\n\n    def __enter__(self):\n        self._saved = {}\n        self._saved[\"log_likelihood\"] = self.aspire_instance.log_likelihood\n        self.original_log_likelihood = self.aspire_instance.log_likelihood", within="PoolHandler"),
    M("no-pool state handled by an early return after the restore", _U, "if self.close_pool and self.pool is not None:\n            logger.debug(\"Closing pool\")", "if self.pool is None:\n            return\n        if self.close_pool:\n            logger.debug(\"Closing pool\")"),
    M("clean-up logs before and does work after the restore", _A, "finally:\n            if prev is None:\n                if hasattr(self, \"_checkpoint_defaults\"):\n                    delattr(self, \"_checkpoint_defaults\")\n            else:\n                self._checkpoint_defaults = prev",
      "finally:\n            logger.debug(\"leaving auto_checkpoint\")\n            if prev is None:\n                if hasattr(self, \"_checkpoint_defaults\"):\n                    delattr(self, \"_checkpoint_defaults\")\n            else:\n                self._checkpoint_defaults = prev\n            AspireFile(path, \"a\").close()"),
    M("delete through the instance dict", _A, "if hasattr(self, \"_checkpoint_defaults\"):\n                    delattr(self, \"_checkpoint_defaults\")", "self.__dict__.pop(\"_checkpoint_defaults\", None)"),
    M("finally with inverted test", _A, "if prev is None:\n                if hasattr(self, \"_checkpoint_defaults\"):\n                    delattr(self, \"_checkpoint_defaults\")\n            else:\n                self._checkpoint_defaults = prev",
      "if prev is not None:\n                self._checkpoint_defaults = prev\n            else:\n                if hasattr(self, \"_checkpoint_defaults\"):\n                    delattr(self, \"_checkpoint_defaults\")"),
]

# functions the property is anchored in (auto-mutant sweep of the thorough tier)
ANCHORS = [
    'aspire.aspire:Aspire.auto_checkpoint',
    'aspire.utils:PoolHandler.__enter__',
    'aspire.utils:PoolHandler.__exit__',
]
