"""C03 -- the proposal is a normalised density; sampling and evaluation agree.

Structural clauses: Jacobian sign conventions of log_prob and
sample_and_log_prob per flow back-end (C03.sign), routing of rescale /
inverse_rescale to the data transform and draws passing through
inverse_rescale (C03.route), the data transform attached by Aspire.init_flow
(C03.attach), and Jacobian accumulation of the flow maps used as
preconditioning (C03.map).
"""

from __future__ import annotations

from .. import AnalysisError
from .. import terms as T
import ast

from ..model import walk_no_nested
from ..mutants import M
from .common import SELF, fold, loc_of, self_attr

META = {
    "explanation": (
        "Per flow back-end class (discovered as subclasses of flows.base.Flow that implement log_prob), value "
        "numbering shows log_prob(x) == B(x') + J_f with (x', J_f) the two results of one data_transform.forward(x) "
        "call and B a base log-density evaluated at that x'; sample_and_log_prob returns (x, B - J_i) with (x, J_i) "
        "the two results of one data_transform.inverse(x') call and B the base log-density of the same draw x'; "
        "sample returns the first result of data_transform.inverse on the draw; forward/inverse of the flow return "
        "the sum of both Jacobians they obtained; Aspire.init_flow builds the data transform from the instance's "
        "own bounds/options and passes it as data_transform=; Flow.__init__ falls back to IdentityTransform."
    ),
    "not_decided": "that the density integrates to one (third-party network), agreement before/after training, bounds respected numerically; save/load agreement is decided under C13",
    "assumptions": ["third-party flows return (sample, log-density) of the same draw from rsample_and_log_prob"],
}

FLOW_BASE = "aspire.flows.base:Flow"


def _is_stub(f):
    import ast

    body = [s for s in f.node.body if not (isinstance(s, ast.Expr) and isinstance(s.value, ast.Constant))]
    return len(body) == 1 and isinstance(body[0], ast.Raise)


def flow_classes(repo):
    base = repo.cls(FLOW_BASE)
    out = []
    for c in repo.subclasses(base, strict=True):
        lp = c.resolve("log_prob")
        if lp is not None and not _is_stub(lp):
            out.append(c)
    return out


def dt_call(t, method):
    """t == method:<method>(self.data_transform, arg) -> arg, else None."""
    if t[0] == "f" and t[1] == f"method:{method}" and len(t[2]) == 2 and t[2][0] == self_attr("data_transform"):
        return t[2][1]
    return None


def proj(t, i):
    if t[0] == "s" and T.const_value(t[2]) == i:
        return t[1]
    return None


def mentions(t, sub) -> bool:
    return any(s == sub for s in T.subterms(t))


def exact_option_rule(ctx, rule="C03.sign"):
    repo = ctx.repo
    # ---- log_prob is a function of the point: no stochastic estimator is switched on for the flow's log-determinant.  Frozen API fact (zuko):
    #      a continuous flow built with exact=False estimates the trace with random probes (Hutchinson), so two evaluations at one point differ and the
    #      log-density returned with a draw is not log_prob at that draw.  Only the constant True (or leaving the library default, True) is accepted.
    n_ex, bad_ex = 0, []
    for f_ in repo.all_functions():
        if not f_.ident.startswith("aspire.flows"):
            continue
        for n_ in walk_no_nested(f_.node):
            v_ = None
            if isinstance(n_, ast.keyword) and n_.arg == "exact":
                v_ = n_.value
            elif isinstance(n_, ast.Call) and isinstance(n_.func, ast.Attribute) and n_.func.attr in ("setdefault", "update", "get") and n_.args \
                    and isinstance(n_.args[0], ast.Constant) and n_.args[0].value == "exact" and len(n_.args) > 1:
                v_ = n_.args[1]
            elif isinstance(n_, ast.Dict):
                for k_, val_ in zip(n_.keys, n_.values):
                    if isinstance(k_, ast.Constant) and k_.value == "exact":
                        v_ = val_
            elif isinstance(n_, ast.Assign) and any(isinstance(t_, ast.Subscript) and isinstance(t_.slice, ast.Constant) and t_.slice.value == "exact" for t_ in n_.targets):
                v_ = n_.value
            if v_ is None:
                continue
            n_ex += 1
            if not (isinstance(v_, ast.Constant) and v_.value is True):
                bad_ex.append((f_, n_, v_))
    ctx.count("exact_option_sites", n_ex)
    ctx.decide(not bad_ex, rule, "aspire.flows", loc_of(bad_ex[0][0], bad_ex[0][1]) if bad_ex else "src/aspire/flows",
               "no flow is built with a stochastic log-determinant estimator (exact is never set to anything but True)",
               (f"{bad_ex[0][0].ident} sets the flow option exact = {ast.unparse(bad_ex[0][2])[:40]}: whenever that is not True the continuous flow estimates its log-determinant with random "
                "probes, log_prob is no longer a function of the point, and the log-density returned with a draw differs from log_prob evaluated at it") if bad_ex else "", disc="exact")


def run(ctx):
    repo = ctx.repo
    from . import cachecoh
    # ---- declared bounds reach the transforms as given: no truthiness defaulting on numbers (a bound of exactly 0 is a bound)
    from .common import numeric_or_defaults
    nd = []
    n_scanned = 0
    for f_ in repo.all_functions():
        if f_.ident.split(":")[0] in ("aspire.transforms", "aspire.aspire") or f_.ident.startswith("aspire.flows"):
            n_scanned += 1
            nd += [(f_, n_, t_) for n_, t_ in numeric_or_defaults(f_)]
    ctx.count("functions_scanned_for_numeric_or_defaults", n_scanned)
    ctx.decide(not nd, "C03.attach", "package", loc_of(nd[0][0], nd[0][1]) if nd else "src/aspire",
               "no number is defaulted with `or` on the way from the instance options to the transforms",
               (f"{nd[0][0].ident}: `{nd[0][2]}` replaces a value of 0 by the default as well: a parameter bounded at exactly 0 is treated as unbounded there, gets no "
                "bounded-to-unbounded map, and the proposal puts mass outside the declared bounds") if nd else "", disc="or-default")
    cachecoh.rule(ctx, "C03.stale", ("aspire.flows", "aspire.transforms"),
                  "the density returned with draws and the density evaluated at them disagree (or the Jacobian of the data transform is that of an earlier fit)")
    classes = flow_classes(repo)
    ctx.floor("flow back-end classes implementing log_prob", len(classes), 3)
    for c in classes:
        # ---------------- log_prob
        lp = c.resolve("log_prob")
        ev, ret = fold(repo, lp, c)
        ctx.count("functions_folded")
        x = T.atom(lp.params[1])
        lf = T.linear_form(T.strip_raise(ret))
        jac = [k for k in lf if k != () and proj(k, 1) is not None and dt_call(proj(k, 1), "forward") is not None]
        construct = f"{c.ident}.log_prob"
        if len(jac) != 1:
            inv_j = [k for k in lf if k != () and proj(k, 1) is not None and dt_call(proj(k, 1), "inverse") is not None]
            if inv_j:
                ctx.refute("C03.route", construct, loc_of(lp), "log_prob rescales with data_transform.inverse instead of data_transform.forward")
            else:
                ctx.refute("C03.sign", construct, loc_of(lp), f"log_prob = {T.show(ret)[:300]} does not add the forward log-Jacobian of the data transform")
        else:
            J = jac[0]
            call = proj(J, 1)
            arg = dt_call(call, "forward")
            base = [k for k in lf if k not in ((), J)]
            xprime = ("s", call, T.const(0))
            bad = []
            if lf[J] != 1:
                bad.append(f"data-transform log-Jacobian enters with coefficient {lf[J]} (expected +1)")
            if arg != x:
                bad.append(f"the data transform is applied to {T.show(arg)[:80]}, not to the argument")
            if lf.get((), 0) != 0:
                bad.append(f"constant offset {lf[()]}")
            if len(base) != 1 or lf[base[0]] != 1:
                bad.append(f"expected exactly one base log-density term with coefficient +1, found {[(T.show(b)[:60], str(lf[b])) for b in base]}")
            elif not (base[0][0] == "f" and "log_prob" in base[0][1] and mentions(base[0], xprime) and not mentions(base[0], J)):
                bad.append(f"base term {T.show(base[0])[:120]} is not a log_prob of the rescaled point")
            ctx.decide(not bad, "C03.sign", construct, loc_of(lp),
                       "log_prob(x) == base.log_prob(x') + J_forward with (x', J_forward) = data_transform.forward(x)",
                       "; ".join(bad))
        # ---------------- sample_and_log_prob
        sl = c.resolve("sample_and_log_prob")
        construct = f"{c.ident}.sample_and_log_prob"
        if sl is None or _is_stub(sl):
            ctx.unknown("C03.sign", construct, loc_of(lp), "sample_and_log_prob not implemented")
        else:
            ev, ret = fold(repo, sl, c)
            ctx.count("functions_folded")
            ret = T.strip_raise(ret)
            if ret[0] != "t" or len(ret[1]) != 2:
                ctx.unknown("C03.sign", construct, loc_of(sl), "does not return a pair")
            else:
                xs, lq = ret[1]
                call = proj(xs, 0)
                arg = dt_call(call, "inverse") if call is not None else None
                if arg is None:
                    wrong = call is not None and dt_call(call, "forward") is not None
                    ctx.refute("C03.route", construct, loc_of(sl),
                               "draws are mapped with data_transform.forward instead of data_transform.inverse" if wrong else
                               f"returned draws {T.show(xs)[:160]} did not pass through data_transform.inverse (bounded maps not applied)")
                else:
                    ctx.prove("C03.route", construct, loc_of(sl), "returned draws are the first result of data_transform.inverse(x')")
                    J = ("s", call, T.const(1))
                    lf = T.linear_form(lq)
                    base = [k for k in lf if k not in ((), J)]
                    bad = []
                    if lf.get(J, 0) != -1:
                        bad.append(f"inverse log-Jacobian enters with coefficient {lf.get(J, 0)} (expected -1)")
                    if lf.get((), 0) != 0:
                        bad.append(f"constant offset {lf[()]}")
                    if len(base) != 1 or lf[base[0]] != 1:
                        bad.append(f"expected one base log-density with coefficient +1, found {[(T.show(b)[:60], str(lf[b])) for b in base]}")
                    else:
                        b = base[0]
                        same_draw = (proj(b, 1) is not None and proj(arg, 0) is not None and proj(b, 1) == proj(arg, 0)) or (
                            b[0] == "f" and "log_prob" in b[1] and mentions(b, arg))
                        if not same_draw:
                            bad.append(f"base log-density {T.show(b)[:100]} is not that of the returned draw {T.show(arg)[:100]}")
                    ctx.decide(not bad, "C03.sign", construct, loc_of(sl),
                               "sample_and_log_prob == (x, base_log_prob(x') - J_inverse) with (x, J_inverse) = data_transform.inverse(x') of the same draw",
                               "; ".join(bad))
        # ---------------- sample
        sm = c.resolve("sample")
        construct = f"{c.ident}.sample"
        if sm is not None and not _is_stub(sm):
            ev, ret = fold(repo, sm, c)
            ctx.count("functions_folded")
            ret = T.strip_raise(ret)
            call = proj(ret, 0)
            ok = call is not None and dt_call(call, "inverse") is not None
            ctx.decide(ok, "C03.route", construct, loc_of(sm),
                       "sample returns the first result of data_transform.inverse on the draw",
                       f"sample returns {T.show(ret)[:200]}, which did not pass through data_transform.inverse")
        # ---------------- forward / inverse as preconditioning map
        for name, dtm in (("forward", "forward"), ("inverse", "inverse")):
            m = c.resolve(name)
            construct = f"{c.ident}.{name}"
            if m is None or _is_stub(m):
                continue
            ev, ret = fold(repo, m, c)
            ctx.count("functions_folded")
            ret = T.strip_raise(ret)
            if ret[0] != "t" or len(ret[1]) != 2:
                ctx.unknown("C03.map", construct, loc_of(m), "does not return a pair")
                continue
            val, j = ret[1]
            lf = T.linear_form(j)
            dt = [k for k in lf if k != () and proj(k, 1) is not None and dt_call(proj(k, 1), dtm) is not None]
            other = [k for k in lf if k != () and k not in dt]
            bad = []
            if len(dt) != 1 or lf[dt[0]] != 1:
                bad.append(f"data-transform {dtm} log-Jacobian: {[str(lf[k]) for k in dt] or 'missing'} (expected one term, +1)")
            if len(other) != 1 or lf[other[0]] != 1 or proj(other[0], 1) is None:
                bad.append(f"flow log-Jacobian: {[(T.show(k)[:60], str(lf[k])) for k in other] or 'missing'} (expected the second result of the flow map, +1)")
            elif proj(val, 0) is None:
                bad.append("returned value is not the first result of a map")
            else:
                # chain: forward: value = flowmap(dt.forward(x)[0])[0]; inverse: value = dt.inverse(flowmap(z)[0])[0]
                flowcall = proj(other[0], 1)
                if name == "forward":
                    if proj(val, 0) != flowcall:
                        bad.append("returned value and flow log-Jacobian come from different calls")
                    elif dt and not mentions(flowcall, ("s", proj(dt[0], 1), T.const(0))):
                        bad.append("flow map is not applied to the rescaled point")
                else:
                    if dt and proj(val, 0) != proj(dt[0], 1):
                        bad.append("returned value and data-transform log-Jacobian come from different calls")
                    elif dt and not mentions(proj(dt[0], 1), ("s", flowcall, T.const(0))):
                        bad.append("data_transform.inverse is not applied to the flow pre-image")
            ctx.decide(not bad, "C03.map", construct, loc_of(m),
                       f"{name} returns the sum of the flow and data-transform log-Jacobians of the composed map",
                       "; ".join(bad))
        # rescale / inverse_rescale resolution
        for name, want in (("rescale", "forward"), ("inverse_rescale", "inverse")):
            m = c.resolve(name)
            if m is None:
                ctx.unknown("C03.route", f"{c.ident}.{name}", loc_of(lp), "not defined")
                continue
            ev, ret = fold(repo, m, c)
            arg = dt_call(T.strip_raise(ret), want)
            ctx.decide(arg == T.atom(m.params[1]), "C03.route", f"{c.ident}.{name}", loc_of(m),
                       f"{name}(x) == data_transform.{want}(x)", f"{name} returns {T.show(ret)[:160]}")

    # ---------------- the data transform's own Jacobians (necessary for a normalised density)
    from ..report import reuse
    from . import c04
    # ---- the proposal's data transform is a bijection of the declared space: it has no periodic (wrapping) stage.  The wrap is many-to-one -- draws
    #      folded back into the range carry the log-density of the unfolded point, and the density no longer integrates to one over the declared space
    ft = repo.modules["aspire.transforms"].classes.get("FlowTransform")
    if ft is None or "__init__" not in ft.methods:
        ctx.unknown("C03.attach", "aspire.transforms:FlowTransform", "src/aspire/transforms.py", "FlowTransform.__init__ not found", disc="no-periodic")
    else:
        fi_ = ft.methods["__init__"]
        sup_ = [c_ for c_ in walk_no_nested(fi_.node) if isinstance(c_, ast.Call) and isinstance(c_.func, ast.Attribute) and c_.func.attr == "__init__"
                and isinstance(c_.func.value, ast.Call) and getattr(c_.func.value.func, "id", None) == "super"]
        kw_ = {k.arg: k.value for c_ in sup_ for k in c_.keywords}
        pv_ = kw_.get("periodic_parameters")
        empty_ = pv_ is not None and ((isinstance(pv_, (ast.List, ast.Tuple)) and not pv_.elts) or (isinstance(pv_, ast.Constant) and pv_.value is None))
        ctx.decide(len(sup_) == 1 and empty_, "C03.attach", fi_.ident, loc_of(fi_, sup_[0] if sup_ else None),
                   "the flow's data transform is built without a periodic (wrapping) stage",
                   f"FlowTransform hands periodic_parameters={ast.unparse(pv_)[:50] if pv_ is not None else 'nothing'} to the composite transform: a parameter declared periodic is then wrapped "
                   "modulo its range instead of being mapped to the real line, a many-to-one step with zero Jacobian -- the log-density returned with a folded draw is that of the unfolded point, "
                   "and the proposal integrates to less than one over the declared space", disc="no-periodic")
    exact_option_rule(ctx)
    from . import c13 as _c13
    reuse(ctx, _c13.run, ("C13.flow", "C13.nomut"), "C03rt", "flow round-trip rules shared with C13: a proposal that loses its data transform, its weights or a constructor option on "
          "save / load / re-save evaluates log_prob on a different density than the one its stored draws and log_q values came from")
    reuse(ctx, lambda c: c04.run(c, shared=False), ("C04.deriv", "C04.anti", "C04.affine", "C04.wire", "C04.acc", "C04.unit", "C04.alloc", "C04.rt"), "C03dt",
          "data-transform rule shared with C04: the proposal density includes these Jacobians")

    # ---------------- Flow.__init__ default transform
    base = repo.cls(FLOW_BASE)
    init = base.resolve("__init__")
    ev, _ = fold(repo, init, base)
    dt = ev.heap.get((SELF, "data_transform"))
    leaves = list(T.phi_leaves(dt)) if dt is not None else []
    ok = dt is not None and any(l[0] == "obj" and l[2] == "IdentityTransform" for l in leaves) and T.atom("data_transform") in leaves
    if ok:
        none = ("is", T.atom("data_transform"), T.NONE)
        ok = T.select(dt, none, False) == T.atom("data_transform") and T.select(dt, none, True)[0] == "obj"
    ctx.decide(ok, "C03.attach", init.ident, loc_of(init),
               "Flow.__init__ stores the given data_transform, IdentityTransform when None",
               f"Flow.__init__ stores {T.show(dt)[:200] if dt else None}")

    # ---------------- Aspire.init_flow
    A = repo.cls("aspire.aspire:Aspire")
    m = A.resolve("init_flow")
    if m is None:
        raise AnalysisError("Aspire.init_flow not found")
    ev, _ = fold(repo, m, A)
    ctx.count("functions_folded")
    news = [e for e in ev.events if e.depth == 0 and e.callee.startswith("new:") and "Transform" in e.callee]
    if len(news) != 1:
        ctx.unknown("C03.attach", m.ident, loc_of(m), f"expected one data-transform construction, found {len(news)}")
        return
    kw = dict(news[0].kwargs)
    tcls = repo.cls(news[0].callee[4:])
    tinit = tcls.resolve("__init__")
    bad = []
    for opt in ("prior_bounds", "bounded_to_unbounded", "bounded_transform", "eps", "dtype", "parameters", "device"):
        if opt not in tinit.params:
            continue
        got = kw.get(opt)
        if got != self_attr(opt):
            bad.append(f"{opt}={T.show(got) if got else 'default'} (expected self.{opt})")
    ctx.decide(not bad, "C03.attach", m.ident, loc_of(m, news[0].node),
               f"data transform built from the instance's own {sorted(k for k in kw if k != 'xp')}",
               "data transform options not taken from the instance: " + "; ".join(bad))
    obj = news[0].result
    flows = [e for e in ev.events if e.depth == 0 and dict(e.kwargs).get("data_transform") is not None]
    ok = len(flows) >= 1 and all(dict(e.kwargs)["data_transform"] == obj for e in flows)
    ctx.decide(ok, "C03.attach", m.ident, loc_of(m), "the flow is constructed with data_transform=<that transform>",
               "the flow constructor does not receive the data transform built from the instance options", disc="pass")
    fkw = dict(flows[0].kwargs) if flows else {}
    bad = [k for k in ("dims", "dtype", "device") if fkw.get(k) != self_attr(k)]
    ctx.decide(not bad and flows, "C03.attach", m.ident, loc_of(m), "flow constructed with the instance's dims/dtype/device",
               f"flow constructor option(s) {bad} not taken from the instance", disc="opts")
    gw = [e for e in ev.events if e.depth == 0 and e.callee.endswith("get_flow_wrapper")]
    okg = len(gw) == 1 and dict(gw[0].kwargs).get("backend", gw[0].args[0] if gw[0].args else None) == self_attr("flow_backend") \
        and dict(gw[0].kwargs).get("flow_matching", gw[0].args[1] if len(gw[0].args) > 1 else None) == self_attr("flow_matching")
    ctx.decide(okg, "C03.attach", m.ident, loc_of(m), "the flow class is selected from the instance's flow_backend and flow_matching",
               "the flow class is not selected from the instance's flow_backend / flow_matching (the default back-end is built instead)", disc="backend")
    xpk = kw.get("xp")
    okx = xpk is not None and any(s_ and s_[0] == "f" and "get_flow_wrapper" in s_[1] for s_ in T.subterms(xpk)) or (xpk is not None and xpk[0] in ("ref", "phi"))
    ctx.decide(bool(okx), "C03.attach", m.ident, loc_of(m), "the data transform is built in the flow back-end's namespace",
               "the data transform is not given the flow back-end's array namespace", disc="xp")
    stored = ev.heap.get((SELF, "_flow"))
    ctx.decide(flows and stored == flows[0].result, "C03.attach", m.ident, loc_of(m), "the constructed flow is stored as the instance's flow",
               "the constructed flow is not stored on the instance", disc="store")


_TF = "src/aspire/flows/torch/flows.py"
_JF = "src/aspire/flows/jax/flows.py"
_A = "src/aspire/aspire.py"
_B = "src/aspire/flows/base.py"
MUTANTS = [
    M("zuko log_prob subtracts Jacobian", _TF, "self._flow().log_prob(x_prime) + log_abs_det_jacobian", "self._flow().log_prob(x_prime) - log_abs_det_jacobian", "C03.sign"),
    M("zuko sample_and_log_prob adds Jacobian", _TF, "xp.asarray(log_prob - log_abs_det_jacobian)", "xp.asarray(log_prob + log_abs_det_jacobian)", "C03.sign"),
    M("zuko sample skips inverse_rescale", _TF, "x = self.inverse_rescale(x_prime)[0]\n        return xp.asarray(x)", "return xp.asarray(x_prime)", "C03.route"),
    M("zuko log_prob evaluated at unscaled point", _TF, "self._flow().log_prob(x_prime) + log_abs_det_jacobian", "self._flow().log_prob(x) + log_abs_det_jacobian", "C03.sign"),
    M("jax log_prob drops Jacobian", _JF, "return asarray(log_prob + log_abs_det_jacobian, xp)", "return asarray(log_prob, xp)", "C03.sign"),
    M("jax sample_and_log_prob drops Jacobian", _JF, "return asarray(x, xp), asarray(log_prob - log_abs_det_jacobian, xp)", "return asarray(x, xp), asarray(log_prob, xp)", "C03.sign"),
    M("jax sample_and_log_prob density of a different draw", _JF, "log_prob = self._flow.log_prob(x_prime)\n        x, log_abs_det_jacobian = self.inverse_rescale(x_prime)",
      "log_prob = self._flow.log_prob(self._flow.sample(self.key, (n_samples,)))\n        x, log_abs_det_jacobian = self.inverse_rescale(x_prime)", "C03.sign"),
    M("rescale routed to inverse", _B, "return self.data_transform.forward(x)", "return self.data_transform.inverse(x)", "C03.route"),
    M("jax forward drops rescale Jacobian", _JF, "log_abs_det_jacobian + log_abs_det_jacobian_flow, xp\n        )\n\n    def inverse", "log_abs_det_jacobian_flow, xp\n        )\n\n    def inverse", "C03.map"),
    M("zuko inverse subtracts flow Jacobian", _TF, "xp.asarray(log_j_rescale + log_abs_det_jacobian)", "xp.asarray(log_j_rescale - log_abs_det_jacobian)", "C03.map"),
    M("init_flow ignores bounded_transform", _A, "bounded_transform=self.bounded_transform,\n            device=self.device,\n            xp=xp,", "device=self.device,\n            xp=xp,", "C03.attach"),
    M("init_flow does not pass the transform", _A, "data_transform=data_transform,\n            dtype=self.dtype,", "dtype=self.dtype,", "C03.attach"),
    M("init_flow hard-codes eps", _A, "eps=self.eps,\n            dtype=self.dtype,\n        )", "eps=1e-6,\n            dtype=self.dtype,\n        )", "C03.attach"),
    M("Flow.__init__ drops the transform", _B, "self.data_transform = data_transform", "self.data_transform = IdentityTransform(self.xp)", "C03.attach"),
]
MUTANTS += [
    M("Flow.__init__ replaces a given transform", _B, "if data_transform is None:\n            data_transform = IdentityTransform(self.xp)", "if data_transform is not None:\n            data_transform = IdentityTransform(self.xp)", "C03.attach"),
    M("init_flow always builds the default back-end", _A, "backend=self.flow_backend, flow_matching=self.flow_matching", "flow_matching=self.flow_matching", "C03.attach", within="Aspire.init_flow"),
    M("density evaluation compiled once over the constructor's flow (jit bakes the closed-over weights into the trace)", _JF,
      "**kwargs,\n        )\n\n    def fit", "**kwargs,\n        )\n        self._log_prob_fn = jax.jit(lambda x: self._flow.log_prob(x))\n\n    def fit", "C03.stale"),
    M("density evaluation memoised on the argument only", _JF,
      "**kwargs,\n        )\n\n    def fit", "**kwargs,\n        )\n        self._log_prob_fn = functools.lru_cache(maxsize=8)(self._flow.log_prob)\n\n    def fit", "C03.stale"),
    M("open interval ends defaulted with `or` (a bound of 0 becomes infinite)", "src/aspire/transforms.py", "prior_bounds[k], device=device, dtype=self.dtype", "[prior_bounds[k][0] or -math.inf, prior_bounds[k][1] or math.inf], device=device, dtype=self.dtype", "C03.attach"),
    M("init_flow drops the flow dtype", _A, "data_transform=data_transform,\n            dtype=self.dtype,", "data_transform=data_transform,", "C03.attach"),
]
MUTANTS += [
    M("saving a flow pops the data transform out of its recorded constructor arguments", "src/aspire/flows/torch/flows.py", "config = self.config_dict().copy()\n        data_transform = config.pop(\"data_transform\", None)", "config = self.config_dict()\n        data_transform = config.pop(\"data_transform\", None)\n        config = dict(config)", "C03rt"),
]
MUTANTS += [
    M("flow matching defaults to the Hutchinson trace estimate above two dimensions", "src/aspire/flows/torch/flows.py", "kwargs.setdefault(\"hidden_features\", 4 * [100])", "kwargs.setdefault(\"hidden_features\", 4 * [100])\n        kwargs.setdefault(\"exact\", dims <= 2)", "C03.sign"),
]
MUTANTS += [
    M("the flow's data transform wraps periodic parameters", "src/aspire/transforms.py", "periodic_parameters=[],\n            prior_bounds=prior_bounds,", "periodic_parameters=getattr(self, \"_periodic\", None) or [],\n            prior_bounds=prior_bounds,", "C03.attach"),
]
NEUTRALS = [
    M("zuko log_prob operand order", _TF, "self._flow().log_prob(x_prime) + log_abs_det_jacobian", "log_abs_det_jacobian + self._flow().log_prob(x_prime)"),
    M("jax sample_and_log_prob via temporary", _JF, "return asarray(x, xp), asarray(log_prob - log_abs_det_jacobian, xp)", "log_q = log_prob - log_abs_det_jacobian\n        return asarray(x, xp), asarray(log_q, xp)"),
    M("zuko sample unpacks both", _TF, "x = self.inverse_rescale(x_prime)[0]\n        return xp.asarray(x)", "x, _ = self.inverse_rescale(x_prime)\n        return xp.asarray(x)"),
    M("compiled density takes the flow as an argument (nothing closed over)", _JF,
      "**kwargs,\n        )\n\n    def fit", "**kwargs,\n        )\n        self._log_prob_fn = jax.jit(lambda flow, x: flow.log_prob(x))\n\n    def fit"),
    M("init_flow keyword order", _A, "eps=self.eps,\n            dtype=self.dtype,\n        )", "dtype=self.dtype,\n            eps=self.eps,\n        )"),
]

# functions the property is anchored in (auto-mutant sweep of the thorough tier)
ANCHORS = [
    'aspire.flows.torch.flows:ZukoFlow.log_prob',
    'aspire.flows.torch.flows:ZukoFlow.sample_and_log_prob',
    'aspire.flows.torch.flows:ZukoFlow.sample',
    'aspire.flows.torch.flows:ZukoFlow.forward',
    'aspire.flows.torch.flows:ZukoFlow.inverse',
    'aspire.flows.jax.flows:FlowJax.log_prob',
    'aspire.flows.jax.flows:FlowJax.sample_and_log_prob',
    'aspire.flows.jax.flows:FlowJax.sample',
    'aspire.flows.jax.flows:FlowJax.forward',
    'aspire.flows.jax.flows:FlowJax.inverse',
    'aspire.flows.base:Flow.rescale',
    'aspire.flows.base:Flow.inverse_rescale',
    'aspire.flows.base:Flow.__init__',
    'aspire.aspire:Aspire.init_flow',
]
