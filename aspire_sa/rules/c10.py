"""C10 -- cached per-particle log-densities belong to the particle's coordinates."""

from __future__ import annotations

import ast

from .. import AnalysisError
from .. import terms as T
from ..evalr import Evaluator
from ..model import walk_no_nested
from ..mutants import M
from .common import SELF, fold, loc_of, self_attr
from .priorstate import SET, PriorState, is_call_on
from .c17 import NO_INLINE

META = {
    "explanation": (
        "Typestate 'coherent' on sample-set objects: in each concrete mutate() the returned set is built from the pre-image of "
        "the kernel output and, on that same object, log_q = prior_flow.log_prob(its x), log_prior = self.log_prior(it), "
        "log_likelihood = likelihood(it) are stored after construction, with the new temperature, dtype and parameter names; "
        "draw_initial_samples pairs (x, log_q) from one sample_and_log_prob call in one constructor, evaluates the prior on that "
        "object, keeps exactly the finite-prior rows by one mask, accumulates by row-aligned concatenation under the loop guard "
        "drawn < n, trims with [:n] when drawn > n, and evaluates the likelihood on the final set; the importance sampler and "
        "the MCMC evidence set pair (x, log_q) from one call; no code outside __post_init__ stores to a sample set's x."
    ),
    "not_decided": "determinism of the user callables; row alignment of selection/concatenation themselves (C16)",
    "assumptions": ["user likelihood / prior are deterministic functions of the coordinates"],
}

SMC = "aspire.samplers.smc.base:SMCSampler"


def proj_of(t, i):
    return t[1] if t[0] == "s" and T.const_value(t[2]) == i else None


def run(ctx):
    repo = ctx.repo
    smc = repo.cls(SMC)
    # ------------------------------------------------------------ mutate
    n_mut = 0
    for c in repo.subclasses(smc, strict=True):
        if "mutate" not in c.methods:
            continue
        mu = c.methods["mutate"]
        n_mut += 1
        ev = Evaluator(repo, max_depth=2, no_inline=NO_INLINE)
        ret = T.strip_raise(ev.run(mu, c))
        ctx.count("functions_folded")
        objs = [l for l in T.phi_leaves(ret) if l and l[0] == "obj"]
        construct = mu.ident
        if len(objs) != 1 or len(list(T.phi_leaves(ret))) != 1:
            ctx.unknown("C10.mut", construct, loc_of(mu), f"mutate does not return one constructed population: {T.show(ret)[:120]}")
            continue
        o = objs[0]
        x = ev.heap.get((o, "x"))
        call = proj_of(x, 0) if x is not None else None
        ok = call is not None and call[0] == "f" and call[1] == "method:inverse" and call[2][0] == self_attr("preconditioning_transform")
        ctx.decide(ok, "C10.mut", construct, loc_of(mu), "returned coordinates are the pre-image of the kernel output under the preconditioning map",
                   f"returned coordinates are {T.show(x)[:160] if x else None}", disc="x")
        lq = ev.heap.get((o, "log_q"))
        want_q = ("f", "method:log_prob", (self_attr("prior_flow"), x), ()) if x is not None else None
        ctx.decide(lq == want_q, "C10.mut", construct, loc_of(mu), "log_q == prior_flow.log_prob(returned x)",
                   f"log_q of the returned population is {T.show(lq)[:160] if lq else 'not set'}, not the proposal log-density of its own coordinates", disc="log_q")
        lp = ev.heap.get((o, "log_prior"))
        ctx.decide(lp is not None and is_call_on(lp, "log_prior", o), "C10.mut", construct, loc_of(mu), "log_prior == self.log_prior(returned set)",
                   f"log_prior of the returned population is {T.show(lp)[:160] if lp else 'not set'}", disc="log_prior")
        ll = ev.heap.get((o, "log_likelihood"))
        ctx.decide(ll is not None and is_call_on(ll, "_log_likelihood", o), "C10.mut", construct, loc_of(mu), "log_likelihood == likelihood(returned set)",
                   f"log_likelihood of the returned population is {T.show(ll)[:160] if ll else 'not set'}", disc="log_likelihood")
        # stores happen after the last store to x
        xs = [s for s in ev.stores if s[0] == o and s[1] == "x"]
        last_x = max((s[5] for s in xs), default=0)
        late = [s[1] for s in ev.stores if s[0] == o and s[1] in ("log_q", "log_prior", "log_likelihood") and s[5] < last_x and s[2] != T.NONE]
        ctx.decide(not late, "C10.mut", construct, loc_of(mu), "cached densities are stored after the coordinates were last set",
                   f"{late} stored before the coordinates were last changed", disc="order")
        for fld, want in (("beta", T.atom("beta")), ("dtype", self_attr("dtype")), ("parameters", self_attr("parameters"))):
            got = ev.heap.get((o, fld))
            if fld == "dtype" and got is not None and got[0] == "f" and "resolve_dtype" in got[1]:
                got = got[2][0]
            if fld == "dtype" and got is not None and got[0] == "phi":
                # the constructor resolves a given dtype and falls back to the namespace default only for None
                res = [l[2][0] for l in T.phi_leaves(got) if l[0] == "f" and "resolve_dtype" in l[1]]
                got = res[0] if len(res) == 1 else got
            if fld == "parameters" and got is not None and got[0] == "phi":
                got = T.select(got, ("is", want, T.NONE), False)
            ctx.decide(got == want, "C10.meta", construct, loc_of(mu), f"returned population carries {fld}",
                       f"{fld} of the returned population is {T.show(got)[:100] if got else 'unset'}", disc=fld)
    ctx.floor("concrete mutate implementations", n_mut, 3)
    init_rule(ctx)
    rest_rules(ctx)


def init_rule(ctx):
    """C10.init on its own (shared with C02: the weights pair the three densities of one draw)."""
    repo = ctx.repo
    # ------------------------------------------------------------ initial population
    mc = repo.cls("aspire.samplers.mcmc:MCMCSampler")
    di = mc.methods.get("draw_initial_samples")
    if di is None:
        raise AnalysisError("MCMCSampler.draw_initial_samples not found")
    ev = Evaluator(repo, max_depth=2, no_inline=NO_INLINE)
    ret = T.strip_raise(ev.run(di, mc))
    ctx.count("functions_folded")
    loops = [l for l in ev.loops if l["func"] is di]
    construct = di.ident
    if len(loops) != 1:
        ctx.unknown("C10.init", construct, loc_of(di), f"expected one accumulation loop, found {len(loops)}")
    else:
        lp = loops[0]
        heap = dict(lp["body_heap"])
        n = T.atom(di.params[1])
        loc = loc_of(di, lp["node"])
        # guard
        test = lp["test"]
        counters = [a for nme, a in lp["head"].items() if test is not None and a in set(T.subterms(test))]
        ok = test is not None and test[0] == "cmp" and test[1] == ">" and len(counters) == 1 and test[2] == T.sub(n, counters[0])
        ctx.decide(ok, "C10.init", construct, loc, "loop continues while drawn < n_samples", f"loop guard is {T.show(test)[:120] if test else None}", disc="guard")
        cnt = counters[0] if counters else None
        cname = {a: k for k, a in lp["head"].items()}.get(cnt)
        # the draw and the constructed set
        news = [e for e in ev.events if e.func is di and e.callee.startswith("new:") and e.depth == 0]
        lk0 = [e for e in ev.events if e.func is di and e.callee.endswith("Sampler.log_likelihood")]
        final_heads = []
        if lk0:
            final_heads = [a for k, a in lp["head"].items() if a != cnt and a in set(T.subterms(lk0[0].args[0]))]
        if len(news) != 1 or len(final_heads) != 1:
            ctx.unknown("C10.init", construct, loc, f"expected one constructed set per iteration and one accumulated population, found {len(news)}/{len(final_heads)}", disc="pair")
        else:
            o = news[0].result
            x, lq = heap.get((o, "x")), heap.get((o, "log_q"))
            R = proj_of(x, 0) if x is not None else None
            ok = R is not None and R[0] == "f" and R[1] == "method:sample_and_log_prob" and R[2][0] == self_attr("prior_flow") \
                and lq == ("s", R, T.const(1))
            ctx.decide(ok, "C10.init", construct, loc_of(di, news[0].node), "(x, log_q) are the two results of one prior_flow.sample_and_log_prob call and enter one constructor",
                       f"constructed set has x = {T.show(x)[:80] if x else None}, log_q = {T.show(lq)[:80] if lq else None}", disc="pair")
            lp_v = heap.get((o, "log_prior"))
            ctx.decide(lp_v is not None and is_call_on(lp_v, "log_prior", o), "C10.init", construct, loc_of(di, news[0].node),
                       "prior evaluated on the freshly drawn set", f"log_prior of the drawn set is {T.show(lp_v)[:100] if lp_v else 'unset'}", disc="prior")
            # body value of the accumulated population
            head_s = final_heads[0]
            sname = [k for k, a in lp["head"].items() if a == head_s]
            acc = lp["body"].get(sname[0]) if sname else None
            mask_ok = False
            why = f"accumulated population is {T.show(acc)[:200] if acc else None}"
            if acc is not None:
                sel = [s for s in T.subterms(acc) if s and s[0] == "s" and s[1] == o]
                masks = {s[2] for s in sel}
                want_mask = T.app("isfinite", lp_v) if lp_v is not None else None
                if len(masks) == 1 and list(masks)[0] == want_mask:
                    leaves = [l for l in T.phi_leaves(acc)]
                    allowed = True
                    for l in leaves:
                        if l == head_s or (l[0] == "s" and l[1] == o):
                            continue
                        if l[0] == "f" and l[1].endswith("concatenate"):
                            elems = [x2 for a in l[2] if a[0] in ("l", "t") for x2 in a[1]]
                            if elems == [head_s, ("s", o, want_mask)]:
                                continue
                        allowed = False
                        why = f"accumulation step {T.show(l)[:160]} is not a row-aligned selection/concatenation of the drawn set"
                    mask_ok = allowed
                else:
                    why = f"rows are selected by {[T.show(m)[:80] for m in masks]}, expected isfinite(log_prior of the drawn set)"
            ctx.decide(mask_ok, "C10.init", construct, loc, "only finite-prior rows are kept, by one mask, and appended by concatenation", why, disc="mask")
            # accumulation happens whenever at least one row was kept, first round replaces None
            if acc is not None and acc[0] == "phi":
                nv_ = T.app("int", T.app("sum", T.app("isfinite", lp_v))) if lp_v is not None else None
                c_ = acc[1]
                okp = nv_ is not None and c_ == ("cmp", ">", nv_) and T.select(acc, c_, False) == head_s
                inner_ = T.select(acc, c_, True)
                okn = inner_[0] == "phi" and inner_[1] == ("is", head_s, T.NONE) and T.select(inner_, inner_[1], True)[0] == "s"
                later_ = T.select(inner_, inner_[1], False) if okn else None
                okn = okn and later_[0] == "f" and later_[1].endswith("concatenate")
                ctx.decide(okp and okn, "C10.init", construct, loc, "rows are accumulated whenever a round kept at least one; the first round starts the population",
                           f"accumulation is conditioned on {T.show(c_)[:100]} / {T.show(inner_[1])[:80] if inner_[0] == 'phi' else 'no first-round case'}", disc="when")
            # both start empty
            pre_c, pre_s = lp["pre"].get(cname) if cname else None, lp["pre"].get(sname[0]) if sname else None
            ctx.decide(pre_c is not None and T.const_value(pre_c) == 0 and pre_s == T.NONE, "C10.init", construct, loc,
                       "the counter starts at 0 and the population starts empty",
                       f"before the first round the counter is {T.show(pre_c) if pre_c else None} and the population is {T.show(pre_s)[:80] if pre_s else None}: "
                       "the returned population is not the requested size", disc="start")
            # counter
            cb = lp["body"].get(cname) if cname else None
            okc = False
            if cb is not None and lp_v is not None:
                inc = [l for l in T.phi_leaves(cb) if l != cnt]
                nv = T.app("int", T.app("sum", T.app("isfinite", lp_v)))
                okc = inc == [T.add(cnt, nv)]
            ctx.decide(okc, "C10.init", construct, loc, "the drawn counter grows by the number of kept rows",
                       f"counter update is {T.show(cb)[:160] if cb else None}", disc="counter")
        # what is tested for finiteness is what is stored: every dtype-narrowing conversion on the way to the stored log_prior is also on the way to the tested
        # value.  A float64 prior value beyond float32's range is finite before array_to_namespace() and -inf after it; a mask computed before the cast lets
        # such a draw into the population with a non-finite stored prior.  (Value numbers cannot tell the two apart: conversions preserve real values.)
        _casts_rule(ctx, di, lp["node"])
        # trim and likelihood on the returned set
        leaves = list(T.phi_leaves(ret))
        rl = ev.events
        lk = [e for e in ev.events if e.func is di and e.callee.endswith("Sampler.log_likelihood")]
        if len(lk) != 1:
            ctx.unknown("C10.init", construct, loc_of(di), "expected one likelihood evaluation", disc="final")
        else:
            arg = lk[0].args[0]
            head_s = [a for k, a in lp["head"].items() if a != cnt and a in set(T.subterms(arg))]
            ok = False
            if arg[0] == "phi" and len(head_s) == 1 and cnt is not None:
                c = arg[1]
                trimmed, kept = T.select(arg, c, True), T.select(arg, c, False)
                ok = c == ("cmp", ">", T.sub(cnt, n)) and kept == head_s[0] and trimmed == ("s", head_s[0], ("slice", T.NONE, n, T.NONE))
            ctx.decide(ok, "C10.init", construct, loc_of(di, lk[0].node), "final set == accumulated rows trimmed to [:n] when more than n were drawn",
                       f"the set handed to the likelihood is {T.show(arg)[:200]}, not the accumulated (mask-selected, concatenated) population trimmed to [:n]: "
                       "its rows need not pair each coordinate with its own prior / proposal density, or its size is not n", disc="trim")
            okr = ret == arg and ev.heap.get((arg, "log_likelihood")) is not None and is_call_on(ev.heap[(arg, "log_likelihood")], "_log_likelihood", arg)
            ctx.decide(okr, "C10.init", construct, loc_of(di, lk[0].node), "the likelihood of the final set is stored on it and that set is returned",
                       "the returned set is not the one whose likelihood was evaluated and stored", disc="final")



DTYPE_CASTS = ("array_to_namespace", "astype", "to", "type")
PASS_THROUGH = ("asarray", "array", "copy_array", "safe_to_device", "to_device", "atleast_1d", "copy", "clone", "detach")


def _casts_rule(ctx, di, loop_node):
    body = [n for n in walk_no_nested(di.node) if isinstance(n, ast.Assign)]

    def last_def(pred, before):
        c = [a for a in body if a.lineno < before and any(pred(t) for t in a.targets)]
        return max(c, key=lambda a: a.lineno) if c else None

    def casts(e, at, depth=0):
        """-> set of dtype-casting call names applied between the prior's result and *e* (read at line *at*)."""
        if depth > 8:
            return set()
        if isinstance(e, ast.Call):
            nm = e.func.attr if isinstance(e.func, ast.Attribute) else getattr(e.func, "id", "")
            inner = None
            if nm in DTYPE_CASTS:
                inner = e.args[0] if nm == "array_to_namespace" and e.args else (e.func.value if isinstance(e.func, ast.Attribute) else None)
                if nm == "to" and not e.args and not e.keywords:
                    nm = None
            elif nm in PASS_THROUGH:
                inner = e.args[0] if e.args else (e.func.value if isinstance(e.func, ast.Attribute) else None)
                if any(k.arg == "dtype" for k in e.keywords):
                    nm = "asarray(dtype=)"
                else:
                    nm = None
            else:
                return set()
            return ({nm} if nm else set()) | (casts(inner, at, depth + 1) if inner is not None else set())
        if isinstance(e, ast.Name):
            d = last_def(lambda t: isinstance(t, ast.Name) and t.id == e.id, at)
            return casts(d.value, d.lineno, depth + 1) if d is not None else set()
        if isinstance(e, ast.Attribute) and isinstance(e.value, ast.Name):
            d = last_def(lambda t: isinstance(t, ast.Attribute) and t.attr == e.attr and isinstance(t.value, ast.Name) and t.value.id == e.value.id, at)
            return casts(d.value, d.lineno, depth + 1) if d is not None else set()
        return set()

    stores = [a for a in body if any(isinstance(t, ast.Attribute) and t.attr == "log_prior" for t in a.targets) and loop_node.lineno <= a.lineno <= loop_node.end_lineno]
    tests = [n for n in walk_no_nested(di.node) if isinstance(n, ast.Call) and isinstance(n.func, ast.Attribute) and n.func.attr == "isfinite" and n.args
             and loop_node.lineno <= n.lineno <= loop_node.end_lineno]
    if len(stores) != 1 or len(tests) != 1:
        ctx.unknown("C10.init", di.ident, loc_of(di, loop_node), f"expected one log_prior store and one finiteness test per round, found {len(stores)}/{len(tests)}", disc="tested-is-stored")
        return
    st_c = casts(stores[0].value, stores[0].lineno)
    te_c = casts(tests[0].args[0], tests[0].lineno)
    ctx.decide(st_c <= te_c, "C10.init", di.ident, loc_of(di, tests[0]),
               f"the finiteness mask is computed on the prior values as they are stored (conversions on the stored value: {sorted(st_c)}; on the tested value: {sorted(te_c)})",
               f"the stored log_prior went through {sorted(st_c - te_c)} but the value tested for finiteness did not: the conversion casts to the sample set's dtype, and a finite float64 prior "
               "value beyond float32's range becomes -inf there, so a draw can pass the mask and enter the initial population with a non-finite stored prior", disc="tested-is-stored")


def rest_rules(ctx):
    repo = ctx.repo
    smc = repo.cls(SMC)
    # ------------------------------------------------------------ final enlargement: resample at beta=1 to the requested size, then mutate
    from .smcloop import fold_sample, roles
    sfe = fold_sample(repo, resumed=False, final=True)
    smp_ = smc.methods["sample"]
    rs_ = [e for e in sfe.events("method:resample", in_loop=False)]
    mu_ = [e for e in sfe.events(".mutate", in_loop=False)]
    oke = len(rs_) == 1 and len(mu_) == 1 and rs_[0].args[1] == T.ONE and dict(rs_[0].kwargs).get("n_samples") == T.atom("n_final_samples") \
        and mu_[0].args[0] == rs_[0].result and mu_[0].args[1] == T.ONE
    post = sfe.ev.last_state.env.get(roles(repo).samples)
    ctx.decide(oke and post == (mu_[0].result if mu_ else None), "C10.final", smp_.ident, loc_of(smp_, rs_[0].node if rs_ else None),
               "enlargement: the final population is mutate(resample(population, 1.0, n_final_samples), 1.0), so its densities are re-evaluated",
               "the final-sample enlargement does not return mutate(resample(population, beta=1, size=n_final_samples), beta=1)")

    from .smcloop import forwarding_rule
    forwarding_rule(ctx, "C10.final", ("n_final_samples",), "the returned population of that sampler does not have the requested final size")
    # the enlargement is taken exactly when a final size was requested (and differs from the current one)
    sfg = fold_sample(repo, resumed=False, final=None)
    rsg = [e for e in sfg.events("method:resample", in_loop=False)]
    okg, whyg = False, "enlargement not found"
    if len(rsg) == 1:
        nf = T.atom("n_final_samples")
        from .common import flat_conds
        fc = {(c, pol) for c, pol in flat_conds(rsg[0].conds) if any(s_ == nf for s_ in T.subterms(c))}
        requested = (("is", nf, T.NONE), False)

        def differs(cp):
            c, pol = cp
            if not (c[0] == "cmp" and c[1] == "==" and len(c) == 3 and pol is False):
                return False
            lf = T.linear_form(c[2])
            keys = [k for k in lf if k != ()]
            return lf.get((), 0) == 0 and len(keys) == 2 and nf in keys and lf[nf] == -lf[[k for k in keys if k != nf][0]] \
                and [k for k in keys if k != nf][0][0] == "f" and [k for k in keys if k != nf][0][1] == "len"
        okg = requested in fc and all(cp == requested or differs(cp) for cp in fc)
        whyg = "the enlargement runs when " + " and ".join(("" if pol else "not ") + T.show(c)[:80] for c, pol in sorted(fc, key=repr))
    ctx.decide(okg, "C10.final", smp_.ident, loc_of(smp_, rsg[0].node if rsg else None),
               "the population is enlarged exactly when a final size is requested that differs from the current size",
               f"{whyg}: the returned population does not have the requested size", disc="guard")

    # ------------------------------------------------------------ (x, log_q) pairs elsewhere
    n_pairs = 0
    for ident in ("aspire.samplers.importance:ImportanceSampler.sample", "aspire.samplers.mcmc:Emcee.sample", "aspire.aspire:Aspire.sample_flow"):
        try:
            f = repo.func(ident)
        except AnalysisError:
            continue
        ev = Evaluator(repo, max_depth=2, no_inline=NO_INLINE)
        ev.run(f, f.cls)
        ctx.count("functions_folded")
        for e in ev.events:
            if e.func is f and e.depth == 0 and e.callee.startswith("new:") and "Samples" in e.callee:
                o = e.result
                lq = ev.heap.get((o, "log_q"))
                if lq is None or lq == T.NONE:
                    continue
                x = ev.heap.get((o, "x"))
                n_pairs += 1
                ok = proj_of(x, 0) is not None and proj_of(lq, 1) is not None and proj_of(x, 0) == proj_of(lq, 1) and "sample_and_log_prob" in proj_of(x, 0)[1]
                ctx.decide(ok, "C10.pair", f.ident, loc_of(f, e.node), "(x, log_q) come from one sample_and_log_prob call",
                           f"x = {T.show(x)[:80]}, log_q = {T.show(lq)[:80]} do not come from the same draw", disc=str(n_pairs))
    ctx.floor("(x, log_q) constructor pairs", n_pairs, 3)

    # ------------------------------------------------------------ the proposal a resumed run evaluates is the one the stored log_q came from
    from ..report import reuse
    from . import c14
    from .c16 import dict_order as _dict_order
    reuse(ctx, lambda c: _dict_order(c, repo, "C13.dictorder"), ("C13.dictorder",), "C10load",
          "column-order rule shared with C13: a population reloaded from HDF5 (which sorts keys) must get its columns back by parameter name, or row i no longer is the point its cached densities were evaluated at")
    from . import c13 as _c13
    reuse(ctx, _c13.run, ("C13.flow", "C13.nomut"), "C10rt", "flow round-trip rules shared with C13: the log-proposal values a restored population carries were computed with the flow (and its data transform) that was saved; "
          "a flow that reloads -- or is saved a second time -- without its transform is a different function of the same coordinates")
    from . import c05 as _c05
    reuse(ctx, _c05.share_rule, ("C05.share",), "C10share", "sharing rule shared with C05: a proposal whose data transform is refitted by another component during the run no longer gives, for the "
          "coordinates of a recorded population, the log_q stored with them")
    from . import c15 as _c15
    reuse(ctx, _c15.run, ("C15.carry",), "C10carry", "carry rule shared with C15: a row selection / concatenation that drops the set's dtype rebuilds coordinates and cached densities in the namespace's "
          "default width after they were evaluated in the requested one, so the stored values are no longer those of the stored coordinates",
          only=lambda f: ("__getitem__" in f.key or "concatenate" in f.key) and f.key.rsplit(" | ", 1)[-1] in ("dtype", "x", "log_likelihood", "log_prior", "log_q"))
    from . import c04 as _c04
    reuse(ctx, lambda c: _c04.run(c, shared=False), ("C04.deriv", "C04.anti", "C04.wrap"), "C10jac", "log-Jacobian rules shared with C04: the log-proposal stored with a draw is the flow's latent density plus the "
          "data transform's log-Jacobian at that draw; a bounded transform whose reported log-Jacobian is not the log-derivative of its map makes the stored log_q differ from the proposal "
          "evaluated at the stored coordinates")
    reuse(ctx, lambda c: c14.run(c, shared=False), ("C14.flow",), "C10file", "stale-flow rule shared with C14: after a resume log_q is recomputed with the flow stored in the file", only=lambda f: not f.key.endswith("| window"))

    # ------------------------------------------------------------ who may write x
    bad = []
    for f in repo.all_functions():
        for nd in walk_no_nested(f.node):
            if isinstance(nd, ast.Attribute) and nd.attr == "x" and isinstance(nd.ctx, ast.Store):
                if not (f.name == "__post_init__" and f.cls is not None and f.cls.name == "BaseSamples"):
                    bad.append(f"{f.ident}:{nd.lineno}")
    ctx.decide(not bad, "C10.wx", "package", "src/aspire/samples.py", "no store to a sample set's x outside BaseSamples.__post_init__",
               f"coordinates are overwritten in place at {bad[:3]} (cached densities would go stale)")
    ctx.count("functions_scanned", sum(1 for _ in repo.all_functions()))

    own_rule(ctx, fields=DENSITY_FIELDS)
    pool_rule(ctx)
    from . import cachecoh
    cachecoh.rule(ctx, "C10.stale", ("aspire.flows", "aspire.samples", "aspire.transforms", "aspire.samplers"),
                  "densities computed through it (the log_q handed back with fresh draws, a cached Jacobian) no longer belong to the coordinates they are stored with")


ORDERED_MAPS = {"map", "imap", "starmap", "map_async", "starmap_async"}  # results come back in input order
UNORDERED = {"imap_unordered", "as_completed"}


def pool_rule(ctx):
    """C10.pool: the map function handed to the user's likelihood / prior when a pool is enabled returns results in input order
    (row i of the returned values belongs to row i of the coordinates)."""
    from ..evalr import Evaluator
    repo = ctx.repo
    PH = repo.cls("aspire.utils:PoolHandler")
    en = PH.methods.get("__enter__")
    if en is None:
        raise AnalysisError("PoolHandler.__enter__ not found")
    # a wrapper installed in a loop must be bound to its own callable: a closure that reads the loop variable late calls the last target for every name,
    # so the value stored as log_likelihood of row i is the prior of row i
    from .common import late_bound_closures
    lbs = [(m_, c_, L_, v_) for m_ in PH.methods.values() for c_, L_, v_ in late_bound_closures(m_)]
    ctx.decide(not lbs, "C10.pool", PH.ident, loc_of(lbs[0][0], lbs[0][1]) if lbs else loc_of(en),
               "no wrapper the pool handler installs reads a loop variable late (each pooled callable wraps its own target)",
               (f"{lbs[0][0].name}: a closure created in the loop at line {lbs[0][2].lineno} reads `{lbs[0][3]}` late: every wrapper installed by that loop calls the last target, so with "
                "parallelize_prior the callable installed as the likelihood evaluates the prior and the cached log_likelihood of row i is not the user's likelihood at row i") if lbs else "",
               disc="late-binding")
    if lbs:
        return
    ev = Evaluator(repo, max_depth=0)
    ev.run(en, PH)
    parts = [e for e in ev.events if e.func is en and e.callee.endswith("partial") and "map_fn" in dict(e.kwargs)]
    ctx.floor("partial(map_fn=...) bindings in PoolHandler.__enter__", len(parts), 2)
    for i, e in enumerate(parts):
        mf = dict(e.kwargs)["map_fn"]
        ok = mf[0] == "attr" and mf[1] == self_attr("pool") and mf[2] in ORDERED_MAPS
        if not ok and mf[0] == "attr" and mf[1] == SELF and PH.resolve(mf[2]) is not None:
            # a helper method of the handler: decided by the pool primitive it uses
            hm = PH.resolve(mf[2])
            used = {n.attr for n in walk_no_nested(hm.node) if isinstance(n, ast.Attribute) and n.attr in ORDERED_MAPS | UNORDERED}
            if used and not (used & UNORDERED):
                ok = True
            elif not used:
                ctx.unknown("C10.pool", en.ident, loc_of(en, e.node), f"map_fn is the helper {mf[2]}(), which uses no recognised pool primitive", disc=f"map_fn|{i}")
                continue
        ctx.decide(ok, "C10.pool", en.ident, loc_of(en, e.node), f"map_fn = self.pool.{mf[2] if mf[0] == 'attr' else '?'}: an order-preserving pool map",
                   f"the map function handed to the user's callable is {T.show(mf)[:80]}, not an order-preserving method of the pool: if results come back in completion order, "
                   "value i no longer belongs to row i and the samplers store it next to the wrong coordinates", disc=f"map_fn|{i}")
    bad = []
    for f in repo.all_functions():
        for n in walk_no_nested(f.node):
            if isinstance(n, ast.Attribute) and n.attr in UNORDERED:
                bad.append(f"{f.ident}:{n.lineno}")
    ctx.decide(not bad, "C10.pool", "package", "src/aspire/utils.py", "no unordered pool primitive (imap_unordered / as_completed) is used in the package",
               f"unordered pool primitive used at {bad[:2]}: results arrive in completion order", disc="unordered")


DENSITY_FIELDS = ("x", "log_likelihood", "log_prior", "log_q")


def _in_module(ident, mod):
    m = ident.split(":")[0]
    return m == mod or m.startswith(mod + ".")


def own_rule(ctx, only_module: str | None = None, rule: str = "C10.own", fields=None, strict: bool = False):
    """Who may write into an array: only its owner (rules/own.py).  *fields*: only writes through a local known to
    alias one of these attributes (or of unknown origin) are judged -- C10 cares about coordinates and cached
    densities, C02 about the stored weights."""
    from . import own
    repo = ctx.repo
    PRIMITIVE = "aspire.utils:update_at_indices"  # the write primitive itself; every caller is checked instead
    n_sinks = 0
    full = {}

    def _full(f):
        if f.ident not in full:
            full[f.ident] = own.analyse_full(f, repo)
        return full[f.ident]

    def handed_over(f, pname):
        """A private helper that writes into its parameter: every call site in the package must pass an array the caller owns.
        -> (number of call sites, [callers that pass a borrowed array])"""
        if not f.name.startswith("_") or f.name.startswith("__"):
            return 0, []
        a = f.node.args
        pos = [x.arg for x in a.posonlyargs + a.args]
        is_method = f.cls is not None and not any(getattr(d, "id", None) == "staticmethod" for d in f.node.decorator_list)
        if pname not in pos:
            return 0, []
        idx = pos.index(pname) - (1 if is_method else 0)
        sites, bad = 0, []
        for g in repo.all_functions():
            for cname, recv, sts, kws in _full(g).calls:
                if cname != f.name or (is_method and recv is None) or (not is_method and recv is not None):
                    continue
                sites += 1
                st = kws.get(pname, sts[idx] if 0 <= idx < len(sts) else None)
                if st != own.OWNED:
                    bad.append(g.ident)
            # the caller gives the array away: it must not read it again after the call (a helper that sorts / overwrites its argument for a log line changes
            # what the caller goes on to use -- the weights handed to the generator, the cached densities of the population)
            for c_ in ast.walk(g.node):
                if not (isinstance(c_, ast.Call) and ((isinstance(c_.func, ast.Name) and c_.func.id == f.name and not is_method)
                                                      or (isinstance(c_.func, ast.Attribute) and c_.func.attr == f.name and is_method))):
                    continue
                kw_ = {k_.arg: k_.value for k_ in c_.keywords}
                arg_ = kw_.get(pname, c_.args[idx] if 0 <= idx < len(c_.args) else None)
                if isinstance(arg_, ast.Name):
                    later = [x_ for x_ in ast.walk(g.node) if isinstance(x_, ast.Name) and x_.id == arg_.id and isinstance(x_.ctx, ast.Load) and x_.lineno > (c_.end_lineno or c_.lineno)]
                    if later and g.ident not in bad:
                        bad.append(g.ident)
        return sites, bad

    for f in repo.all_functions():
        if f.ident == PRIMITIVE or (only_module is not None and not _in_module(f.ident, only_module)):
            continue
        if f.ident in getattr(repo, "inlined_idents", ()):
            continue  # a new private helper: its statements were inlined into (and are judged in) its callers
        o = _full(f)
        for i, (node, desc, st, name) in enumerate(o.sinks):
            origin = o.origin.get(name)
            if st == own.ELEMENT:
                continue  # an item of a container (e.g. an HDF5 dataset looked up by name): not an array of the caller's
            if fields is not None and origin is not None and origin not in fields:
                continue
            if strict and (origin is None or fields is None or origin not in fields):
                continue  # strict: only writes known to go through one of the named attributes (a property that speaks about those attributes only)
            n_sinks += 1
            note = ""
            if st == own.BORROWED and o.sink_root.get(i) is not None:
                sites, bad = handed_over(f, o.sink_root[i])
                if sites and not bad:
                    st = own.OWNED
                    note = f" (the array is parameter `{o.sink_root[i]}` of this private helper; each of its {sites} call site(s) passes an array the caller created)"
            ctx.decide(st == own.OWNED, rule, f.ident, loc_of(f, node), f"{desc}: the array written into was created in this function (copy / new array){note}",
                       f"{desc} writes into `{name}`, which may be (a view of) an argument or attribute: the caller's array -- e.g. the coordinates of a population whose "
                       "log-densities are cached, or the stored log-weights of a sample set -- is changed in place", disc=f"{name}|{sum(1 for x in o.sinks if x[0].lineno < node.lineno)}")
    # the analysis takes the package's own copy helper on trust (FRESH_CALLS): that trust is checked here -- every return of copy_array is a new array
    # (clone / copy / array(copy=True)), never a conversion that may share memory with the argument (as_tensor / asarray of a foreign array)
    if only_module is None or only_module in ("aspire.utils", "aspire.transforms"):
        for hname in ("copy_array",):
            try:
                hf = repo.func(f"aspire.utils:{hname}")
            except Exception:  # noqa: BLE001
                hf = None
            if hf is None:
                ctx.unknown(rule, f"aspire.utils:{hname}", "src/aspire/utils.py", f"the copy helper {hname} was not found", disc="helper")
                continue
            oh = own.analyse_full(hf, repo)
            bad_ret = [(st_, org_) for st_, org_ in oh.returns if st_ != own.OWNED]
            n_sinks += 1
            ctx.decide(not bad_ret, rule, hf.ident, loc_of(hf), f"{hname}() returns a new array on every path",
                       f"{hname}() has a return that may share memory with its argument (a conversion such as as_tensor / asarray instead of a copy): every transform and sampler that "
                       "relies on it to get an array of its own before updating it in place then writes into the caller's array -- e.g. the NumPy state of an MCMC kernel handed to a "
                       "torch-namespace transform", disc="helper-fresh")
    # in-place updates through a name bound to an item of a container the function does not own (`t = values[0]; t += v`)
    for f in repo.all_functions():
        if f.ident == PRIMITIVE or (only_module is not None and not _in_module(f.ident, only_module)) or f.ident in getattr(repo, "inlined_idents", ()):
            continue
        o = _full(f)
        for node, desc, root, name in o.elem_sinks:
            if root is None:
                continue
            if root[0] == "attr":
                if fields is not None and root[1] not in fields:
                    continue
                where = f"an item of (a view of) attribute `{root[1]}`"
                bad_sites = ["(attribute)"]
            else:
                # item of a parameter: judged where the function is called -- a container rooted in an attribute / argument of the caller is not the callee's to update
                pname = root[1]
                a_ = f.node.args
                pos = [x.arg for x in a_.posonlyargs + a_.args]
                is_method = f.cls is not None and not any(getattr(d, "id", None) == "staticmethod" for d in f.node.decorator_list)
                if pname not in pos:
                    continue
                idx = pos.index(pname) - (1 if is_method else 0)
                bad_sites = []
                for g_ in repo.all_functions():
                    og = _full(g_)
                    for cname, recv, sts, kws in og.calls:
                        if cname != f.name or (is_method and recv is None) or (not is_method and recv is not None):
                            continue
                        st_ = kws.get(pname, sts[idx] if 0 <= idx < len(sts) else None)
                        if st_ in (own.BATTR, own.BORROWED):
                            bad_sites.append(g_.ident)
                where = f"an item of parameter `{pname}`, which {', '.join(sorted(set(bad_sites))[:3])} hand(s) a container of its own object / caller"
                if fields is not None and bad_sites:
                    # only containers held in the attributes this property speaks about
                    hit = False
                    for g_ in repo.all_functions():
                        for c_ in walk_no_nested(g_.node):
                            if isinstance(c_, ast.Call) and (getattr(c_.func, "id", None) == f.name or getattr(c_.func, "attr", None) == f.name):
                                for a__ in list(c_.args) + [k.value for k in c_.keywords]:
                                    if isinstance(a__, ast.Attribute) and a__.attr in fields:
                                        hit = True
                    if not hit:
                        continue
            n_sinks += 1
            ctx.decide(not bad_sites, rule, f.ident, loc_of(f, node), f"{desc}: no call site hands in a container it does not own",
                       f"{desc}: {where}. For array items (0-d backend scalars, tensors) the accumulation happens inside that item, so the caller's container -- a recorded "
                       "series, a stored population field -- is rewritten", disc=f"{name}|item")
    if only_module is None:
        ctx.floor("in-place array writes analysed", n_sinks, 10)
    return n_sinks


_T = "src/aspire/transforms.py"
_MC = "src/aspire/samplers/mcmc.py"
_MP = "src/aspire/samplers/smc/minipcn.py"
_E = "src/aspire/samplers/smc/emcee.py"
_BJ = "src/aspire/samplers/smc/blackjax.py"
_I = "src/aspire/samplers/importance.py"
MUTANTS = [
    M("minipcn: log_q of the pre-mutation particles", _MP, "self.prior_flow.log_prob(samples.x)", "self.prior_flow.log_prob(particles.x)", "C10.mut"),
    M("minipcn: log_q carried over", _MP, "samples.log_q = samples.array_to_namespace(\n            self.prior_flow.log_prob(samples.x)\n        )", "samples.log_q = particles.log_q", "C10.mut"),
    M("emcee: likelihood not re-evaluated", _E, "samples.log_likelihood = samples.array_to_namespace(\n            self.log_likelihood(samples)\n        )", "samples.log_likelihood = particles.log_likelihood", "C10.mut"),
    M("emcee: latent coordinates returned", _E, "x = self.preconditioning_transform.inverse(z)[0]\n        samples = SMCSamples(", "x = z\n        samples = SMCSamples(", "C10.mut"),
    M("blackjax: prior of old particles", _BJ, "samples.log_prior = samples.array_to_namespace(self.log_prior(samples))\n        samples.log_likelihood = samples.array_to_namespace(\n            self.log_likelihood(samples)\n        )\n\n        if samples.xp.isnan",
      "samples.log_prior = samples.array_to_namespace(self.log_prior(particles))\n        samples.log_likelihood = samples.array_to_namespace(\n            self.log_likelihood(samples)\n        )\n\n        if samples.xp.isnan", "C10.mut"),
    M("blackjax: stale temperature", _BJ, "x_final,\n            xp=self.xp,\n            beta=beta,", "x_final,\n            xp=self.xp,\n            beta=particles.beta,", "C10.meta"),
    M("initial: log_q from a second draw", _MC, "x, log_q = self.prior_flow.sample_and_log_prob(n_samples)\n            new_samples = Samples(", "x, _ = self.prior_flow.sample_and_log_prob(n_samples)\n            _, log_q = self.prior_flow.sample_and_log_prob(n_samples)\n            new_samples = Samples(", "C10.init"),
    M("initial: mask on the wrong quantity", _MC, "valid = self.xp.isfinite(new_samples.log_prior)", "valid = self.xp.isfinite(new_samples.log_q)", "C10.init"),
    M("initial: counts all draws", _MC, "n_samples_drawn += n_valid", "n_samples_drawn += len(new_samples.x)", "C10.init"),
    M("initial: counter starts at one", _MC, "n_samples_drawn = 0", "n_samples_drawn = 1", "C10.init"),
    M("initial: later rounds dropped", _MC, "samples = Samples.concatenate(\n                        [samples, new_samples[valid]]\n                    )", "pass", "C10.init"),
    M("initial: never trimmed", _MC, "if n_samples_drawn > n_samples:\n            samples = samples[:n_samples]\n", "", "C10.init"),
    M("initial: off-by-one guard", _MC, "while n_samples_drawn < n_samples:", "while n_samples_drawn < n_samples - 1:", "C10.init"),
    M("initial: keeps unfiltered rows", _MC, "samples = new_samples[valid]\n                else:", "samples = new_samples\n                else:", "C10.init"),
    M("importance: log_q from another draw", _I, "x, log_q = self.prior_flow.sample_and_log_prob(n_samples)", "x, _ = self.prior_flow.sample_and_log_prob(n_samples)\n        log_q = self.prior_flow.sample_and_log_prob(n_samples)[1]", "C10.pair"),
    M("coordinates overwritten in place", _MP, "samples.log_q = samples.array_to_namespace(\n            self.prior_flow.log_prob(samples.x)\n        )", "samples.log_q = samples.array_to_namespace(\n            self.prior_flow.log_prob(samples.x)\n        )\n        samples.x = samples.x + 0.0", ("C10.wx", "C10.mut")),
]
MUTANTS += [
    M("initial: accumulates only empty rounds", _MC, "if n_valid > 0:", "if n_valid <= 0:", "C10.init"),
    M("enlargement only when no final size is requested", "src/aspire/samplers/smc/base.py", "if n_final_samples is not None and len(samples.x) != n_final_samples:", "if n_final_samples is None and len(samples.x) != n_final_samples:", "C10.final"),
    M("enlargement only for larger requests", "src/aspire/samplers/smc/base.py", "if n_final_samples is not None and len(samples.x) != n_final_samples:", "if n_final_samples is not None and len(samples.x) < n_final_samples:", "C10.final"),
    M("enlargement returns the unmutated resample", "src/aspire/samplers/smc/base.py", "samples = self.mutate(final_samples, 1.0, n_steps=n_final_steps)", "samples = final_samples", "C10.final"),
    M("enlargement resamples at the wrong temperature", "src/aspire/samplers/smc/base.py", "final_samples = samples.resample(\n                1.0, n_samples=n_final_samples, rng=self.rng\n            )", "final_samples = samples.resample(\n                beta, n_samples=n_final_samples, rng=self.rng\n            )", "C10.final"),
]
MUTANTS += [
    M("jax flow keeps a compiled log_prob of the flow it had before fitting", "src/aspire/flows/jax/flows.py", "log_prob = self._flow.log_prob(x_prime)\n        x, log_abs_det_jacobian = self.inverse_rescale(x_prime)",
      "if getattr(self, \"_lp\", None) is None:\n            self._lp = self._flow.log_prob\n        log_prob = self._lp(x_prime)\n        x, log_abs_det_jacobian = self.inverse_rescale(x_prime)", "C10.stale"),
    M("pool map returns results in completion order", "src/aspire/utils.py", "self.original_log_likelihood, map_fn=self.pool.map", "self.original_log_likelihood, map_fn=lambda f, it: list(self.pool.imap_unordered(f, it))", "C10.pool"),
    M("forward transform writes into its argument", _T, "x = copy_array(x, xp=self.xp)\n        x = self.xp.atleast_2d(x)\n        log_abs_det_jacobian = self.xp.zeros(\n            len(x), device=self.device, dtype=self.dtype\n        )\n        if self.periodic_parameters:",
      "x = self.xp.atleast_2d(x)\n        log_abs_det_jacobian = self.xp.zeros(\n            len(x), device=self.device, dtype=self.dtype\n        )\n        if self.periodic_parameters:", "C10.own"),
    M("inverse transform writes into its argument", _T, "x = copy_array(x, xp=self.xp)\n        x = self.xp.atleast_2d(x)\n        log_abs_det_jacobian = self.xp.zeros(\n            len(x), device=self.device, dtype=self.dtype\n        )\n        if self.affine_transform:",
      "x = self.xp.atleast_2d(x)\n        log_abs_det_jacobian = self.xp.zeros(\n            len(x), device=self.device, dtype=self.dtype\n        )\n        if self.affine_transform:", "C10.own"),
    M("fit writes into the fitting data", _T, "x = copy_array(x, xp=self.xp)\n        if self.periodic_parameters:", "if self.periodic_parameters:", "C10.own"),
    M("fit copies only without periodic parameters", _T, "x = copy_array(x, xp=self.xp)\n        if self.periodic_parameters:", "if not self.periodic_parameters:\n            x = copy_array(x, xp=self.xp)\n        if self.periodic_parameters:", "C10.own"),
    M("private helper writes into an array its caller did not copy", _T, "y, log_j_bounded = self._bounded_transform.forward(\n                x[..., self.bounded_mask]\n            )\n            x = update_at_indices(x, (slice(None), self.bounded_mask), y)\n            log_abs_det_jacobian += log_j_bounded", "x, log_j_bounded = self._put_bounded(x, self._bounded_transform.forward)\n            log_abs_det_jacobian += log_j_bounded",
      within="CompositeTransform", more=[("def forward(self, x):\n        x = copy_array(x, xp=self.xp)", "def _put_bounded(self, x, func):\n        y, log_j = func(x[..., self.bounded_mask])\n        x = update_at_indices(x, (slice(None), self.bounded_mask), y)\n        return x, log_j\n\n    def forward(self, x):\n        x = self.xp.asarray(x)")], expect="C10.own"),
    M("saving a flow removes the data transform from its recorded constructor arguments", "src/aspire/flows/torch/flows.py", "config = self.config_dict().copy()\n        data_transform = config.pop(\"data_transform\", None)", "config = self.config_dict()\n        data_transform = config.pop(\"data_transform\", None)\n        config = dict(config)", "C10rt"),
    M("nan patch written into the cached likelihood", "src/aspire/samplers/smc/base.py", "log_prob = update_at_indices(\n            log_prob, self.xp.isnan(log_prob), -self.xp.inf\n        )", "update_at_indices(samples.log_likelihood, self.xp.isnan(log_prob), -self.xp.inf)", "C10.own"),
]
MUTANTS += [
    M("pool wrappers built in a loop over the targets (late-binding lambda: both call the last callable)", "src/aspire/utils.py",
      "self.aspire_instance.log_likelihood = partial(\n                self.original_log_likelihood, map_fn=self.pool.map\n            )",
      "for name in [\"log_likelihood\"] + ([\"log_prior\"] if self.parallelize_prior else []):\n                original = getattr(self.aspire_instance, name)\n                setattr(self.aspire_instance, name, lambda samples, **kw: original(samples, map_fn=self.pool.map, **kw))", "C10.pool"),
]

MUTANTS += [
    M("finiteness tested before the cast to the sample dtype", "src/aspire/samplers/mcmc.py", "new_samples.log_prior = new_samples.array_to_namespace(\n                self.log_prior(new_samples)\n            )\n            valid = self.xp.isfinite(new_samples.log_prior)",
      "lp = self.log_prior(new_samples)\n            valid = self.xp.isfinite(self.xp.asarray(lp))\n            new_samples.log_prior = new_samples.array_to_namespace(lp)", "C10.init"),
]

MUTANTS += [
    M("debug diagnostic sorts the cached log-likelihood in place", "src/aspire/samplers/smc/base.py", "samples = self.mutate(samples, beta)\n                if store_sample_history:", "samples = self.mutate(samples, beta)\n                log_l = self.xp.asarray(samples.log_likelihood)\n                log_l.sort()\n                logger.debug(f\"median log-likelihood: {log_l[len(log_l) // 2]}\")\n                if store_sample_history:", "C10.own"),
]

MUTANTS += [
    M("probit forward drops the unit-interval Jacobian", "src/aspire/transforms.py", "log_abs_det_jacobian = log_abs_det_jacobian + log_j_unit\n        return y, log_abs_det_jacobian\n\n    def inverse(self, y: Array) -> tuple[Array, Array]:\n        from scipy.special import erf",
      "return y, log_abs_det_jacobian\n\n    def inverse(self, y: Array) -> tuple[Array, Array]:\n        from scipy.special import erf", "C10jac"),
]

NEUTRALS = [
    M("debug diagnostic on a sorted copy of the cached log-likelihood", "src/aspire/samplers/smc/base.py", "samples = self.mutate(samples, beta)\n                if store_sample_history:", "samples = self.mutate(samples, beta)\n                log_l = self.xp.sort(samples.log_likelihood)\n                logger.debug(f\"median log-likelihood: {log_l[len(log_l) // 2]}\")\n                if store_sample_history:"),
    __import__("aspire_sa.rules.smcloop", fromlist=["HELPER_NEUTRAL"]).HELPER_NEUTRAL,
    M("bounded step through a private helper that writes into the caller's working copy", _T, "y, log_j_bounded = self._bounded_transform.forward(\n                x[..., self.bounded_mask]\n            )\n            x = update_at_indices(x, (slice(None), self.bounded_mask), y)\n            log_abs_det_jacobian += log_j_bounded", "x, log_j_bounded = self._put_bounded(x, self._bounded_transform.forward)\n            log_abs_det_jacobian += log_j_bounded",
      within="CompositeTransform", more=[("def forward(self, x):\n        x = copy_array(x, xp=self.xp)", "def _put_bounded(self, x, func):\n        y, log_j = func(x[..., self.bounded_mask])\n        x = update_at_indices(x, (slice(None), self.bounded_mask), y)\n        return x, log_j\n\n    def forward(self, x):\n        x = copy_array(x, xp=self.xp)")]),
    M("pool map through an order-preserving helper", "src/aspire/utils.py", "self.original_log_likelihood, map_fn=self.pool.map", "self.original_log_likelihood, map_fn=self._ordered_map",
      more=[("def __enter__(self):\n        self.original_log_likelihood", "def _ordered_map(self, fn, iterable):\n        return list(self.pool.imap(fn, iterable))\n\n    def __enter__(self):\n        self.original_log_likelihood")]),
    M("checkpoint dataset through a local", "src/aspire/utils.py", "target[dsetname][:] = bdata", "dset = target[dsetname]\n    dset[:] = bdata"),
    M("enlargement whenever a final size is requested", "src/aspire/samplers/smc/base.py", "if n_final_samples is not None and len(samples.x) != n_final_samples:", "if n_final_samples is not None:"),
    M("forward copies through a temporary", _T, "x = copy_array(x, xp=self.xp)\n        x = self.xp.atleast_2d(x)\n        log_abs_det_jacobian = self.xp.zeros(\n            len(x), device=self.device, dtype=self.dtype\n        )\n        if self.periodic_parameters:",
      "x2 = copy_array(x, xp=self.xp)\n        x = self.xp.atleast_2d(x2)\n        log_abs_det_jacobian = self.xp.zeros(\n            len(x), device=self.device, dtype=self.dtype\n        )\n        if self.periodic_parameters:"),
    M("initial population: prior converted once, stored and tested through one temporary", "src/aspire/samplers/mcmc.py", "new_samples.log_prior = new_samples.array_to_namespace(\n                self.log_prior(new_samples)\n            )\n            valid = self.xp.isfinite(new_samples.log_prior)",
      "lp = new_samples.array_to_namespace(self.log_prior(new_samples))\n            new_samples.log_prior = lp\n            valid = self.xp.isfinite(lp)"),
    M("minipcn: log_q via temporary", _MP, "samples.log_q = samples.array_to_namespace(\n            self.prior_flow.log_prob(samples.x)\n        )", "lq = self.prior_flow.log_prob(samples.x)\n        samples.log_q = samples.array_to_namespace(lq)"),
    M("initial: guard mirrored", _MC, "while n_samples_drawn < n_samples:", "while n_samples > n_samples_drawn:"),
    M("initial: counter explicit", _MC, "n_samples_drawn += n_valid", "n_samples_drawn = n_valid + n_samples_drawn"),
]

# functions the property is anchored in (auto-mutant sweep of the thorough tier)
ANCHORS = [
    'aspire.samplers.mcmc:MCMCSampler.draw_initial_samples',
    'aspire.samplers.smc.minipcn:MiniPCNSMC.mutate',
    'aspire.samplers.smc.emcee:EmceeSMC.mutate',
    'aspire.samplers.smc.blackjax:BlackJAXSMC.mutate',
    'aspire.samplers.importance:ImportanceSampler.sample',
    'aspire.transforms:CompositeTransform.fit',
    'aspire.transforms:CompositeTransform.forward',
    'aspire.transforms:CompositeTransform.inverse',
]
