"""C12 -- an interrupted run always leaves a loadable, current checkpoint file."""

from __future__ import annotations

import ast

from .. import AnalysisError
from .. import terms as T
from ..cfg import CFG, calls_in
from ..evalr import Evaluator, Frame, State, compare, mk_and, mk_or, negate
from ..model import walk_no_nested
from ..mutants import M
from .common import SELF, fold, loc_of, self_attr
from .smcloop import SMC, find_smc_loop, roles

META = {
    "explanation": (
        "On the CFG of SMCSampler.sample the periodic checkpoint call occurs exactly once per iteration and the forced "
        "checkpoint post-dominates the loop and the loop-skipping branch on every normal path to return; the closure's "
        "condition for invoking the callback == callback set and (force or (every set and every > 0 and iterations % every == 0)) "
        "and the payload is built from the current samples/iteration/temperature. dump_pickle_to_hdf creates the dataset "
        "resizable (maxshape=(None,)) with the buffer's shape when absent, resizes it to the buffer size when the sizes "
        "differ, and stores the whole buffer with a full-slice assignment on every path. The default file callback opens the "
        "file in a with-block per checkpoint and writes to 'checkpoint'/'state', the constants both readers default to. In "
        "sample_posterior, when a checkpoint path is set, the with-block that writes the configuration and the flow dominates "
        "the sampler call."
    ),
    "not_decided": "atomicity of an HDF5 write interrupted inside a single library call",
    "assumptions": ["h5py dataset semantics: resize() changes the extent, dset[:] = buf overwrites the whole extent"],
}


def run(ctx, shared=True):
    repo = ctx.repo
    if shared:
        from ..report import reuse
        from . import c14 as _c14
        reuse(ctx, lambda c: _c14.run(c, shared=False), ("C14.config", "C14.flow"), "C12file", "replace-don't-merge rule shared with C14: the file an interrupted run leaves must hold the configuration and "
              "the proposal of this run, loadable by resume_from_file(); an entry-by-entry overwrite keeps flattened keys of an earlier configuration that the loader folds back in, and a write "
              "that is skipped or raises when the entry exists leaves the earlier one", only=lambda f: f.key.endswith("| delete") or "does not depend on what the file already contains" in f.detail or "is only written when" in f.detail or "is not written before" in f.detail)
    if shared:
        from . import c19 as _c19
        reuse(ctx, _c19.run, ("C19.ac",), "C12ctx", "context rule shared with C19: checkpoint defaults that survive the with-block (an exception in the body skips the restore) make a later "
              "sample_posterior() call, which asked for no checkpointing, rewrite the configuration, the flow and the checkpoint of the interrupted run's file")
    smc = repo.cls(SMC)
    base = repo.cls("aspire.samplers.base:Sampler")
    sample = smc.methods["sample"]
    loop_node = find_smc_loop(sample)
    if loop_node is None:
        ctx.unknown("C12.cad", sample.ident, loc_of(sample), "SMC loop not found")
        return
    g = CFG(sample.node)
    lp = g.loop_of(loop_node)

    from .smcloop import checkpoint_closure
    mc0 = checkpoint_closure(repo)
    cp_name = mc0.name if mc0 is not None else None

    def cp_calls(node, forced):
        out = []
        for c in calls_in(node.ast):
            if isinstance(c.func, ast.Name) and c.func.id == cp_name:
                is_forced = bool(any(k.arg == "force" and isinstance(k.value, ast.Constant) and k.value.value is True for k in c.keywords) or (
                    c.args and isinstance(c.args[0], ast.Constant) and c.args[0].value is True))
                if is_forced == forced:
                    out.append(c)
        return out

    cnt = g.count_range(lp, lambda n: len(cp_calls(n, False)))
    ctx.decide(cnt == (1, 1), "C12.cad", sample.ident, loc_of(sample, loop_node), "the periodic checkpoint call is reached exactly once per iteration",
               f"the periodic checkpoint call is reached between {cnt[0]} and {cnt[1]} times per iteration", disc="periodic")
    forced = [n for n in g.nodes if cp_calls(n, True)]
    pdom = g.postdominators()
    ok = False
    why = "no forced (final) checkpoint call found"
    if forced:
        F = forced[0]
        outside = F not in lp["body"]
        # all tests that can skip the loop
        heads = [lp["head"]] + [n for n in g.nodes if n.kind == "test" and isinstance(n.ast, ast.Name) and any(m is lp["head"] for m, _ in g.succ[n])]
        ok = outside and all(F in pdom.get(h, set()) for h in heads if h in pdom)
        why = "the forced checkpoint does not post-dominate the loop (some path to return skips it)" if not ok else ""
    ctx.decide(ok, "C12.cad", sample.ident, loc_of(sample, forced[0].ast if forced else loop_node),
               "the forced final checkpoint post-dominates the loop and the loop-skipping branch", why, disc="final")

    # cadence predicate of the closure
    mc = mc0
    if mc is None:
        ctx.unknown("C12.cad", sample.ident, loc_of(sample), "checkpoint closure not found", disc="predicate")
    else:
        ev = Evaluator(repo, max_depth=1, no_inline={f"{SMC}.build_checkpoint_state"})
        ev.run(mc, smc)
        ctx.count("functions_folded")
        cb = [e for e in ev.events if e.callee.startswith("call:") and "checkpoint_callback" in e.callee]
        force = T.atom(mc.params[0]) if mc.params else T.atom("force")
        R = roles(repo)
        every, its, cbk = T.atom("checkpoint_every"), T.atom(R.iterations), T.atom("checkpoint_callback")
        want_should = mk_or([force, mk_and([negate(("is", every, T.NONE)), ("cmp", ">", every), ("cmp", "==", ("f", "mod", (its, every), ()))])])
        if len(cb) != 1:
            ctx.unknown("C12.cad", mc.ident, loc_of(mc), f"expected one callback invocation, found {len(cb)}", disc="predicate")
        else:
            conds = cb[0].conds
            pos = []
            for c, pol in conds:
                pos.append(c if pol else negate(c))
            # callback set, and: force or (guards on the cadence option ..., iterations % every == 0)
            cb_guard = [p for p in pos if p == negate(("is", cbk, T.NONE)) or p == cbk]
            rest = [p for p in pos if p not in cb_guard]
            ok = len(cb_guard) == 1 and len(rest) == 1 and rest[0][0] == "or"
            if ok:
                alts = list(rest[0][1])
                ok = force in alts and len(alts) == 2
                cad = [a for a in alts if a != force][0] if ok else None
                if ok:
                    parts = list(cad[1]) if cad[0] == "and" else [cad]
                    hit = ("cmp", "==", ("f", "mod", (its, every), ()))
                    others = [q for q in parts if q != hit]
                    # the remaining conjuncts may only guard the option itself (set / positive), never the iteration
                    allowed = (negate(("is", every, T.NONE)), every, ("cmp", ">", every), ("cmp", ">=", T.sub(every, T.ONE)))
                    ok = hit in parts and all(q in allowed for q in others)
                    # guards must come before the modulo (None % n / n % 0 would raise)
                    ok = ok and (parts.index(hit) == len(parts) - 1 or not others)
            ctx.decide(ok, "C12.cad", mc.ident, loc_of(mc, cb[0].node),
                       "callback invoked iff callback set and (force or (every set and every > 0 and iterations % every == 0))",
                       f"callback invoked under {[T.show(p)[:160] for p in pos]}", disc="predicate")
            st = cb[0].args[0] if cb[0].args else None
            okp = st is not None and st[0] == "f" and "build_checkpoint_state" in st[1] and {T.atom(R.samples), T.atom(R.iterations), T.atom(R.beta)} <= set(st[2]) | {v for _, v in st[3]}
            ctx.decide(okp, "C12.cad", mc.ident, loc_of(mc, cb[0].node), "the payload handed to the callback is built from the current samples, iteration and temperature",
                       f"the callback receives {T.show(st)[:160] if st else None}", disc="payload")

    wiring_rule(ctx, repo)
    # ---- who may remove the stored checkpoint: nobody (a resumed run holds it only in memory until its next write)
    ck_names = {"checkpoint"}
    dels = []
    for f_ in repo.all_functions():
        for n_ in walk_no_nested(f_.node):
            tg = []
            if isinstance(n_, ast.Delete):
                tg = [t for t in n_.targets if isinstance(t, ast.Subscript)]
            elif isinstance(n_, ast.Call) and isinstance(n_.func, ast.Attribute) and n_.func.attr == "pop" and n_.args:
                tg = [ast.Subscript(value=n_.func.value, slice=n_.args[0], ctx=ast.Load())]
            for t in tg:
                if isinstance(t.slice, ast.Constant) and t.slice.value in ck_names and not (isinstance(t.value, ast.Name) and t.value.id in ("kwargs", "config", "state", "dictionary", "config_dict")):
                    dels.append((f_, n_))
    ctx.decide(not dels, "C12.blob", "package", loc_of(dels[0][0], dels[0][1]) if dels else "src/aspire",
               "no code removes the stored checkpoint group from the file",
               (f"{dels[0][0].ident} deletes the 'checkpoint' group of the file: a resumed run interrupted before its next checkpoint leaves a file with configuration and flow "
                "but no checkpoint at all") if dels else "", disc="delete")
    # who may create the checkpoint group: only the blob writer, which creates the dataset in the same breath.  A group made ahead of time (an eager
    # "can I write here?" probe) leaves, after an interruption before the first cadence checkpoint, a file whose checkpoint group exists and is empty --
    # a state the resume route has to treat as "no checkpoint" and a membership test on the group name does not
    makers = []
    for f_ in repo.all_functions():
        if f_.name in ("dump_pickle_to_hdf", "dump_state"):
            continue
        for n_ in walk_no_nested(f_.node):
            if isinstance(n_, ast.Call) and isinstance(n_.func, ast.Attribute) and n_.func.attr in ("require_group", "create_group") and n_.args \
                    and isinstance(n_.args[0], ast.Constant) and n_.args[0].value in ck_names:
                makers.append((f_, n_))
    ctx.decide(not makers, "C12.blob", "package", loc_of(makers[0][0], makers[0][1]) if makers else "src/aspire",
               "only the blob writer creates the checkpoint group (together with its dataset)",
               (f"{makers[0][0].ident} creates the 'checkpoint' group without storing a payload in it: a run interrupted before its first checkpoint leaves a file with an empty checkpoint "
                "group, which a reader that tests for the group and then opens the dataset cannot load") if makers else "", disc="maker")
    # the context's defaults fill in what the caller left out -- they do not replace a cadence the caller passed: an assignment `param = defaults[...]` to a
    # parameter of sample_posterior must sit under a test of that parameter (None / a sentinel), not only under "no checkpoint_path was given"
    spw = repo.cls("aspire.aspire:Aspire").methods["sample_posterior"]
    parw = {ch: p_ for p_ in ast.walk(spw.node) for ch in ast.iter_child_nodes(p_)}
    n_fill = 0
    for n_ in walk_no_nested(spw.node):
        if not (isinstance(n_, ast.Assign) and len(n_.targets) == 1 and isinstance(n_.targets[0], ast.Name) and n_.targets[0].id in spw.params
                and isinstance(n_.value, ast.Subscript) and isinstance(n_.value.value, ast.Name) and "default" in n_.value.value.id):
            continue
        pn_ = n_.targets[0].id
        if pn_ != "checkpoint_every":
            continue  # the cadence is what C12 speaks about
        n_fill += 1
        tests, cur = [], n_
        while cur in parw:
            cur = parw[cur]
            if isinstance(cur, ast.If):
                tests.append(cur.test)
        looks = any(isinstance(x, ast.Name) and x.id == pn_ for t_ in tests for x in ast.walk(t_))
        ctx.decide(looks, "C12.wire", spw.ident, loc_of(spw, n_), f"the context default for `{pn_}` is used only when the caller gave none",
                   f"`{ast.unparse(n_)[:60]}` replaces the caller's `{pn_}` whenever no checkpoint_path was passed: inside auto_checkpoint(f, every=1) an explicit "
                   f"sample_posterior(..., {pn_}=3) checkpoints at the context's cadence, not at the requested one", disc=f"override|{pn_}")
    ctx.count("context_defaults_filled_into_parameters", n_fill)
    # a checkpoint *file* is a request for checkpoints: the default file callback is built whenever a file path is given, not only when a cadence is
    from .smcloop import SMC as _SMC2
    smp2 = repo.cls(_SMC2).methods["sample"]
    builds = [n_ for n_ in walk_no_nested(smp2.node) if isinstance(n_, ast.If) and any(
        isinstance(c_, ast.Call) and isinstance(c_.func, ast.Attribute) and c_.func.attr == "default_file_checkpoint_callback" for b_ in n_.body for c_ in ast.walk(b_))]
    if len(builds) != 1:
        ctx.unknown("C12.default", smp2.ident, loc_of(smp2), f"expected one place where the default file callback is built, found {len(builds)}", disc="path")
    else:
        names_ = {x.id for x in ast.walk(builds[0].test) if isinstance(x, ast.Name)}
        ctx.decide("checkpoint_file_path" in names_, "C12.default", smp2.ident, loc_of(smp2, builds[0]),
                   "the default file callback is built whenever a checkpoint file is given",
                   f"the default file callback is built only under `{ast.unparse(builds[0].test)[:70]}`, which does not look at checkpoint_file_path: a run given a checkpoint file but no cadence "
                   "(checkpoint_every=None) has no callback, so neither a cadence checkpoint nor the forced final one is written and the file holds configuration and flow only", disc="path")
    from .smcloop import forwarding_rule
    nf = forwarding_rule(ctx, "C12.route", ("checkpoint_callback", "checkpoint_every", "checkpoint_file_path"),
                         "with that sampler the checkpoint file / cadence / callback requested by the caller never reaches the SMC loop, so nothing (or only an in-memory copy) is checkpointed")
    ctx.floor("checkpoint options forwarded by sample() overrides", nf, 9)
    # ---- the front end decides by *signature inspection* whether a sampler can checkpoint: the names it looks for must be named
    #      parameters of sample() as resolved for every sampler class that inherits the checkpointing loop
    A_ = repo.cls("aspire.aspire:Aspire")
    sp_ = A_.methods["sample_posterior"]
    probed = set()
    for n_ in walk_no_nested(sp_.node):
        if isinstance(n_, ast.Call) and isinstance(n_.func, ast.Attribute) and n_.func.attr in ("issubset", "issuperset") and isinstance(n_.func.value, ast.Set):
            if any(isinstance(x, ast.Attribute) and x.attr == "parameters" for a_ in n_.args for x in ast.walk(a_)):
                probed |= {e_.value for e_ in n_.func.value.elts if isinstance(e_, ast.Constant) and isinstance(e_.value, str)}
        if isinstance(n_, ast.Compare) and isinstance(n_.left, ast.Constant) and isinstance(n_.left.value, str) and any(isinstance(o_, (ast.In, ast.NotIn)) for o_ in n_.ops) \
                and any(isinstance(x, ast.Attribute) and x.attr == "parameters" for c_ in n_.comparators for x in ast.walk(c_)):
            probed.add(n_.left.value)
    from .smcloop import SMC as _SMC
    smc_ = repo.cls(_SMC)
    n_probe = 0
    if not probed:
        ctx.unknown("C12.probe", sp_.ident, loc_of(sp_), "the front end's test for checkpoint support was not recognised (expected a set of parameter names tested against signature(sample).parameters)")
    for c_ in repo.subclasses(smc_):
        sm_ = c_.resolve("sample")
        if sm_ is None or not probed:
            continue
        named = set(sm_.params[1:]) | {x.arg for x in sm_.node.args.kwonlyargs}
        miss = sorted(probed - named)
        n_probe += 1
        ctx.decide(not miss, "C12.probe", f"{c_.ident}.sample", loc_of(sm_), f"{c_.name}.sample names {sorted(probed)} in its signature: sample_posterior recognises its checkpoint support",
                   f"{c_.name}.sample does not name {miss} in its signature (it {'takes them through **' + sm_.node.args.kwarg.arg if sm_.node.args.kwarg is not None else 'does not accept them'}), but "
                   f"sample_posterior decides by signature inspection whether to hand on checkpoint_path: with this sampler the warning branch is taken, no checkpoint is written, "
                   "and an interrupted run leaves a file with configuration and flow only", disc="|".join(miss))
    ctx.floor("sampler classes probed for checkpoint support", n_probe, 4)
    # default wiring of the callback and the cadence
    from .smcloop import fold_sample
    sfd = fold_sample(repo, resumed=False, final=False)
    if sfd.loop is not None:
        pre = sfd.loop["pre"]
        cbv, evv = pre.get("checkpoint_callback"), pre.get("checkpoint_every")
        cbk_, every_ = T.atom("checkpoint_callback"), T.atom("checkpoint_every")
        want_c = mk_and([("is", cbk_, T.NONE), negate(("is", every_, T.NONE))])
        okd = cbv is not None and cbv[0] == "phi" and cbv[1] == want_c and T.select(cbv, want_c, False) == cbk_ \
            and T.select(cbv, want_c, True)[0] == "f" and "default_file_checkpoint_callback" in T.select(cbv, want_c, True)[1] \
            and T.atom("checkpoint_file_path") in T.select(cbv, want_c, True)[2]
        ctx.decide(okd, "C12.default", sample.ident, loc_of(sample), "a cadence without a callback installs the default file callback for the given path; a given callback is kept",
                   f"the checkpoint callback in force is {T.show(cbv)[:200] if cbv else None}", disc="callback")
        # exactly: (a callback is in force -- the given one, or the default just installed) and no cadence was given
        accept_e = [mk_and([negate(("is", c_, T.NONE)), ("is", every_, T.NONE)]) for c_ in (cbv, cbk_) if c_ is not None]
        oke = evv is not None and evv[0] == "phi" and T.select(evv, evv[1], True) == T.ONE and T.select(evv, evv[1], False) == every_ \
            and evv[1] in accept_e
        ctx.decide(oke, "C12.default", sample.ident, loc_of(sample), "a callback without a cadence checkpoints every iteration; a given cadence is kept",
                   f"the cadence in force is {T.show(evv)[:200] if evv else None}", disc="every")

    # ------------------------------------------------ the blob writer
    dp = repo.func("aspire.utils:dump_pickle_to_hdf")
    ev = Evaluator(repo, max_depth=1)
    ev.run(dp, None)
    ctx.count("functions_folded")
    ds, memfp = T.atom("dsetname"), T.atom("memfp")
    bdata = None
    for e in ev.events:
        if e.callee.endswith("frombuffer"):
            bdata = e.result
    # typestate of the dataset: whatever the file held before, the call leaves a dataset of the new length holding the new buffer
    from . import blobstate
    try:
        bl = blobstate.Blob(dp)
    except blobstate.Undecided as ex:
        bl = None
        ctx.unknown("C12.blob", dp.ident, loc_of(dp), str(ex), disc="state")
    if bl is not None:
        for case in blobstate.CASES:
            try:
                st = bl.run_case(case)
            except blobstate.Undecided as ex:
                ctx.unknown("C12.blob", dp.ident, loc_of(dp), f"[file before the call: {case}] {ex}", disc=case)
                continue
            except blobstate.Raises as ex:
                ctx.refute("C12.blob", dp.ident, loc_of(dp), f"[file before the call: {case}] {ex}: the checkpoint is not written", disc=case)
                continue
            why = "no dataset is left in the file" if not st["exists"] else \
                ("the dataset keeps its old length (a shorter payload leaves a stale suffix, a longer one is truncated or raises)" if st["rel"] != 0 else
                 "the new payload is not stored: the file keeps the previous checkpoint (or an empty dataset), complete and loadable but stale")
            ctx.decide(st["exists"] and st["rel"] == 0 and st["holds"], "C12.blob", dp.ident, loc_of(dp),
                       f"[file before the call: {case}] afterwards the dataset exists, has the buffer's length and holds the whole buffer",
                       f"[file before the call: {case}] {why}", disc=case)
        ctx.floor("dataset operations interpreted in the blob writer", bl.n_effects, 3)
        if bl.has_resize:
            def _unbounded(e):
                e = bl._res(e) if e is not None else None
                return isinstance(e, ast.Tuple) and len(e.elts) == 1 and isinstance(bl._res(e.elts[0]), ast.Constant) and bl._res(e.elts[0]).value is None
            nores = [c for c, kw in {id(c): (c, kw) for c, kw in bl.creates}.values() if not _unbounded(kw.get("maxshape"))]
            ctx.decide(not nores, "C12.blob", dp.ident, loc_of(dp, nores[0] if nores else None),
                       "the writer resizes an existing dataset, and every dataset it creates is resizable (maxshape=(None,))",
                       "the writer resizes an existing dataset but creates it without maxshape=(None,): the second checkpoint of a different size raises", disc="resizable")
    okb = bdata is not None and any(s and s[0] == "f" and s[1] == "method:read" and s[2][0] == memfp for s in T.subterms(bdata))
    seeks = [e for e in ev.events if e.callee == "method:seek" and e.args[0] == memfp and e.args[1] == T.ZERO]
    ctx.decide(okb and bool(seeks), "C12.blob", dp.ident, loc_of(dp), "the buffer is the whole pickled stream (seek(0) then read())",
               "the stored buffer is not the whole pickled stream", disc="buffer")

    # ------------------------------------------------ file callback: open per checkpoint, constants
    dfc = base.methods.get("default_file_checkpoint_callback")
    cbn = next(iter(dfc.nested.values()), None) if dfc else None
    writer_consts = None
    if cbn is None:
        ctx.unknown("C12.close", dfc.ident if dfc else "Sampler", "src/aspire/samplers/base.py", "file checkpoint callback not found")
    else:
        withs = [n for n in walk_no_nested(cbn.node) if isinstance(n, ast.With)]
        good = False
        for w in withs:
            item = w.items[0]
            ce = item.context_expr
            if isinstance(ce, ast.Call) and isinstance(ce.func, ast.Name) and ce.func.id in ("AspireFile", "File") and isinstance(item.optional_vars, ast.Name):
                mode = ce.args[1].value if len(ce.args) > 1 and isinstance(ce.args[1], ast.Constant) else None
                handle = item.optional_vars.id
                for c in ast.walk(w):
                    if isinstance(c, ast.Call) and isinstance(c.func, ast.Attribute) and c.func.attr == "save_checkpoint_to_hdf":
                        uses = any(isinstance(a, ast.Name) and a.id == handle for a in c.args)
                        if uses and mode in ("a", "r+", "w"):
                            good = True
                            kws = {k.arg: k.value.value for k in c.keywords if isinstance(k.value, ast.Constant)}
                            writer_consts = (kws.get("path"), kws.get("dsetname"))
        leaks = [n for n in ast.walk(cbn.node) if isinstance(n, ast.Attribute) and isinstance(n.ctx, ast.Store)]
        ctx.decide(good and not leaks, "C12.close", cbn.ident, loc_of(cbn),
                   "each checkpoint is written inside its own with-block on a freshly opened file (closed before the callback returns)",
                   "the checkpoint write is not enclosed in a per-checkpoint with-block on the opened file (the handle may stay open across iterations)")
    lcf = base.methods.get("load_checkpoint_from_file")
    A = repo.cls("aspire.aspire:Aspire")
    rff = A.methods.get("resume_from_file")
    def defaults(f, names):
        d = f.param_defaults()
        return tuple(d[n].value if n in d and isinstance(d[n], ast.Constant) else None for n in names)
    r1 = defaults(lcf, ("h5_path", "dsetname")) if lcf else None
    r2 = defaults(rff, ("checkpoint_path", "checkpoint_dset")) if rff else None
    ok = writer_consts is not None and None not in writer_consts and r1 == writer_consts and r2 == writer_consts
    ctx.decide(ok, "C12.route", "checkpoint path constants", "src/aspire/samplers/base.py",
               f"writer group/dataset {writer_consts} == defaults of load_checkpoint_from_file and resume_from_file",
               f"writer stores the checkpoint at {writer_consts} but load_checkpoint_from_file defaults to {r1} and resume_from_file to {r2}: the documented resume route cannot find it")
    # save_checkpoint_to_hdf forwards to dump_state with the given names
    sch = base.methods.get("save_checkpoint_to_hdf")
    ev2, _ = fold(repo, sch, base, max_depth=1, no_inline={"aspire.utils:dump_state", "aspire.utils:dump_pickle_to_hdf"})
    ds_ev = [e for e in ev2.events if e.callee in ("aspire.utils:dump_state", "aspire.utils:dump_pickle_to_hdf")]
    dsv = dict(ds_ev[0].kwargs).get("dsetname", T.NONE) if ds_ev else T.NONE
    ok = len(ds_ev) == 1 and dict(ds_ev[0].kwargs).get("path") == T.atom("path") and T.select(dsv, ("is", T.atom("dsetname"), T.NONE), False) == T.atom("dsetname") \
        and ds_ev[0].args[1:2] == (T.atom("h5_file"),)
    ctx.decide(ok, "C12.route", sch.ident, loc_of(sch), "save_checkpoint_to_hdf forwards file, group and dataset name to the blob writer",
               "save_checkpoint_to_hdf does not forward the given file / group / dataset name to the blob writer (dump_state / dump_pickle_to_hdf)", disc="forward")
    # what is written is this call's state, pickled into a buffer that holds nothing else: either dump_state(state, ...) -- which pickles into a buffer of
    # its own -- or a buffer created in this very call.  A buffer kept on the object and rewound with seek(0) still holds the tail of the previous (longer)
    # payload, and the blob writer stores the whole buffer.
    for fn_, evx_ in [(sch, ev2)] + [(repo.func("aspire.utils:dump_state"), fold(repo, repo.func("aspire.utils:dump_state"), None, max_depth=0)[0])]:
        for e_ in evx_.events:
            if e_.callee == "aspire.utils:dump_state" and fn_ is sch:
                ctx.decide(e_.args[:1] == (T.atom("state"),), "C12.buf", fn_.ident, loc_of(fn_, e_.node), "the state handed to dump_state is this call's state",
                           f"dump_state is handed {T.show(e_.args[0])[:80] if e_.args else 'nothing'}, not the state of this checkpoint", disc="state")
            if not e_.callee.endswith("dump_pickle_to_hdf"):
                continue
            buf = e_.args[0] if e_.args else None
            fresh = buf is not None and ((buf[0] == "f" and buf[1].rsplit(".", 1)[-1] == "BytesIO" and not buf[2]) or (buf[0] == "obj"))
            dumps = [d_ for d_ in evx_.events if d_.callee.endswith("pickle.dump") and len(d_.args) >= 2 and d_.args[1] == buf and d_.seq < e_.seq]
            trunc = [d_ for d_ in evx_.events if d_.callee == "method:truncate" and d_.args and d_.args[0] == buf and dumps and dumps[-1].seq < d_.seq < e_.seq]
            state_ok = len(dumps) == 1 and dumps[0].args[0] == T.atom("state")
            ctx.decide(bool(fresh or trunc) and state_ok, "C12.buf", fn_.ident, loc_of(fn_, e_.node),
                       "the blob written is one pickle of this call's state in a buffer created for it (or truncated after the dump)",
                       (f"the buffer handed to the blob writer is {T.show(buf)[:80] if buf else 'missing'}" + (", which outlives the call and is only rewound, not truncated: after a longer checkpoint a shorter "
                        "one is followed by the tail of the old payload, and the file holds bytes that are not the pickle of any state" if not (fresh or trunc) else "")
                        + ("" if state_ok else "; it does not hold exactly one pickle of this call's state")), disc="fresh")
    ctx.count("blob_buffers_checked", 1)
    # the callback built for a file path writes to that file; only "no path" gives the in-memory callback
    dfc = base.methods.get("default_file_checkpoint_callback")
    fp_ = T.atom(dfc.params[1])
    r_none = T.strip_raise(Evaluator(repo, max_depth=1, assume=lambda c: True if c == ("is", fp_, T.NONE) else None).run(dfc, base))
    r_path = T.strip_raise(Evaluator(repo, max_depth=1, assume=lambda c: False if c == ("is", fp_, T.NONE) else None).run(dfc, base))
    closures = {f"{dfc.ident}.<locals>.{n}" for n in dfc.nested}
    okcb = r_path[0] == "ref" and r_path[1] in closures and not (r_none[0] == "ref" and r_none[1] in closures)
    writes = False
    if okcb:
        cbf = repo.func(r_path[1])
        evc = Evaluator(repo, max_depth=0)
        evc.run(cbf, base, args={})
        opens = [e for e in evc.events if e.callee.endswith("AspireFile") and e.args and e.args[1:2] == (T.K("a"),)]
        saves = [e for e in evc.events if e.callee.endswith("save_checkpoint_to_hdf") and not e.conds]
        writes = len(opens) == 1 and len(saves) == 1 and T.atom(cbf.params[0]) in saves[0].args
    ctx.decide(okcb and writes, "C12.route", dfc.ident, loc_of(dfc), "for a file path the default callback is the closure that appends the state to that file; the in-memory callback is used only without a path",
               f"for a file path default_file_checkpoint_callback returns {T.show(r_path)[:100]} (without a path: {T.show(r_none)[:80]}): checkpoints do not reach the file", disc="callback")
    dst = repo.func("aspire.utils:dump_state")
    ev3, _ = fold(repo, dst, None, max_depth=1, no_inline={"aspire.utils:dump_pickle_to_hdf"})
    pk = [e for e in ev3.events if e.callee.endswith("pickle.dump")]
    dpe = [e for e in ev3.events if e.callee == "aspire.utils:dump_pickle_to_hdf"]
    ok = len(pk) == 1 and len(dpe) == 1 and pk[0].args[0] == T.atom("state") and pk[0].args[1] == dpe[0].args[0] and dpe[0].args[1] == T.atom("fp") \
        and dict(dpe[0].kwargs).get("path") == T.atom("path") and dict(dpe[0].kwargs).get("dsetname") == T.atom("dsetname")
    ctx.decide(ok, "C12.route", dst.ident, loc_of(dst), "dump_state pickles the state into the buffer it hands to dump_pickle_to_hdf with the same group/dataset",
               "dump_state does not hand the pickled state and the given group/dataset to dump_pickle_to_hdf", disc="dump_state")

    # ------------------------------------------------ config + flow before sampling
    sp = A.methods.get("sample_posterior")
    gs = CFG(sp.node)
    smp = [n for n in gs.nodes for c in calls_in(n.ast) if isinstance(c.func, ast.Attribute) and c.func.attr == "sample"
           and isinstance(c.func.value, ast.Attribute) and c.func.value.attr == "_sampler"]
    if len(smp) != 1:
        ctx.unknown("C12.before", sp.ident, loc_of(sp), f"expected one sampler.sample call, found {len(smp)}")
        return
    S = smp[0]
    writes = []
    for n in gs.nodes:
        if n.kind == "with" and isinstance(n.ast, ast.With):
            names = {c.func.attr for c in ast.walk(n.ast) if isinstance(c, ast.Call) and isinstance(c.func, ast.Attribute)}
            if {"save_config", "save_flow"} <= names:
                writes.append(n)
    tests = [n for n in gs.nodes if n.kind == "test" and isinstance(n.ast, ast.Compare) and isinstance(n.ast.left, ast.Name)
             and n.ast.left.id == "checkpoint_path" and isinstance(n.ast.ops[0], ast.IsNot)]
    before = [w for w in writes if w.lineno < S.lineno]
    ok = False
    if before and tests:
        W = before[0]
        skip = lambda a, b, lab: (a in tests and lab == "false")
        # can the sampler call be reached from entry without passing W when a checkpoint path is set?
        seen, todo, reach = set(), [gs.entry], False
        while todo:
            n = todo.pop()
            if n in seen or n is W:
                continue
            seen.add(n)
            if n is S:
                reach = True
                break
            for m, lab in gs.succ[n]:
                if lab == "exc" or skip(n, m, lab):
                    continue
                todo.append(m)
        ok = not reach
    ctx.decide(ok, "C12.before", sp.ident, loc_of(sp, S.ast),
               "with a checkpoint path, the block writing the configuration and the flow dominates the sampler call",
               "with a checkpoint path set, the sampler can start (and be interrupted) before the configuration and the flow are in the file: the documented resume route then fails")
    # inside that block: config saved when requested, flow saved when the instance has one and the file lacks it
    if before:
        W = before[0].ast
        cfg_calls = [c for c in ast.walk(W) if isinstance(c, ast.Call) and isinstance(c.func, ast.Attribute) and c.func.attr == "save_config"]
        flow_calls = [c for c in ast.walk(W) if isinstance(c, ast.Call) and isinstance(c.func, ast.Attribute) and c.func.attr == "save_flow"]
        parents = {ch: p for p in ast.walk(W) for ch in ast.iter_child_nodes(p)}
        def guards(node):
            out = []
            cur = node
            while cur is not W:
                p = parents[cur]
                if isinstance(p, ast.If) and cur in p.body:
                    out.append(ast.unparse(p.test))
                elif isinstance(p, ast.If) and cur in p.orelse:
                    out.append("not (" + ast.unparse(p.test) + ")")
                cur = p
            return out
        fr = Frame(Evaluator(repo), sp, A, 0)
        gcfg = guards(cfg_calls[0]) if cfg_calls else None
        ok = gcfg is not None and all(g in ("checkpoint_save_config",) for g in gcfg)
        ctx.decide(ok, "C12.before", sp.ident, loc_of(sp, cfg_calls[0] if cfg_calls else W),
                   "before sampling the configuration is written whenever saving it is requested",
                   f"before sampling the configuration is only written under {gcfg}", disc="config")
        # the proposal: written whenever the instance has one -- no flag, default or file content may switch it off
        if flow_calls:
            from ..evalr import State
            me_ = T.atom(sp.params[0])
            gts = []
            cur = flow_calls[0]
            while cur is not W:
                p_ = parents[cur]
                if isinstance(p_, ast.If):
                    gts.append((fr.eval(p_.test, State()), cur in p_.body or any(cur is x for b in p_.body for x in ast.walk(b))))
                cur = p_
            foreign = [(t, pol) for t, pol in gts if any((x[0] == "a" and x != me_) or (x[0] == "attr" and x[1] == me_ and x[2] != "flow") for x in T.subterms(t) if x)]
            ctx.decide(not foreign, "C12.before", sp.ident, loc_of(sp, flow_calls[0]),
                       "before sampling the flow is written whenever the instance has one (the only guard is on self.flow)",
                       f"before sampling the flow is written only when {[('' if pol else 'not ') + T.show(t)[:70] for t, pol in foreign]}: with that switched off a run that is "
                       "interrupted leaves a file with a checkpoint but no proposal, which the documented resume route cannot load", disc="flow")
        else:
            ctx.refute("C12.before", sp.ident, loc_of(sp, W), "the block before the sampler call does not write the flow", disc="flow")


def wiring_rule(ctx, repo):
    """C12.wire: the file and cadence handed to the sampler by sample_posterior are
    the explicit arguments, else the defaults of the auto-checkpoint context."""
    A = repo.cls("aspire.aspire:Aspire")
    sp = A.methods["sample_posterior"]
    ev = Evaluator(repo, max_depth=0)
    ev.run(sp, A)
    me = T.atom(sp.params[0])
    cp, ce, csc = T.atom("checkpoint_path"), T.atom("checkpoint_every"), T.atom("checkpoint_save_config")
    # the defaults object: getattr(self, "_checkpoint_defaults", None) or the attribute read directly
    D = next((s_ for e in ev.events for a in list(e.args) + [v_ for _, v_ in e.kwargs] for s_ in T.subterms(a)
              if s_ and ((s_[0] == "f" and s_[1] == "getattr" and len(s_[2]) >= 2 and s_[2][1] == T.K("_checkpoint_defaults")) or s_ == ("attr", me, "_checkpoint_defaults"))), None)
    sets = {e.args[1][1]: e for e in ev.events if e.func is sp and e.callee == "method:setdefault" and len(e.args) == 3 and e.args[1][0] == "k"}
    if D is None or "checkpoint_file_path" not in sets or "checkpoint_every" not in sets:
        ctx.refute("C12.wire", sp.ident, loc_of(sp), "sample_posterior does not hand checkpoint_file_path / checkpoint_every to the sampler "
                   "(no setdefault on the sampler keyword arguments, or the auto-checkpoint defaults are never read): no checkpoint is written during the run")
        return

    def oracle(in_context):
        def o(c):
            if c == ("is", cp, T.NONE):
                return in_context
            if c == D:
                return in_context
            return None
        return o

    def flat(conds):
        out = set()
        for c, pol in conds:
            while c[0] == "not":
                c, pol = c[1], not pol
            if c[0] == "and" and pol:
                out |= flat([(x, True) for x in c[1]])
            else:
                out.add((c, pol))
        return out
    for key, explicit, dkey in (("checkpoint_file_path", cp, "path"), ("checkpoint_every", ce, "every")):
        v = sets[key].args[2]
        ok = T.resolve(v, oracle(True)) == ("s", D, T.K(dkey)) and T.resolve(v, oracle(False)) == explicit
        ctx.decide(ok, "C12.wire", sp.ident, loc_of(sp, sets[key].node), f"the sampler's {key} is the explicit argument, else the auto-checkpoint context's '{dkey}'",
                   f"the sampler's {key} is {T.show(v)[:160]}: inside an auto-checkpoint context the run does not checkpoint to the context's file at its cadence, "
                   "or an explicit argument is overridden", disc=key)
    P = sets["checkpoint_file_path"].args[2]
    fc = flat(sets["checkpoint_file_path"].conds)
    sub = [c for c, pol in fc if c[0] == "f" and c[1] == "method:issubset" and pol]
    okg = (("is", P, T.NONE), False) in fc and len(sub) == 1 and len(fc) == 2 and sets["checkpoint_every"].conds == sets["checkpoint_file_path"].conds
    ctx.decide(okg, "C12.wire", sp.ident, loc_of(sp, sets["checkpoint_file_path"].node), "file and cadence are handed over whenever a checkpoint file is in force and the sampler's sample() accepts them",
               "checkpoint_file_path / checkpoint_every are handed to the sampler under " + " and ".join(("" if p_ else "not ") + T.show(c_)[:50] for c_, p_ in sorted(fc, key=repr)), disc="guard")
    files = [e for e in ev.events if e.func is sp and e.callee.startswith("new:") and e.callee.endswith("AspireFile")]
    run = [e for e in ev.events if e.func is sp and e.callee == "method:sample"]
    pre = [e for e in files if run and e.seq < run[0].seq]
    okf = len(pre) == 1 and tuple(pre[0].args[:2]) == (P, T.K("a")) and flat(pre[0].conds) == {(("is", P, T.NONE), False)}
    ctx.decide(okf, "C12.wire", sp.ident, loc_of(sp, pre[0].node if pre else None), "the file prepared before sampling is the one handed to the sampler, opened for appending whenever a checkpoint file is in force",
               "the file opened before sampling is not (only) the checkpoint file in force, opened in append mode", disc="file")
    cfgs = [e for e in ev.events if e.func is sp and e.callee.endswith("Aspire.save_config") and run and e.seq < run[0].seq]
    okc = False
    if len(cfgs) == 1:
        rest = flat(cfgs[0].conds) - {(("is", P, T.NONE), False)}
        okc = len(rest) == 1 and list(rest)[0][1] is True and T.resolve(list(rest)[0][0], oracle(True)) == ("s", D, T.K("save_config")) and T.resolve(list(rest)[0][0], oracle(False)) == csc
    ctx.decide(okc, "C12.wire", sp.ident, loc_of(sp, cfgs[0].node if cfgs else None), "before sampling the configuration is written iff saving it is requested (argument, else the context's 'save_config')",
               "the pre-sampling configuration write is not controlled by checkpoint_save_config / the context's save_config alone", disc="config")


_B = "src/aspire/samplers/smc/base.py"
_SB = "src/aspire/samplers/base.py"
_U = "src/aspire/utils.py"
_A = "src/aspire/aspire.py"
MUTANTS = [
    M("final checkpoint only when looping", _B, "maybe_checkpoint(force=True)\n", "if run_smc_loop:\n            maybe_checkpoint(force=True)\n", "C12.cad"),
    M("periodic checkpoint skipped at beta=1", _B, "maybe_checkpoint()\n                if beta == 1.0 or (", "if beta < 1.0:\n                    maybe_checkpoint()\n                if beta == 1.0 or (", "C12.cad"),
    M("cadence off by one", _B, "and iterations % checkpoint_every == 0", "and iterations % checkpoint_every == 1", "C12.cad"),
    M("cadence ignores force", _B, "should_checkpoint = force or (", "should_checkpoint = (", "C12.cad"),
    M("no resize on overwrite", _U, "elif bdata.size != target[dsetname].shape[0]:\n        target[dsetname].resize((bdata.size,))", "", "C12.blob"),
    M("resize only when growing", _U, "elif bdata.size != target[dsetname].shape[0]:", "elif bdata.size > target[dsetname].shape[0]:", "C12.blob"),
    M("dataset not resizable", _U, "dsetname, shape=bdata.shape, maxshape=(None,), dtype=bdata.dtype", "dsetname, shape=bdata.shape, dtype=bdata.dtype", "C12.blob"),
    M("equal-length payload not written (dataset replaced only when the size changes)", _U, "if dsetname not in target:\n        target.create_dataset(\n            dsetname, shape=bdata.shape, maxshape=(None,), dtype=bdata.dtype\n        )\n    elif bdata.size != target[dsetname].shape[0]:\n        target[dsetname].resize((bdata.size,))\n    target[dsetname][:] = bdata",
      "if dsetname in target and target[dsetname].shape != bdata.shape:\n        del target[dsetname]\n    if dsetname not in target:\n        target.create_dataset(dsetname, data=bdata, maxshape=(None,))", "C12.blob"),
    M("created empty, stored only on overwrite", _U, "elif bdata.size != target[dsetname].shape[0]:\n        target[dsetname].resize((bdata.size,))\n    target[dsetname][:] = bdata", "else:\n        if bdata.size != target[dsetname].shape[0]:\n            target[dsetname].resize((bdata.size,))\n        target[dsetname][:] = bdata", "C12.blob"),
    M("store only when sizes differ", _U, "target[dsetname].resize((bdata.size,))\n    target[dsetname][:] = bdata", "target[dsetname].resize((bdata.size,))\n        target[dsetname][:] = bdata", "C12.blob"),
    M("writer uses another dataset name", _SB, "state, h5_file, path=\"checkpoint\", dsetname=\"state\"", "state, h5_file, path=\"checkpoint\", dsetname=\"latest\"", "C12.route"),
    M("reader default group renamed", _A, "checkpoint_path: str = \"checkpoint\",", "checkpoint_path: str = \"checkpoints\",", "C12.route"),
    M("config and flow written after sampling only", _A, "if checkpoint_path is not None:\n            # Check if sampler supports checkpointing", "if False:\n            # Check if sampler supports checkpointing", "C12.before"),
    M("pre-sampling flow write switched off by the context's save_flow default", _A, "if self.flow is not None:\n                    # Always store the flow", "if self.flow is not None and (defaults or {}).get(\"save_flow\", True):\n                    # Always store the flow", "C12.before"),
    M("file handle kept open", _SB, "with AspireFile(file_path, \"a\") as h5_file:\n                self.save_checkpoint_to_hdf(\n                    state, h5_file, path=\"checkpoint\", dsetname=\"state\"\n                )",
      "self._h5 = AspireFile(file_path, \"a\")\n            self.save_checkpoint_to_hdf(\n                self._h5 and state, self._h5, path=\"checkpoint\", dsetname=\"state\"\n            )", "C12.close"),
]
MUTANTS += [
    M("context defaults override an explicit path", _A, "if checkpoint_path is None and defaults:\n            checkpoint_path = defaults[\"path\"]", "if checkpoint_path is not None and defaults:\n            checkpoint_path = defaults[\"path\"]", "C12.wire", within="Aspire.sample_posterior"),
    M("context cadence ignored", _A, "checkpoint_every = defaults[\"every\"]\n            checkpoint_save_config = defaults[\"save_config\"]\n        saved_flow", "checkpoint_save_config = defaults[\"save_config\"]\n        saved_flow", "C12.wire"),
    M("file path not handed to the sampler", _A, "kwargs.setdefault(\"checkpoint_file_path\", checkpoint_path)\n", "", "C12.wire"),
    M("handover only for samplers without checkpoint support", _A, "if not {\"checkpoint_file_path\", \"checkpoint_every\"}.issubset(", "if {\"checkpoint_file_path\", \"checkpoint_every\"}.issubset(", "C12.wire"),
    M("file callback only without a path", _SB, "if file_path is None:\n            return self.default_checkpoint_callback", "if file_path is not None:\n            return self.default_checkpoint_callback", "C12.route"),
    M("dataset name replaced when given", _SB, "if dsetname is None:\n            iter_str", "if dsetname is not None:\n            iter_str", "C12.route"),
    M("previous checkpoint cleared before sampling", _A, "if self.flow is not None:\n                    # Always store the flow", "if \"checkpoint\" in h5_file:\n                    del h5_file[\"checkpoint\"]\n                if self.flow is not None:\n                    # Always store the flow", "C12.blob"),
    M("emcee sampler drops the checkpoint file", "src/aspire/samplers/smc/emcee.py", "checkpoint_file_path=checkpoint_file_path,\n", "", "C12.route"),
    M("blackjax sampler drops the cadence", "src/aspire/samplers/smc/blackjax.py", "checkpoint_every=checkpoint_every,\n", "", "C12.route"),
    M("cadence guard inverted", _B, "and checkpoint_every > 0\n", "and checkpoint_every <= 0\n", "C12.cad"),
    M("requested cadence overwritten by one", _B, "if checkpoint_callback is not None and checkpoint_every is None:\n            checkpoint_every = 1", "if checkpoint_callback is not None or checkpoint_every is None:\n            checkpoint_every = 1", "C12.default"),
    M("given callback replaced by the default", _B, "if checkpoint_callback is None and checkpoint_every is not None:", "if checkpoint_every is not None:", "C12.default"),
    M("default cadence is every second iteration", _B, "checkpoint_every = 1\n", "checkpoint_every = 2\n", "C12.default"),
]
MUTANTS += [
    M("configuration overwritten in place (delete dropped)", _A, "if \"aspire_config\" in h5_file:\n                        del h5_file[\"aspire_config\"]\n                    self.save_config(\n                        h5_file,\n                        include_sampler_config=True,",
      "self.save_config(\n                        h5_file,\n                        include_sampler_config=True,", "C12file.config", count=2),
    M("blackjax sample() takes the checkpoint options through **kwargs", "src/aspire/samplers/smc/blackjax.py", "checkpoint_every: int | None = None,\n        checkpoint_file_path: str | None = None,\n        resume_from: str | bytes | dict | None = None,\n    ):\n        \"\"\"Sample using BlackJAX SMC.",
      "resume_from: str | bytes | dict | None = None,\n        **kwargs,\n    ):\n        \"\"\"Sample using BlackJAX SMC.", "C12.probe",
      more=[("checkpoint_every=checkpoint_every,\n            checkpoint_file_path=checkpoint_file_path,\n            resume_from=resume_from,\n        )\n\n    def mutate(self, particles, beta, n_steps=None):\n        \"\"\"Mutate particles using BlackJAX", "resume_from=resume_from,\n            **kwargs,\n        )\n\n    def mutate(self, particles, beta, n_steps=None):\n        \"\"\"Mutate particles using BlackJAX")]),
]
MUTANTS += [
    M("checkpoints pickled into a buffer kept on the sampler and only rewound", "src/aspire/samplers/base.py", "dump_state(\n            state,\n            h5_file,\n            path=path,\n            dsetname=dsetname,\n            protocol=protocol or pickle.HIGHEST_PROTOCOL,\n        )",
      "buffer = self._checkpoint_buffer\n        buffer.seek(0)\n        pickle.dump(state, buffer, protocol=protocol or pickle.HIGHEST_PROTOCOL)\n        dump_pickle_to_hdf(buffer, h5_file, path=path, dsetname=dsetname)", "C12.buf",
      more=[("from ..utils import AspireFile, asarray, dump_state, track_calls", "from io import BytesIO\nfrom ..utils import AspireFile, asarray, dump_pickle_to_hdf, dump_state, track_calls"),
            ("self._last_checkpoint_bytes: bytes | None = None\n        if preconditioning_transform is None:", "self._last_checkpoint_bytes: bytes | None = None\n        self._checkpoint_buffer = BytesIO()\n        if preconditioning_transform is None:")]),
]
MUTANTS += [
    M("checkpoint group created when the file callback is built", "src/aspire/samplers/base.py", "def _callback(state: dict) -> None:", "with AspireFile(file_path, \"a\") as h5_probe:\n            h5_probe.require_group(\"checkpoint\")\n\n        def _callback(state: dict) -> None:", "C12.blob"),
]
NEUTRALS = [
    M("checkpoint pickled into a buffer created for it, then handed to the blob writer", "src/aspire/samplers/base.py", "dump_state(\n            state,\n            h5_file,\n            path=path,\n            dsetname=dsetname,\n            protocol=protocol or pickle.HIGHEST_PROTOCOL,\n        )",
      "buffer = BytesIO()\n        pickle.dump(state, buffer, protocol=protocol or pickle.HIGHEST_PROTOCOL)\n        dump_pickle_to_hdf(buffer, h5_file, path=path, dsetname=dsetname)",
      more=[("from ..utils import AspireFile, asarray, dump_state, track_calls", "from io import BytesIO\nfrom ..utils import AspireFile, asarray, dump_pickle_to_hdf, dump_state, track_calls")]),
    __import__("aspire_sa.rules.smcloop", fromlist=["HELPER_NEUTRAL"]).HELPER_NEUTRAL,
    M("cadence guard written as >= 1", _B, "and checkpoint_every > 0\n", "and checkpoint_every >= 1\n"),
    M("forced checkpoint positional", _B, "maybe_checkpoint(force=True)", "maybe_checkpoint(True)"),
    M("cadence disjuncts swapped", _B, "should_checkpoint = force or (\n                checkpoint_every is not None\n                and checkpoint_every > 0\n                and iterations % checkpoint_every == 0\n            )",
      "should_checkpoint = (\n                checkpoint_every is not None\n                and checkpoint_every > 0\n                and iterations % checkpoint_every == 0\n            ) or force"),
    M("store bounded by the buffer size after the resize", _U, "target[dsetname][:] = bdata", "target[dsetname][: bdata.size] = bdata"),
    M("dataset created from the data, stored again", _U, "dsetname, shape=bdata.shape, maxshape=(None,), dtype=bdata.dtype", "dsetname, data=bdata, maxshape=(None,)"),
    M("dataset replaced rather than resized", _U, "if dsetname not in target:\n        target.create_dataset(\n            dsetname, shape=bdata.shape, maxshape=(None,), dtype=bdata.dtype\n        )\n    elif bdata.size != target[dsetname].shape[0]:\n        target[dsetname].resize((bdata.size,))\n    target[dsetname][:] = bdata",
      "if dsetname in target:\n        del target[dsetname]\n    target.create_dataset(dsetname, data=bdata)"),
    M("dataset through a local", _U, "target[dsetname][:] = bdata", "dset = target[dsetname]\n    dset[:] = bdata"),
    M("context defaults read as a plain attribute", _A, "defaults = getattr(self, \"_checkpoint_defaults\", None)", "defaults = self._checkpoint_defaults", within="Aspire.sample_posterior"),
    M("resize test mirrored", _U, "elif bdata.size != target[dsetname].shape[0]:", "elif target[dsetname].shape[0] != bdata.size:"),
]

# functions the property is anchored in (auto-mutant sweep of the thorough tier)
ANCHORS = [
    'aspire.samplers.smc.base:SMCSampler.sample',
    'aspire.samplers.smc.base:SMCSampler.sample.<locals>.maybe_checkpoint',
    'aspire.utils:dump_pickle_to_hdf',
    'aspire.utils:dump_state',
    'aspire.samplers.base:Sampler.default_file_checkpoint_callback',
    'aspire.samplers.base:Sampler.save_checkpoint_to_hdf',
    'aspire.samplers.base:Sampler.load_checkpoint_from_file',
]

MUTANTS += [
    M("auto_checkpoint restores its defaults only on a clean exit", _A, "try:\n            yield self\n        finally:\n            if prev is None:", "yield self\n        if True:\n            if prev is None:", "C12ctx.ac"),
]
