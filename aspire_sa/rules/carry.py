"""Field-carry analysis of the sample-set rebuild methods (shared by C15/C16).

For every concrete class C in {BaseSamples, Samples, SMCSamples} and every
method resolved for C (through the MRO) whose own body constructs a sample set,
report for each constructor field of the result class how it is filled.
"""

from __future__ import annotations

import ast
from dataclasses import dataclass, field

from .. import AnalysisError
from .. import terms as T
from ..evalr import Evaluator
from .common import SELF, loc_of

SAMPLES_MOD = "aspire.samples"
CLASSES = ("BaseSamples", "Samples", "SMCSamples")
SKIP = {"__post_init__", "plot_corner", "to_dataframe", "save", "load", "__str__", "_encode_for_hdf5", "compute_weights"}
DICT_METHODS = {"from_dict", "_decode_from_dictionary"}
CONVERT_METHODS = {"to_namespace", "to_numpy", "from_samples"}


@dataclass
class Rebuild:
    cls: object  # concrete class analysed
    method: object  # FuncInfo
    result_cls: object
    obj: tuple
    values: dict  # field -> term (constructor keyword or later explicit store)
    splat: tuple | None
    sources: list
    ev: Evaluator
    node: ast.AST
    ret: tuple


def source_terms(m):
    """Terms denoting the source sample set(s) of a rebuild method."""
    out = [SELF] if not (m.has_decorator("classmethod") or m.has_decorator("staticmethod")) else []
    for p in m.params[1:] if m.params else []:
        if p in ("samples",):
            a = T.atom(p)
            out += [a, ("f", "elem", (a,), ()), ("s", a, T.const(0))]
    return out


def rebuilds(repo, quick_classes=CLASSES):
    out = []
    for cn in quick_classes:
        C = repo.cls(f"{SAMPLES_MOD}:{cn}")
        names = sorted({m for c in C.mro() for m in c.methods})
        for mn in names:
            if mn in SKIP:
                continue
            m = C.resolve(mn)
            if m.has_decorator("property"):
                continue
            ev = Evaluator(repo, max_depth=1, no_inline={f"{SAMPLES_MOD}:Samples.compute_weights"})
            ret = T.strip_raise(ev.run(m, C))
            chain = {x.resolve(mn) for x in C.mro() if x.resolve(mn) is not None} | {c.methods[mn] for c in C.mro() if mn in c.methods}
            news = [e for e in ev.events if e.callee.startswith("new:") and e.callee.startswith(f"new:{SAMPLES_MOD}:") and e.func in chain]
            for e in news:
                R = repo.cls(e.callee[4:])
                vals = {}
                flds = [f.name for f in R.init_fields()]
                for f, a in zip(flds, e.args):
                    vals[f] = a
                splat = None
                for k, v in e.kwargs:
                    if k == "**":
                        splat = v
                    else:
                        vals[k] = v
                for (o, a, v, node, fn, seq) in ev.stores:
                    if o == e.result and fn in chain:
                        # explicit store after construction: the merged (phi) value at exit
                        vals[a] = ev.exit_value(o, a, vals.get(a) if a in vals else T.atom("<constructor default>")) if len(ev.returns) > 1 else ev.heap.get((o, a), v)
                out.append(Rebuild(C, m, R, e.result, vals, splat, source_terms(m), ev, e.node, ret))
    return out


def derives_from(v, sources, fname, allow_none: bool = False) -> bool:
    """On every path where the source's field is set, the value is built from that
    field (a None result is only acceptable where the source field itself is None)."""
    want = {("attr", s, fname) for s in sources}
    if not any(s in want for s in T.subterms(v)):
        return False
    for w in want:
        v = T.select(v, ("is", w, T.NONE), False)
    for leaf in T.phi_leaves(v):
        if leaf == T.NONE:
            if allow_none:
                continue
            return False
        if not any(s in want for s in T.subterms(leaf)):
            return False
    return True
