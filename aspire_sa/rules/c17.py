"""C17 -- prior before likelihood on the same points; evaluations are counted."""

from __future__ import annotations

import ast

from .. import AnalysisError
from .. import terms as T
from ..evalr import Evaluator
from ..model import dotted, walk_no_nested
from ..mutants import M
from .common import SELF, fold, loc_of, self_attr
from .priorstate import MAYBE, SET, UNSET, PriorState

META = {
    "explanation": (
        "Every call site of the user likelihood is discovered from the source (calls of self.log_likelihood in the Sampler "
        "hierarchy, resolved to the counting wrapper, plus Aspire.convert_to_samples) and checked with a typestate analysis: "
        "on every path the argument sample set is in state prior=SET, i.e. its log_prior attribute holds self.log_prior(<that "
        "same set>) (or a caller-supplied value on the path where it is not None), possibly inherited through row-aligned "
        "derivations (selection, concatenation) and loop-carried variables. Counting: the only reference to the raw user "
        "callable is inside the wrapper, which adds len(samples) to the counter and calls it with the same argument; no "
        "subclass overrides the wrapper; the counter has no other writer; Aspire.n_likelihood_evaluations reads the sampler's counter."
    ),
    "not_decided": "user callables that strip or replace the log_prior attribute",
    "assumptions": ["row selection and concatenation carry log_prior rows with x (decided under C16)"],
}

SAMPLER = "aspire.samplers.base:Sampler"
NO_INLINE = {
    "aspire.samples:BaseSamples.concatenate", "aspire.samples:BaseSamples.from_samples",
    "aspire.samples:BaseSamples.__getitem__", "aspire.samples:Samples.__getitem__", "aspire.samples:SMCSamples.__getitem__",
    "aspire.samples:Samples.compute_weights",
}


def likelihood_call_sites(repo):
    """(function, call node) for every self.log_likelihood(...) in the Sampler
    hierarchy and in Aspire.convert_to_samples-like methods of Aspire."""
    base = repo.cls(SAMPLER)
    sites = []
    wrapper = base.methods.get("log_likelihood")
    for c in repo.subclasses(base):
        for m in c.methods.values():
            if m is wrapper:
                continue
            for f in [m] + list(m.nested.values()):
                me = m.params[0] if m.params else "self"
                for n in walk_no_nested(f.node):
                    if isinstance(n, ast.Call) and isinstance(n.func, ast.Attribute) and n.func.attr == "log_likelihood" \
                            and isinstance(n.func.value, ast.Name) and n.func.value.id == me:
                        sites.append((m, n))
    A = repo.cls("aspire.aspire:Aspire")
    for m in A.methods.values():
        me = m.params[0] if m.params else "self"
        for n in walk_no_nested(m.node):
            if isinstance(n, ast.Call) and isinstance(n.func, ast.Attribute) and n.func.attr == "log_likelihood" \
                    and isinstance(n.func.value, ast.Name) and n.func.value.id == me:
                sites.append((m, n))
    return sites


def namespace_functions_rule(ctx):
    """C17.ord (site clause): the prior-then-likelihood call sites can run.  Frozen API fact: an array-API namespace (array_api_compat.numpy / .torch, jax.numpy)
    has no `to_device` function -- it is a helper of array_api_compat itself and a method of arrays -- so `xp.to_device(a, device)` raises AttributeError and the
    call site never reaches the likelihood."""
    import ast as _ast
    repo = ctx.repo
    bad = []
    n = 0
    for f_ in repo.all_functions():
        for n_ in walk_no_nested(f_.node):
            if isinstance(n_, _ast.Call) and isinstance(n_.func, _ast.Attribute) and n_.func.attr == "to_device":
                r_ = n_.func.value
                n += 1
                if (isinstance(r_, _ast.Name) and r_.id == "xp") or (isinstance(r_, _ast.Attribute) and r_.attr == "xp"):
                    bad.append((f_, n_))
    ctx.count("to_device_calls", n)
    ctx.decide(not bad, "C17.ord", "package", loc_of(bad[0][0], bad[0][1]) if bad else "src/aspire",
               "no call site asks an array namespace for a to_device function",
               (f"{bad[0][0].ident} calls `{_ast.unparse(bad[0][1].func)}(...)`: array namespaces have no to_device function (AttributeError), so this prior / likelihood call site raises before "
                "the likelihood is reached -- convert_to_samples(x) with its default evaluate=True cannot be used") if bad else "", disc="namespace-function")


def run(ctx):
    namespace_functions_rule(ctx)
    repo = ctx.repo
    base = repo.cls(SAMPLER)
    wrapper = base.methods.get("log_likelihood")
    if wrapper is None:
        raise AnalysisError("Sampler.log_likelihood wrapper not found")
    sites = likelihood_call_sites(repo)
    ctx.floor("likelihood call sites", len(sites), 12)
    by_func = {}
    for m, n in sites:
        by_func.setdefault(m, []).append(n)
    for m, nodes in by_func.items():
        concrete = m.cls
        ev = Evaluator(repo, max_depth=2, no_inline=NO_INLINE)
        ev.run(m, concrete)
        ctx.count("functions_folded")
        ps = PriorState(ev)
        for n in nodes:
            evs = [e for e in ev.events if e.node is n and e.func is m]
            construct = f"{m.ident}@{ast.unparse(n)[:40]}"
            if not evs:
                ctx.unknown("C17.ord", m.ident, loc_of(m, n), "call site not reached by the evaluator", disc=f"L{_rank(m, n)}")
                continue
            e = evs[0]
            args = e.args[1:] if e.callee.startswith("method:") else e.args
            arg = args[0] if args else None
            if arg is None:
                ctx.unknown("C17.ord", m.ident, loc_of(m, n), "likelihood called without a sample set", disc=f"L{_rank(m, n)}")
                continue
            st = ps.state(arg, (e.snap or {}).get(arg))
            if st == SET:
                ctx.prove("C17.ord", m.ident, loc_of(m, n), f"the set passed to the likelihood carries self.log_prior(<that set>) on every path ({T.show(arg)[:50]})", disc=f"L{_rank(m, n)}")
            else:
                ctx.refute("C17.ord", m.ident, loc_of(m, n),
                           f"the likelihood is called on {T.show(arg)[:60]} whose log_prior is "
                           f"{'not set' if st == UNSET else 'not (on every path) the prior of that same set'} at the call: "
                           "a likelihood that skips out-of-prior points (docs/recipes.rst) sees a stale or missing prior", disc=f"L{_rank(m, n)}")

    # ------------------------------------------------------------ counting
    ev, ret = fold(repo, wrapper, base)
    s = T.atom(wrapper.params[1])
    cnt = ev.heap.get((SELF, "n_likelihood_evaluations"))
    want = T.add(self_attr("n_likelihood_evaluations"), T.app("len", s))
    want2 = T.add(self_attr("n_likelihood_evaluations"), T.app("len", ("attr", s, "x")))
    # ---- the counting wrapper is a *method* of the sampler: an instance attribute of the same name stored on a sampler object shadows it, and every
    #      later likelihood call of that sampler goes to the raw callable, uncounted
    shadows = []
    n_st = 0
    for f_ in repo.all_functions():
        for n_ in walk_no_nested(f_.node):
            tg_, recv_ = None, None
            if isinstance(n_, (ast.Assign, ast.AugAssign, ast.AnnAssign)):
                for t_ in (n_.targets if isinstance(n_, ast.Assign) else [n_.target]):
                    if isinstance(t_, ast.Attribute) and t_.attr == "log_likelihood":
                        tg_, recv_ = t_, t_.value
            elif isinstance(n_, ast.Call) and isinstance(n_.func, ast.Name) and n_.func.id == "setattr" and len(n_.args) == 3 and isinstance(n_.args[1], ast.Constant) and n_.args[1].value == "log_likelihood":
                tg_, recv_ = n_, n_.args[0]
            if recv_ is None:
                continue
            n_st += 1
            txt = ast.unparse(recv_).lower()
            on_self_sampler = isinstance(recv_, ast.Name) and f_.cls is not None and f_.params and recv_.id == f_.params[0] and base in f_.cls.mro()
            if "sampler" in txt or on_self_sampler:
                shadows.append((f_, n_, ast.unparse(recv_)))
    ctx.count("stores_to_an_attribute_named_log_likelihood", n_st)
    ctx.decide(not shadows, "C17.cnt", "package", loc_of(shadows[0][0], shadows[0][1]) if shadows else "src/aspire",
               "no code stores an instance attribute `log_likelihood` on a sampler object (the counting wrapper stays the only path to the user's likelihood)",
               (f"{shadows[0][0].ident} assigns `{shadows[0][2]}.log_likelihood`: on a sampler object that instance attribute shadows the counting wrapper method, so every later "
                "evaluation through that sampler calls the raw callable and is never counted (nor preceded by the wrapper's bookkeeping)") if shadows else "", disc="shadow")
    # ---- the counter is a Python side effect: it counts once per *trace* when the wrapper runs under a JAX transformation.  A callable that reaches the
    #      wrapper (directly, through the sampler's log_prob methods, or through a kernel object built from such a callable) must not be executed by
    #      jax.vmap / jit / pmap / lax.scan / lax.map / lax.fori_loop / lax.while_loop
    TRACERS = {"vmap", "jit", "pmap", "scan", "map", "fori_loop", "while_loop", "filter_jit", "filter_vmap"}

    def reaches_wrapper(cls_, name, depth=0, seen=None):
        seen = seen or set()
        if name in seen or depth > 4:
            return False
        seen.add(name)
        if name == "log_likelihood":
            return True
        m_ = cls_.resolve(name)
        if m_ is None or not m_.params:
            return False
        me_ = m_.params[0]
        for n_ in ast.walk(m_.node):
            if isinstance(n_, ast.Attribute) and isinstance(n_.value, ast.Name) and n_.value.id == me_:
                if reaches_wrapper(cls_, n_.attr, depth + 1, seen):
                    return True
            if isinstance(n_, ast.Call) and isinstance(n_.func, ast.Attribute) and isinstance(n_.func.value, ast.Call) and getattr(n_.func.value.func, "id", None) == "super":
                if n_.func.attr == "log_prob" and reaches_wrapper(cls_, "log_likelihood", depth + 1, seen):
                    return True
        return False
    n_tr = 0
    for c_ in repo.subclasses(base):
        for m_ in c_.methods.values():
            if not m_.params:
                continue
            me_ = m_.params[0]
            tainted = set()
            changed = True
            stmts = [n_ for n_ in ast.walk(m_.node)]
            while changed:
                changed = False
                for n_ in stmts:
                    if isinstance(n_, ast.Assign) and len(n_.targets) == 1 and isinstance(n_.targets[0], ast.Name) and n_.targets[0].id not in tainted:
                        refs = any((isinstance(x, ast.Attribute) and isinstance(x.value, ast.Name) and x.value.id == me_ and reaches_wrapper(c_, x.attr))
                                   or (isinstance(x, ast.Name) and x.id in tainted) for x in ast.walk(n_.value))
                        if refs:
                            tainted.add(n_.targets[0].id)
                            changed = True
                    if isinstance(n_, (ast.FunctionDef, ast.Lambda)) and n_ is not m_.node:
                        nm_ = getattr(n_, "name", None)
                        if nm_ and nm_ not in tainted and any(isinstance(x, ast.Name) and x.id in tainted for x in ast.walk(n_)):
                            tainted.add(nm_)
                            changed = True
            for n_ in stmts:
                if isinstance(n_, ast.Call) and isinstance(n_.func, ast.Attribute) and n_.func.attr in TRACERS and "jax" in (dotted(n_.func) or "") + ast.unparse(n_.func.value):
                    n_tr += 1
                    hit = [a_ for a_ in n_.args if (isinstance(a_, ast.Name) and a_.id in tainted)
                           or (isinstance(a_, ast.Attribute) and isinstance(a_.value, ast.Name) and a_.value.id == me_ and reaches_wrapper(c_, a_.attr))]
                    if hit and m_.cls is c_:
                        ctx.refute("C17.cnt", f"{c_.ident}.{m_.name}", loc_of(m_, n_),
                                   f"`{ast.unparse(n_.func)}({ast.unparse(hit[0])[:30]}, ...)` executes, under JAX tracing, a callable that reaches the counting wrapper Sampler.log_likelihood: "
                                   "the counter update is a Python side effect and runs once per trace, so n_likelihood_evaluations grows by 1 (or by the size of one traced batch) while the "
                                   "kernel evaluates the likelihood for every particle and every step", disc=f"traced|{n_.func.attr}")
    ctx.count("jax_transformations_in_samplers", n_tr)
    # ---- the two callables reach the sampler under their own names: through every constructor chain (sampler classes, the front end's
    #      keyword hand-over) a positional `log_likelihood` / `log_prior` lands in the parameter of the same name
    from .common import positional_name_mismatches
    st_ = {}
    in_hier = lambda callee: (callee.cls is not None and base in callee.cls.mro()) or callee.ident.startswith("aspire.samplers")
    mism = list(positional_name_mismatches(repo, want=in_hier, stats=st_))
    ctx.count("constructor_and_method_calls_checked_for_argument_order", st_.get("resolved_calls_with_positional_arguments", 0))
    ctx.floor("sampler-hierarchy calls with positional arguments", st_.get("resolved_calls_with_positional_arguments", 0), 20)
    if not mism:
        ctx.prove("C17.args", "aspire.samplers", "src/aspire/samplers",
                  f"every positional name argument of the {st_.get('resolved_calls_with_positional_arguments', 0)} resolved calls into the sampler hierarchy sits at the position of the parameter it is named after")
    for f_, call_, callee_, i_, a_, p_ in mism:
        ctx.refute("C17.args", f_.ident, loc_of(f_, call_),
                   f"`{a_}` is passed positionally to {callee_.ident}, whose parameter at that position is `{p_}`: the callee stores the caller's {a_} as its {p_}"
                   + (" -- the sampler then evaluates the user's likelihood where it means to evaluate the prior (before any prior value exists on the set, and uncounted) and the prior where it counts likelihood calls"
                      if {a_, p_} == {"log_likelihood", "log_prior"} else ""), disc=f"{callee_.ident}|{a_}")
    ctx.decide(cnt in (want, want2), "C17.cnt", wrapper.ident, loc_of(wrapper), "wrapper adds len(samples) to the counter",
               f"counter becomes {T.show(cnt)[:120] if cnt else 'unchanged'}, expected counter + len(samples)", disc="add")
    ok = T.strip_raise(ret) == ("f", "method:_log_likelihood", (SELF, s), ())
    ctx.decide(ok, "C17.cnt", wrapper.ident, loc_of(wrapper), "wrapper calls the user likelihood once with the same sample set",
               f"wrapper returns {T.show(ret)[:160]}", disc="call")
    # the points are counted before the user's likelihood is entered: "asked to evaluate" includes a call that raises
    call_ev = [e for e in ev.events if e.func is wrapper and e.callee == "method:_log_likelihood"]
    inc = [st_ for st_ in ev.stores if st_[0] == SELF and st_[1] == "n_likelihood_evaluations" and st_[4] is wrapper]
    okb = len(call_ev) == 1 and len(inc) == 1 and inc[0][5] < call_ev[0].seq
    ctx.decide(okb, "C17.cnt", wrapper.ident, loc_of(wrapper, call_ev[0].node if call_ev else None), "the counter is increased before the user's likelihood is called",
               "the counter is increased only after the user's likelihood returned: a call that raises (an interrupted or failing evaluation, "
               "after which the run is resumed) asked the likelihood for len(samples) points that are never counted", disc="before")
    over = [c.ident for c in repo.subclasses(base, strict=True) if "log_likelihood" in c.methods]
    ctx.decide(not over, "C17.cnt", base.ident, loc_of(wrapper), "no sampler class overrides the counting wrapper",
               f"counting wrapper overridden in {over}", disc="override")
    raw, counter = [], []
    for f in repo.all_functions():
        for n in walk_no_nested(f.node):
            if isinstance(n, ast.Attribute) and n.attr == "_log_likelihood":
                if not (f is wrapper or (f.cls is base and f.name == "__init__" and isinstance(n.ctx, ast.Store))):
                    raw.append(f"{f.ident}:{n.lineno}")
            if isinstance(n, ast.Attribute) and n.attr == "n_likelihood_evaluations" and isinstance(n.ctx, ast.Store):
                if not (f is wrapper or (f.cls is base and f.name == "__init__")):
                    counter.append(f"{f.ident}:{n.lineno}")
    ctx.decide(not raw, "C17.cnt", "package", loc_of(wrapper), "the raw user likelihood is referenced only inside the counting wrapper",
               f"raw user likelihood referenced outside the wrapper (uncounted evaluations): {raw[:3]}", disc="raw")
    ctx.decide(not counter, "C17.cnt", "package", loc_of(wrapper), "the evaluation counter is written only by __init__ and the wrapper",
               f"evaluation counter also written at {counter[:3]}", disc="writers")
    init = base.methods.get("__init__")
    ev, _ = fold(repo, init, base)
    ctx.decide(ev.heap.get((SELF, "n_likelihood_evaluations")) == T.ZERO and ev.heap.get((SELF, "_log_likelihood")) == T.atom("log_likelihood"),
               "C17.cnt", init.ident, loc_of(init), "constructor stores the user likelihood and zeroes the counter",
               "constructor does not store the user's likelihood / zero the counter", disc="init")
    A = repo.cls("aspire.aspire:Aspire")
    p = A.methods.get("n_likelihood_evaluations")
    if p is None:
        ctx.unknown("C17.cnt", A.ident, "src/aspire/aspire.py", "Aspire.n_likelihood_evaluations not found", disc="report")
    else:
        ev, ret = fold(repo, p, A)
        leaves = [l for l in T.phi_leaves(T.strip_raise(ret)) if l != T.NONE]
        ctx.decide(leaves == [("attr", self_attr("_sampler"), "n_likelihood_evaluations")], "C17.cnt", p.ident, loc_of(p),
                   "Aspire.n_likelihood_evaluations reads the sampler's counter", f"property returns {T.show(ret)[:160]}", disc="report")
    ctx.count("functions_scanned", sum(1 for _ in repo.all_functions()))


def _rank(m, n):
    """Stable discriminator: index of the call among the likelihood calls of m."""
    calls = sorted((x.lineno, x.col_offset) for x in ast.walk(m.node)
                   if isinstance(x, ast.Call) and isinstance(x.func, ast.Attribute) and x.func.attr == "log_likelihood")
    return calls.index((n.lineno, n.col_offset))


_I = "src/aspire/samplers/importance.py"
_MC = "src/aspire/samplers/mcmc.py"
_B = "src/aspire/samplers/smc/base.py"
_MP = "src/aspire/samplers/smc/minipcn.py"
_E = "src/aspire/samplers/smc/emcee.py"
_BJ = "src/aspire/samplers/smc/blackjax.py"
_A = "src/aspire/aspire.py"
_SB = "src/aspire/samplers/base.py"
MUTANTS = [
    M("importance: likelihood before prior", _I, "samples.log_prior = samples.array_to_namespace(self.log_prior(samples))\n        samples.log_likelihood = samples.array_to_namespace(\n            self.log_likelihood(samples)\n        )",
      "samples.log_likelihood = samples.array_to_namespace(\n            self.log_likelihood(samples)\n        )\n        samples.log_prior = samples.array_to_namespace(self.log_prior(samples))", "C17.ord"),
    M("SMC target: likelihood before prior", _B, "samples.log_prior = self.log_prior(samples)\n        samples.log_likelihood = self.log_likelihood(samples)", "samples.log_likelihood = self.log_likelihood(samples)\n        samples.log_prior = self.log_prior(samples)", "C17.ord", within="SMCSampler.log_prob"),
    M("MCMC target: prior skipped when cached", _MC, "samples.log_prior = self.log_prior(samples)\n        samples.log_likelihood = self.log_likelihood(samples)", "lp = self.log_prior(samples)\n        samples.log_likelihood = self.log_likelihood(samples)\n        samples.log_prior = lp", "C17.ord", within="MCMCSampler.log_prob"),
    M("initial draw: likelihood on a re-built set", _MC, "samples.log_likelihood = samples.array_to_namespace(\n            self.log_likelihood(samples)\n        )\n        return samples", "samples.log_likelihood = samples.array_to_namespace(\n            self.log_likelihood(Samples(samples.x, xp=self.xp))\n        )\n        return samples", "C17.ord"),
    M("initial draw: prior of another set", _MC, "new_samples.log_prior = new_samples.array_to_namespace(\n                self.log_prior(new_samples)\n            )", "new_samples.log_prior = new_samples.array_to_namespace(\n                self.log_prior(samples if samples is not None else new_samples)\n            )", "C17.ord"),
    M("minipcn mutate: prior after likelihood", _MP, "samples.log_prior = samples.array_to_namespace(self.log_prior(samples))\n        samples.log_likelihood = samples.array_to_namespace(\n            self.log_likelihood(samples)\n        )", "samples.log_likelihood = samples.array_to_namespace(\n            self.log_likelihood(samples)\n        )\n        samples.log_prior = samples.array_to_namespace(self.log_prior(samples))", "C17.ord"),
    M("emcee evidence set: prior dropped", _MC, "samples_evidence.log_prior = self.log_prior(samples_evidence)\n", "", "C17.ord"),
    M("blackjax target: prior only if bounded", _BJ, "samples.log_prior = samples.array_to_namespace(self.log_prior(samples))\n        samples.log_likelihood = samples.array_to_namespace(\n            self.log_likelihood(samples)\n        )\n\n        # Compute target",
      "if beta < 1.0:\n            samples.log_prior = samples.array_to_namespace(self.log_prior(samples))\n        samples.log_likelihood = samples.array_to_namespace(\n            self.log_likelihood(samples)\n        )\n\n        # Compute target", "C17.ord"),
    M("convert_to_samples: likelihood first", _A, "if log_prior is None:\n                logger.info(\"Evaluating log prior\")\n                samples.log_prior = samples.array_to_namespace(\n                    self.log_prior(samples)\n                )\n            if log_likelihood is None:\n                logger.info(\"Evaluating log likelihood\")\n                samples.log_likelihood = samples.array_to_namespace(\n                    self.log_likelihood(samples)\n                )",
      "if log_likelihood is None:\n                logger.info(\"Evaluating log likelihood\")\n                samples.log_likelihood = samples.array_to_namespace(\n                    self.log_likelihood(samples)\n                )\n            if log_prior is None:\n                logger.info(\"Evaluating log prior\")\n                samples.log_prior = samples.array_to_namespace(\n                    self.log_prior(samples)\n                )", "C17.ord"),
    M("convert_to_samples moves the prior with a function the namespace does not have", _A, "samples.log_prior = samples.array_to_namespace(\n                    self.log_prior(samples)\n                )", "samples.log_prior = samples.xp.to_device(\n                    self.log_prior(samples), samples.device\n                )", "C17.ord"),
    M("counter increased after the user call", _SB, "self.n_likelihood_evaluations += len(samples)\n        return self._log_likelihood(samples)", "out = self._log_likelihood(samples)\n        self.n_likelihood_evaluations += len(samples)\n        return out", "C17.cnt"),
    M("counter counts calls not points", _SB, "self.n_likelihood_evaluations += len(samples)", "self.n_likelihood_evaluations += 1", "C17.cnt"),
    M("uncounted direct call", _B, "samples.log_likelihood = self.log_likelihood(samples)", "samples.log_likelihood = self._log_likelihood(samples)", "C17.cnt", within="SMCSampler.log_prob"),
    M("counter reset during sampling", _B, "self.target_efficiency = target_efficiency\n", "self.target_efficiency = target_efficiency\n        self.n_likelihood_evaluations = 0\n", "C17.cnt"),
    M("subclass overrides the wrapper", _MP, "def log_prob(self, x, beta=None):\n        return super().log_prob(x, beta)", "def log_likelihood(self, samples):\n        return self._log_likelihood(samples)\n\n    def log_prob(self, x, beta=None):\n        return super().log_prob(x, beta)", "C17.cnt"),
]
MUTANTS += [
    M("base sampler constructor lists the prior first; one positional super().__init__ is left behind", "src/aspire/samplers/smc/base.py",
      "log_likelihood: Callable,\n        log_prior: Callable,\n        dims: int,\n        prior_flow: Flow,\n        xp: Callable,\n        dtype: Any | str | None = None,\n        parameters: list[str] | None = None,\n        rng: np.random.Generator | None = None,\n        preconditioning_transform: Callable | None = None,\n    ):\n        super().__init__(\n            log_likelihood=log_likelihood,",
      "log_prior: Callable,\n        log_likelihood: Callable,\n        dims: int,\n        prior_flow: Flow,\n        xp: Callable,\n        dtype: Any | str | None = None,\n        parameters: list[str] | None = None,\n        rng: np.random.Generator | None = None,\n        preconditioning_transform: Callable | None = None,\n    ):\n        super().__init__(\n            log_likelihood=log_likelihood,", "C17.args"),
]
MUTANTS += [
    M("leaving the pool context re-points the live sampler at the serial callables", "src/aspire/utils.py", "self.aspire_instance.log_prior = self.original_log_prior\n        if self.close_pool and self.pool is not None:",
      "self.aspire_instance.log_prior = self.original_log_prior\n        sampler = getattr(self.aspire_instance, \"sampler\", None)\n        if sampler is not None:\n            sampler.log_likelihood = self.original_log_likelihood\n        if self.close_pool and self.pool is not None:", "C17.cnt"),
]
NEUTRALS = [
    M("positional constructor call rewritten with keywords", "src/aspire/samplers/smc/base.py", "super().__init__(\n            log_likelihood,\n            log_prior,\n            dims,",
      "super().__init__(\n            log_likelihood=log_likelihood,\n            log_prior=log_prior,\n            dims=dims,"),
    M("importance: prior via temporary", _I, "samples.log_prior = samples.array_to_namespace(self.log_prior(samples))", "lp = self.log_prior(samples)\n        samples.log_prior = samples.array_to_namespace(lp)"),
    M("counter via explicit sum", _SB, "self.n_likelihood_evaluations += len(samples)", "self.n_likelihood_evaluations = self.n_likelihood_evaluations + len(samples)"),
    M("initial draw: trim via explicit slice object", _MC, "samples = samples[:n_samples]", "samples = samples[slice(None, n_samples)]"),
]

# functions the property is anchored in (auto-mutant sweep of the thorough tier)
ANCHORS = [
    'aspire.samplers.base:Sampler.log_likelihood',
    'aspire.samplers.importance:ImportanceSampler.sample',
    'aspire.samplers.mcmc:MCMCSampler.draw_initial_samples',
    'aspire.samplers.mcmc:MCMCSampler.log_prob',
    'aspire.samplers.mcmc:Emcee.sample',
    'aspire.samplers.mcmc:MiniPCN.sample',
    'aspire.samplers.smc.base:SMCSampler.log_prob',
    'aspire.samplers.smc.minipcn:MiniPCNSMC.mutate',
    'aspire.samplers.smc.emcee:EmceeSMC.mutate',
    'aspire.samplers.smc.blackjax:BlackJAXSMC.log_prob',
    'aspire.samplers.smc.blackjax:BlackJAXSMC.mutate',
    'aspire.aspire:Aspire.convert_to_samples',
]
