"""Shared analysis of SMCSampler.determine_beta (used by C06 and C07)."""

from __future__ import annotations

from .. import AnalysisError
from .. import terms as T
from ..evalr import Evaluator
from ..spec import spec
from .common import SELF, self_attr

SMC = "aspire.samplers.smc.base:SMCSampler"


def adaptive_flag():
    return self_attr("adaptive")


def fold_db(repo, adaptive: bool, loop_mode: str = "havoc", extra=None, max_depth=4):
    smc = repo.cls(SMC)
    db = smc.resolve("determine_beta")
    if db is None:
        raise AnalysisError("SMCSampler.determine_beta not found")
    flag = adaptive_flag()

    def assume(c):
        if c == flag:
            return adaptive
        if extra is not None:
            return extra(c)
        return None

    ev = Evaluator(repo, max_depth=max_depth, assume=assume)
    ev.loop_mode = loop_mode
    ret = ev.run(db, smc)
    return ev, T.strip_raise(ret), db, smc


def population_weights(samples_term, b):
    """w(b) = (b - beta_s) * (L + P - Q) for the population *samples_term*."""
    a = lambda n: ("attr", samples_term, n)
    return spec("(b - bs) * (L + P - Q)", b=b, bs=a("beta"), L=a("log_likelihood"), P=a("log_prior"), Q=a("log_q"))
