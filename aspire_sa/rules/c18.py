"""C18 -- the diagnostic history is a faithful record of the run."""

from __future__ import annotations

import ast

from .. import AnalysisError
from .. import terms as T
from ..cfg import CFG, calls_in
from ..model import walk_no_nested
from ..mutants import M
from ..spec import spec
from .c02 import check_ess
from .common import SELF, fold, loc_of, self_attr
from .schedule import population_weights
from .smcloop import SMC, find_smc_loop, fold_sample, history_appends, roles

META = {
    "explanation": (
        "On the CFG of SMCSampler.sample every history.<series>.append in the loop body is executed exactly once per iteration "
        "(series guarded by a loop-invariant flag are counted per flag value), the concrete mutate() of every SMC sampler class "
        "appends each of its series exactly once per call and is called exactly once per iteration; appends reachable outside the "
        "loop are findings (initial population: exactly once, on the fresh path only; nothing on the resumed path, whose restored "
        "history already holds the record). Appended values are this iteration's: beta from this determine_beta, ess == "
        "ESS(log_weights(beta)) of the pre-resampling population, eff_target == current_target_efficiency(beta), the stored "
        "population is the mutate result."
    ),
    "not_decided": "numerical equality of recomputed diagnostics; third-party kernel diagnostics",
    "assumptions": ["history lists are only mutated through append calls visible in the source"],
}


def mutate_appends(mu):
    out = []
    for n in walk_no_nested(mu.node):
        if isinstance(n, ast.Call) and isinstance(n.func, ast.Attribute) and n.func.attr in ("append", "extend", "insert"):
            r = n.func.value
            if isinstance(r, ast.Attribute) and isinstance(r.value, ast.Attribute) and r.value.attr == "history":
                out.append((r.attr, n))
    return out


def run(ctx):
    repo = ctx.repo
    smc = repo.cls(SMC)
    sample = smc.methods["sample"]
    loop_node = find_smc_loop(sample)
    if loop_node is None:
        ctx.unknown("C18.once", sample.ident, loc_of(sample), "SMC loop not found")
        return
    g = CFG(sample.node)
    lp = g.loop_of(loop_node)
    apps = history_appends(sample, repo, smc)
    series = sorted({s for s, _ in apps})
    ctx.floor("history series appended by sample()", len(series), 7)
    # the series the property names must be recorded by the loop
    for need in ("beta", "ess", "log_norm_ratio", "log_norm_ratio_var", "sample_history"):
        has = any(s_ == need and loop_node.lineno <= n_.lineno <= loop_node.end_lineno for s_, n_ in apps)
        ctx.decide(has, "C18.series", sample.ident, loc_of(sample, loop_node), f"the loop records history.{need}",
                   f"the SMC loop never appends to history.{need}: the record of the run lacks this series", disc=need)
    in_loop = lambda n: loop_node.lineno <= n.lineno <= loop_node.end_lineno
    # loop-invariant flags guarding an append
    params = set(sample.params)
    assigned_in_loop = {t.id for n in ast.walk(loop_node) for t in ast.walk(n) if isinstance(t, ast.Name) and isinstance(t.ctx, ast.Store)}
    for sname in series:
        nodes = [n for s, n in apps if s == sname and in_loop(n)]
        if not nodes:
            continue

        def weight(node, nodes=nodes):
            return sum(1 for c in calls_in(node.ast) if c in nodes)

        # find a guarding invariant flag
        flags = []  # (test node, name, label taken when the flag is set)
        for n in lp["body"]:
            if n.kind != "test":
                continue
            a, on_label = n.ast, "true"
            if isinstance(a, ast.UnaryOp) and isinstance(a.op, ast.Not):
                a, on_label = a.operand, "false"
            if isinstance(a, ast.Name) and a.id in params and a.id not in assigned_in_loop:
                flags.append((n, a.id, on_label))
        cnt = g.count_range(lp, weight)
        if cnt == (1, 1):
            ctx.prove("C18.once", sample.ident, loc_of(sample, nodes[0]), f"history.{sname}: exactly one entry per iteration", disc=sname)
            continue
        decided = False
        for fl, fname, on_label in flags:
            off_label = "false" if on_label == "true" else "true"
            on = g.count_range(lp, weight, skip_edge=lambda a, b, lab, fl=fl, off_label=off_label: a is fl and lab == off_label)
            off = g.count_range(lp, weight, skip_edge=lambda a, b, lab, fl=fl, on_label=on_label: a is fl and lab == on_label)
            if on == (1, 1) and off == (0, 0):
                ctx.prove("C18.once", sample.ident, loc_of(sample, nodes[0]),
                          f"history.{sname}: exactly one entry per iteration when {fname} is set, none otherwise (run-invariant flag)", disc=sname)
                decided = True
                break
        if not decided:
            ctx.refute("C18.once", sample.ident, loc_of(sample, nodes[0]),
                       f"history.{sname} receives between {cnt[0]} and {cnt[1]} entries per iteration", disc=sname)

    # ---- mutate: once per call, once per iteration
    def mut_weight(node):
        return sum(1 for c in calls_in(node.ast) if isinstance(c.func, ast.Attribute) and c.func.attr == "mutate")
    cnt = g.count_range(lp, mut_weight)
    ctx.decide(cnt == (1, 1), "C18.once", sample.ident, loc_of(sample, loop_node), "mutate is called exactly once per iteration",
               f"mutate is called between {cnt[0]} and {cnt[1]} times per iteration", disc="mutate")
    outside_mut = [c for n in g.nodes if n not in lp["body"] and n is not lp["head"] for c in calls_in(n.ast)
                   if isinstance(c.func, ast.Attribute) and c.func.attr == "mutate"]
    n_cls = 0
    for c in repo.subclasses(smc, strict=True):
        if "mutate" not in c.methods:
            continue
        n_cls += 1
        mu = c.methods["mutate"]
        mg = CFG(mu.node)
        mapps = history_appends(mu, repo, c) or mutate_appends(mu)
        for sname in sorted({s for s, _ in mapps}):
            nodes = [n for s, n in mapps if s == sname]
            # count over all entry->exit paths of mutate: treat the function as a one-iteration loop
            best = _path_count(mg, nodes)
            ctx.decide(best == (1, 1), "C18.once", mu.ident, loc_of(mu, nodes[0]), f"history.{sname}: exactly one entry per mutate call",
                       f"history.{sname} receives between {best[0]} and {best[1]} entries per mutate call", disc=sname)
            if outside_mut:
                ctx.refute("C18.extra", mu.ident, loc_of(sample, outside_mut[0]),
                           f"history.{sname} gets an extra entry from the mutate call outside the SMC loop (final-sample enlargement, "
                           f"src/aspire/samplers/smc/base.py:{outside_mut[0].lineno}): the series has one more entry than there were iterations",
                           disc=sname)
    ctx.floor("concrete mutate implementations", n_cls, 3)

    # ---- appends outside the loop in sample(): per entry path
    for resumed in (False, True):
        sf = fold_sample(repo, resumed=resumed, final=True, store_hist=True)
        ctx.count("functions_folded")
        tag = "resumed" if resumed else "fresh"
        outs = [e for e in sf.events("method:append", in_loop=False) if e.args and e.args[0][0] == "attr" and _is_history(e.args[0], sf)]
        by = {}
        for e in outs:
            by.setdefault(e.args[0][2], []).append(e)
        if resumed:
            ctx.decide(not outs, "C18.init", sample.ident, loc_of(sample, outs[0].node if outs else loop_node),
                       "[resumed] nothing is appended outside the loop: the restored history already holds the record up to the checkpoint",
                       f"[resumed] history.{sorted(by)} appended outside the loop on the resumed path: the restored history already contains that entry, "
                       "so the resumed run records it twice", disc="resumed")
        else:
            ok = set(by) <= {"sample_history"} and len(by.get("sample_history", [])) == 1
            lpr = sf.loop
            first = by.get("sample_history", [None])[0]
            okv = first is not None and lpr is not None and first.args[1] == lpr["pre"].get(roles(repo).samples) and first.node.lineno < loop_node.lineno
            ctx.decide(ok and okv, "C18.init", sample.ident, loc_of(sample, first.node if first else loop_node),
                       "[fresh] the initial population is recorded exactly once, before the loop",
                       f"[fresh] appends outside the loop: { {k: len(v) for k, v in by.items()} } (expected exactly the initial population, once, before the loop)", disc="fresh")

    # ---- every fresh run starts from an empty history of its own
    sfr = fold_sample(repo, resumed=False, final=False)
    stores_h = [st_ for st_ in sfr.ev.stores if st_[0] == SELF and st_[1] == "history" and st_[4] is sample]
    first_app = min((e.seq for e in sfr.ev.events if e.callee == "method:append" and e.func is sample), default=None)
    okh = bool(stores_h) and stores_h[0][2][0] == "obj" and stores_h[0][2][2] == "SMCHistory" and (first_app is None or stores_h[0][5] < first_app)
    ctx.decide(okh, "C18.reset", sample.ident, loc_of(sample, stores_h[0][3] if stores_h else loop_node),
               "[fresh] sample() creates a new, empty SMCHistory before anything is recorded",
               "[fresh] sample() does not start from a new empty history: a second run on the same sampler object appends to the first run's series and populations")
    # ---- a checkpoint holds a snapshot of the history, not the live lists
    from ..report import reuse
    from . import c11
    from . import c08
    reuse(ctx, c08.run, ("C08.ratio", "C08.var"), "C18def", "identities shared with C08: the recorded incremental ratio (and its variance) must be the log of the mean incremental weight "
          "over all N particles of the stored population, or it does not equal its definition recomputed from the stored populations")
    from . import c10
    hist_fields = tuple(f_.name for f_ in repo.cls("aspire.history:SMCHistory").fields())
    reuse(ctx, lambda c: c10.own_rule(c, fields=c10.DENSITY_FIELDS + hist_fields), ("C10.own",), "C18own", "ownership rule shared with C10: the history stores the population objects themselves, so an in-place write into "
          "a caller's array rewrites a population that was already recorded")
    reuse(ctx, c11.run, ("C11.restore",), "C18res", "restore rule shared with C11: the record of a resumed run starts with the checkpointed history; if the restore replaces it "
          "(a default, an `or` on an object that can be falsy), the entries of the iterations before the interruption are gone",
          only=lambda f: "history" in f.key.split(" | ")[-1] or "samples|redrawn" in f.key)
    reuse(ctx, c11.run, ("C11.state",), "C18ckpt", "payload rule shared with C11: a checkpoint built part-way through an iteration from values saved earlier copies a history that already "
          "holds the entries of the iteration in progress; the resumed run records them again", only=lambda f: f.key.endswith("extra-payload"))
    reuse(ctx, c11.run, ("C11.cut",), "C18cut", "cut-point rule shared with C11: a checkpoint taken before the iteration's last history append restores a history that lacks that entry")
    reuse(ctx, c11.run, ("C11.snapshot",), "C18ckpt", "snapshot rule shared with C11: a resumed run's history starts from what the checkpoint recorded")

    # ---- definitions of the appended values
    sf = fold_sample(repo, resumed=False, final=False)
    lpr = sf.loop
    R = roles(repo)
    head_s, body_b = lpr["head"].get(R.samples), lpr["body"].get(R.beta)
    la = {e.args[0][2]: e for e in sf.events("method:append", in_loop=True) if e.args and e.args[0][0] == "attr"}
    def chk(sname, ok, good, bad):
        e = la.get(sname)
        if e is None:
            return
        ctx.decide(ok(e.args[1]), "C18.def", sample.ident, loc_of(sample, e.node), good, bad(e.args[1]), disc=sname)
    chk("beta", lambda v: v == body_b, "history.beta receives this iteration's determine_beta result",
        lambda v: f"history.beta receives {T.show(v)[:100]}")
    lw = ("f", "method:log_weights", (head_s, body_b), ())
    ess_call = ("f", "call:aspire.utils:effective_sample_size", (lw,), ())
    chk("ess", lambda v: v == ess_call, "history.ess == ESS(log_weights(beta)) of the pre-resampling population",
        lambda v: f"history.ess receives {T.show(v)[:160]}")
    tgt = la.get("eff_target")
    if tgt is not None:
        v = tgt.args[1]
        cte = smc.resolve("current_target_efficiency")
        ev2, r2 = fold(repo, cte, smc, args={cte.params[1]: body_b}, ev=sf.ev)
        ctx.decide(v == T.strip_raise(r2), "C18.def", sample.ident, loc_of(sample, tgt.node), "history.eff_target == current_target_efficiency(this iteration's beta)",
                   f"history.eff_target receives {T.show(v)[:160]}", disc="eff_target")
    chk("sample_history", lambda v: v == lpr["body"].get(R.samples), "the stored population is this iteration's mutate result",
        lambda v: f"history.sample_history receives {T.show(v)[:100]}, not the population produced by this iteration")
    lw1 = ("f", "method:log_weights", (head_s, T.ONE), ())
    chk("ess_target", lambda v: v == ("f", "call:aspire.utils:effective_sample_size", (lw1,), ()),
        "history.ess_target == ESS(log_weights(1.0)) of the pre-resampling population", lambda v: f"history.ess_target receives {T.show(v)[:160]}")


def _is_history(t, sf):
    H = sf.ev.heap.get((SELF, "history"))
    return t[1] == H or (t[1][0] == "attr" and t[1][2] == "history")


def _path_count(g, nodes):
    """(min, max) number of the given call nodes over all entry -> exit paths
    (loops contracted: a node inside a loop gives max None)."""
    for lp in g.loops:
        for n in lp["body"]:
            if any(c in nodes for c in calls_in(n.ast)):
                return (0, None)
    memo = {}

    def rec(n):
        """(min, max) over the normal (returning) paths from n; None if no
        normal path leaves n."""
        if n in memo:
            return memo[n]
        memo[n] = None
        w = sum(1 for c in calls_in(n.ast) if c in nodes)
        outs = []
        for m, lab in g.succ[n]:
            if lab in ("exc", "back", "reraise"):
                continue
            if m is g.exit:
                outs.append((0, 0))
            elif m is g.raise_exit:
                continue
            else:
                r = rec(m)
                if r is not None:
                    outs.append(r)
        res = None if not outs else (w + min(o[0] for o in outs), w + max(o[1] for o in outs))
        memo[n] = res
        return res

    r = rec(g.entry)
    return r if r is not None else (0, 0)


_B = "src/aspire/samplers/smc/base.py"
_MP = "src/aspire/samplers/smc/minipcn.py"
_E = "src/aspire/samplers/smc/emcee.py"
MUTANTS = [
    M("beta recorded only when it moved", _B, "self.history.beta.append(beta)", "if beta > 0.5:\n                    self.history.beta.append(beta)", "C18.once"),
    M("ess recorded twice", _B, "self.history.ess.append(ess)", "self.history.ess.append(ess)\n                self.history.ess.append(ess)", "C18.once"),
    M("populations stored before mutation", _B, "samples = self.mutate(samples, beta)\n                if store_sample_history:\n                    self.history.sample_history.append(samples)",
      "if store_sample_history:\n                    self.history.sample_history.append(samples)\n                samples = self.mutate(samples, beta)", "C18.def"),
    M("resumed run re-records the restored population", _B, "if store_sample_history and not resumed:", "if store_sample_history:", "C18.init"),
    M("initial population never recorded", _B, "if store_sample_history and not resumed:\n            self.history.sample_history.append(samples)\n", "", "C18.init"),
    M("previous temperature recorded", _B, "beta, min_step = self.determine_beta(", "self.history.beta.append(beta)\n                beta, min_step = self.determine_beta(", ("C18.once", "C18.def"),
      more=[("logger.info(f\"it {iterations} - beta: {beta}\")\n                self.history.beta.append(beta)", "logger.info(f\"it {iterations} - beta: {beta}\")")]),
    M("ess of the resampled population", _B, "ess = effective_sample_size(samples.log_weights(beta))", "ess = effective_sample_size(samples.resample(beta, rng=self.rng).log_weights(beta))", "C18.def"),
    M("minipcn acceptance recorded conditionally", _MP, "self.history.mcmc_acceptance.append(np.mean(history.acceptance_rate))", "if n_steps is None:\n            self.history.mcmc_acceptance.append(np.mean(history.acceptance_rate))", "C18.once"),
    M("emcee autocorr recorded twice", _E, "self.history.mcmc_autocorr.append(", "self.history.mcmc_autocorr.append(0.0)\n        self.history.mcmc_autocorr.append(", "C18.once"),
    M("mutate called twice per iteration", _B, "samples = self.mutate(samples, beta)\n                if store_sample_history:", "samples = self.mutate(samples, beta)\n                samples = self.mutate(samples, beta)\n                if store_sample_history:", "C18.once"),
    M("eff_target at the previous temperature", _B, "self.history.eff_target.append(\n                    self.current_target_efficiency(beta)\n                )", "self.history.eff_target.append(\n                    self.current_target_efficiency(samples.beta)\n                )", "C18.def"),
]
MUTANTS += [
    M("history created once per sampler object", _B, "iterations = 0\n            self.history = SMCHistory()", "iterations = 0", ("C18.reset", "C18.init")),
    M("checkpoint shares the diagnostic lists", _B, "history_copy = copy.deepcopy(self.history)", "history_copy = copy.copy(self.history)\n        history_copy.sample_history = list(self.history.sample_history)", "C18ckpt"),
]
MUTANTS += [
    M("restored history replaced by a fresh one", "src/aspire/samplers/smc/base.py", "self.history = copy.deepcopy(state.get(\"history\", SMCHistory()))", "self.history = SMCHistory()", "C18res.restore"),
]
MUTANTS += [
    M("evidence total accumulated in place into the first recorded increment", "src/aspire/samplers/smc/base.py", "samples.log_evidence = samples.xp.sum(\n            asarray(self.history.log_norm_ratio, self.xp)\n        )",
      "samples.log_evidence = _running_total(self.history.log_norm_ratio)", "C18own.own",
      more=[("class SMCSampler(MCMCSampler):", "def _running_total(values):\n    total = values[0]\n    for value in values[1:]:\n        total += value\n    return total\n\n\nclass SMCSampler(MCMCSampler):")]),
]
NEUTRALS = [
    __import__("aspire_sa.rules.smcloop", fromlist=["HELPER_NEUTRAL"]).HELPER_NEUTRAL,
    M("history through a local alias", _B, "self.history.beta.append(beta)", "hist = self.history\n                hist.beta.append(beta)"),
    M("appends reordered", _B, "self.history.ess.append(ess)", "pass", more=[("self.history.beta.append(beta)", "self.history.beta.append(beta)\n                self.history.ess.append(effective_sample_size(samples.log_weights(beta)))")]),
    M("flag test inverted with swapped branches", _B, "samples = self.mutate(samples, beta)\n                if store_sample_history:\n                    self.history.sample_history.append(samples)",
      "samples = self.mutate(samples, beta)\n                if not store_sample_history:\n                    pass\n                else:\n                    self.history.sample_history.append(samples)"),
]

# functions the property is anchored in (auto-mutant sweep of the thorough tier)
ANCHORS = [
    'aspire.samplers.smc.base:SMCSampler.sample',
    'aspire.samplers.smc.minipcn:MiniPCNSMC.mutate',
    'aspire.samplers.smc.emcee:EmceeSMC.mutate',
]
