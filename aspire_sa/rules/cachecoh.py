"""Cache coherence: derived state that is computed lazily from other attributes
of the same object must be invalidated wherever those attributes are reassigned.

Instances found from the code (never listed): a *lazy cache* is an attribute A
stored under a guard that tests A itself (`if self.A is None: self.A = f(self.X)`,
`if not hasattr(self, "A")`), or a `functools.cached_property`; its sources are the
other attributes of self read in the stored expression / property body (through
aliases assigned in the same block).  Every method other than the constructor that
stores a source must also store (reset) or delete the cache.
"""

from __future__ import annotations

import ast

from ..model import walk_no_nested


def _self_attrs_read(node, me):
    return {n.attr for n in ast.walk(node) if isinstance(n, ast.Attribute) and isinstance(n.ctx, ast.Load) and isinstance(n.value, ast.Name) and n.value.id == me}


def _self_stores(f):
    me = f.params[0] if f.params else None
    out = {}
    for n in walk_no_nested(f.node):
        if isinstance(n, ast.Attribute) and isinstance(n.ctx, (ast.Store, ast.Del)) and isinstance(n.value, ast.Name) and n.value.id == me:
            out.setdefault(n.attr, n)
        # self.__dict__.pop("A", None): invalidates a cached_property
        if isinstance(n, ast.Call) and isinstance(n.func, ast.Attribute) and n.func.attr == "pop" and isinstance(n.func.value, ast.Attribute) and n.func.value.attr == "__dict__" \
                and n.args and isinstance(n.args[0], ast.Constant):
            out.setdefault(n.args[0].value, n)
    return out


def lazy_caches(cls):
    """[(attribute, sources, defining method, node)] for class *cls* (own and inherited methods)."""
    out = []
    seen = set()
    for c in cls.mro():
        for m in c.methods.values():
            if cls.resolve(m.name) is not m or not m.params or m.name in ("__init__", "__post_init__", "__new__"):
                continue  # defaults filled in by a constructor are initialisation, not a cache
            me = m.params[0]
            decos = {(d.attr if isinstance(d, ast.Attribute) else getattr(d, "id", None)) for d in m.node.decorator_list}
            if "cached_property" in decos:
                src = _self_attrs_read(m.node, me) - {m.name}
                if src and (m.name, m.ident) not in seen:
                    seen.add((m.name, m.ident))
                    out.append((m.name, src, m, m.node))
                continue
            for n in walk_no_nested(m.node):
                if not isinstance(n, ast.If):
                    continue
                tested = None
                t = n.test
                neg = False
                while isinstance(t, ast.UnaryOp) and isinstance(t.op, ast.Not):
                    t, neg = t.operand, not neg
                if isinstance(t, ast.Compare) and len(t.ops) == 1 and isinstance(t.ops[0], (ast.Is, ast.IsNot)) and isinstance(t.comparators[0], ast.Constant) and t.comparators[0].value is None \
                        and isinstance(t.left, ast.Attribute) and isinstance(t.left.value, ast.Name) and t.left.value.id == me:
                    tested = t.left.attr
                    fill = n.body if (isinstance(t.ops[0], ast.Is) != neg) else n.orelse
                elif isinstance(t, ast.Compare) and len(t.ops) == 1 and isinstance(t.ops[0], (ast.Is, ast.IsNot)) and isinstance(t.comparators[0], ast.Constant) and t.comparators[0].value is None \
                        and isinstance(t.left, ast.Call) and isinstance(t.left.func, ast.Name) and t.left.func.id == "getattr" and len(t.left.args) >= 2 \
                        and isinstance(t.left.args[0], ast.Name) and t.left.args[0].id == me and isinstance(t.left.args[1], ast.Constant):
                    tested = t.left.args[1].value
                    fill = n.body if (isinstance(t.ops[0], ast.Is) != neg) else n.orelse
                elif isinstance(t, ast.Call) and isinstance(t.func, ast.Name) and t.func.id == "hasattr" and len(t.args) == 2 and isinstance(t.args[0], ast.Name) and t.args[0].id == me \
                        and isinstance(t.args[1], ast.Constant):
                    tested = t.args[1].value
                    fill = n.orelse if not neg else n.body
                if tested is None:
                    continue
                local_src = {}
                for st in fill:
                    if isinstance(st, ast.Assign) and isinstance(st.targets[0], ast.Name):
                        local_src[st.targets[0].id] = _self_attrs_read(st.value, me)
                    if isinstance(st, ast.Assign) and any(isinstance(tg, ast.Attribute) and isinstance(tg.value, ast.Name) and tg.value.id == me and tg.attr == tested for tg in st.targets):
                        src = _self_attrs_read(st.value, me)
                        for x in ast.walk(st.value):
                            if isinstance(x, ast.Name) and x.id in local_src:
                                src |= local_src[x.id]
                        src -= {tested}
                        if src and (tested, m.ident) not in seen:
                            seen.add((tested, m.ident))
                            out.append((tested, src, m, st))
    return out


# wrappers whose result remembers what the wrapped callable computed the first time it saw an argument (shape):
# jax.jit / eqx.filter_jit bake every closed-over value into the trace as a constant; lru_cache / cache memoise on the arguments only
MEMO_WRAPPERS = {"jit", "filter_jit", "pmap", "lru_cache", "cache"}


def compiled_closures(cls):
    """[(attribute, sources, defining method, node)]: `self.A = jit(<callable that reads self.X>)` in any method, the
    constructor included -- the compiled function keeps the value self.X had when it was first traced (memoised)."""
    out = []
    seen = set()
    for c in cls.mro():
        for m in c.methods.values():
            if cls.resolve(m.name) is not m or not m.params:
                continue
            me = m.params[0]
            nested = {n.name: n for n in ast.walk(m.node) if isinstance(n, (ast.FunctionDef, ast.AsyncFunctionDef)) and n is not m.node}
            for st in ast.walk(m.node):
                if not (isinstance(st, ast.Assign) and isinstance(st.value, ast.Call)):
                    continue
                tg = [t for t in st.targets if isinstance(t, ast.Attribute) and isinstance(t.value, ast.Name) and t.value.id == me]
                if not tg:
                    continue
                call = st.value
                # jit(f), jit(f, static_argnums=..), lru_cache(maxsize=..)(f), partial(jit, ..)(f)
                heads = []
                f = call
                while isinstance(f, ast.Call):
                    heads.append(f)
                    f = f.func
                nm = f.attr if isinstance(f, ast.Attribute) else getattr(f, "id", None)
                if nm == "partial" and heads and heads[-1].args:
                    a0 = heads[-1].args[0]
                    nm = a0.attr if isinstance(a0, ast.Attribute) else getattr(a0, "id", None)
                if nm not in MEMO_WRAPPERS:
                    continue
                src = set()
                for h in heads:
                    for a in h.args:
                        if isinstance(a, ast.Name) and a.id in nested:
                            src |= _self_attrs_read(nested[a.id], me)
                        else:
                            src |= _self_attrs_read(a, me)
                src -= {tg[0].attr}
                if src and (tg[0].attr, m.ident) not in seen:
                    seen.add((tg[0].attr, m.ident))
                    out.append((tg[0].attr, src, m, st))
    return out


def findings(repo, classes):
    """[(class, cache attr, source attr, writer method, writer node, cache-defining method)]"""
    out = []
    n_caches = 0
    for cls in classes:
        caches = lazy_caches(cls) + compiled_closures(cls)
        n_caches += len(caches)
        if not caches:
            continue
        methods = [cls.resolve(nm) for c in cls.mro() for nm in c.methods]
        methods = list({m.ident: m for m in methods if m is not None}.values())
        for attr, srcs, definer, _node in caches:
            for w in methods:
                if w.name in ("__init__", "__post_init__", "__new__") or w is definer:
                    continue
                st = _self_stores(w)
                hit = [x for x in srcs if x in st]
                if hit and attr not in st:
                    out.append((cls, attr, hit[0], w, st[hit[0]], definer))
    return out, n_caches


def rule(ctx, rule_name: str, module_prefixes, consequence: str):
    """Emit the cache-coherence rule for the classes of the given modules."""
    from .common import loc_of
    repo = ctx.repo
    classes = [c for mname, m in repo.modules.items() if any(mname.startswith(p) for p in module_prefixes) for c in m.classes.values()]
    fs, n_caches = findings(repo, classes)
    ctx.count(f"{rule_name}:classes_scanned", len(classes))
    ctx.count(f"{rule_name}:lazy_caches", n_caches)
    if not fs:
        ctx.prove(rule_name, "package", "src/aspire", f"every lazily computed attribute ({n_caches} found in {len(classes)} classes) is reset by each method that reassigns one of its sources")
    for cls, attr, src, w, node, definer in fs:
        ctx.refute(rule_name, f"{cls.ident}.{attr}", loc_of(w, node),
                   f"{cls.name}.{attr} is computed once from self.{src} (in {definer.name}) and kept, but {w.name}() reassigns self.{src} without resetting it: "
                   f"after that call the cached value describes the old {src} -- {consequence}", disc=f"{w.name}|{src}")
