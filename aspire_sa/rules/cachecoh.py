"""Cache coherence: derived state that is computed lazily from other attributes
of the same object must be invalidated wherever those attributes are reassigned.

Instances found from the code (never listed): a *lazy cache* is an attribute A
stored under a guard that tests A itself (`if self.A is None: self.A = f(self.X)`,
`if not hasattr(self, "A")`), or a `functools.cached_property`; its sources are the
other attributes of self read in the stored expression / property body (through
aliases assigned in the same block).  Every method other than the constructor that
stores a source must also store (reset) or delete the cache.
"""

from __future__ import annotations

import ast

from ..model import walk_no_nested


def _self_attrs_read(node, me):
    return {n.attr for n in ast.walk(node) if isinstance(n, ast.Attribute) and isinstance(n.ctx, ast.Load) and isinstance(n.value, ast.Name) and n.value.id == me}


def _self_stores(f):
    me = f.params[0] if f.params else None
    out = {}
    for n in walk_no_nested(f.node):
        if isinstance(n, ast.Attribute) and isinstance(n.ctx, (ast.Store, ast.Del)) and isinstance(n.value, ast.Name) and n.value.id == me:
            out.setdefault(n.attr, n)
        # self.__dict__.pop("A", None): invalidates a cached_property
        if isinstance(n, ast.Call) and isinstance(n.func, ast.Attribute) and n.func.attr == "pop" and isinstance(n.func.value, ast.Attribute) and n.func.value.attr == "__dict__" \
                and n.args and isinstance(n.args[0], ast.Constant):
            out.setdefault(n.args[0].value, n)
    return out


def lazy_caches(cls):
    """[(attribute, sources, defining method, node)] for class *cls* (own and inherited methods)."""
    out = []
    seen = set()
    for c in cls.mro():
        for m in c.methods.values():
            if cls.resolve(m.name) is not m or not m.params or m.name in ("__init__", "__post_init__", "__new__"):
                continue  # defaults filled in by a constructor are initialisation, not a cache
            me = m.params[0]
            decos = {(d.attr if isinstance(d, ast.Attribute) else getattr(d, "id", None)) for d in m.node.decorator_list}
            if "cached_property" in decos:
                src = _self_attrs_read(m.node, me) - {m.name}
                if src and (m.name, m.ident) not in seen:
                    seen.add((m.name, m.ident))
                    out.append((m.name, src, m, m.node))
                continue
            for n in walk_no_nested(m.node):
                if not isinstance(n, ast.If):
                    continue
                tested = None
                t = n.test
                neg = False
                while isinstance(t, ast.UnaryOp) and isinstance(t.op, ast.Not):
                    t, neg = t.operand, not neg
                if isinstance(t, ast.Compare) and len(t.ops) == 1 and isinstance(t.ops[0], (ast.Is, ast.IsNot)) and isinstance(t.comparators[0], ast.Constant) and t.comparators[0].value is None \
                        and isinstance(t.left, ast.Attribute) and isinstance(t.left.value, ast.Name) and t.left.value.id == me:
                    tested = t.left.attr
                    fill = n.body if (isinstance(t.ops[0], ast.Is) != neg) else n.orelse
                elif isinstance(t, ast.Compare) and len(t.ops) == 1 and isinstance(t.ops[0], (ast.Is, ast.IsNot)) and isinstance(t.comparators[0], ast.Constant) and t.comparators[0].value is None \
                        and isinstance(t.left, ast.Call) and isinstance(t.left.func, ast.Name) and t.left.func.id == "getattr" and len(t.left.args) >= 2 \
                        and isinstance(t.left.args[0], ast.Name) and t.left.args[0].id == me and isinstance(t.left.args[1], ast.Constant):
                    tested = t.left.args[1].value
                    fill = n.body if (isinstance(t.ops[0], ast.Is) != neg) else n.orelse
                elif isinstance(t, ast.Call) and isinstance(t.func, ast.Name) and t.func.id == "hasattr" and len(t.args) == 2 and isinstance(t.args[0], ast.Name) and t.args[0].id == me \
                        and isinstance(t.args[1], ast.Constant):
                    tested = t.args[1].value
                    fill = n.orelse if not neg else n.body
                if tested is None:
                    continue
                local_src = {}
                for st in fill:
                    if isinstance(st, ast.Assign) and isinstance(st.targets[0], ast.Name):
                        local_src[st.targets[0].id] = _self_attrs_read(st.value, me)
                    if isinstance(st, ast.Assign) and any(isinstance(tg, ast.Attribute) and isinstance(tg.value, ast.Name) and tg.value.id == me and tg.attr == tested for tg in st.targets):
                        src = _self_attrs_read(st.value, me)
                        for x in ast.walk(st.value):
                            if isinstance(x, ast.Name) and x.id in local_src:
                                src |= local_src[x.id]
                        src -= {tested}
                        if src and (tested, m.ident) not in seen:
                            seen.add((tested, m.ident))
                            out.append((tested, src, m, st))
    return out


# wrappers whose result remembers what the wrapped callable computed the first time it saw an argument (shape):
# jax.jit / eqx.filter_jit bake every closed-over value into the trace as a constant; lru_cache / cache memoise on the arguments only
MEMO_WRAPPERS = {"jit", "filter_jit", "pmap", "lru_cache", "cache"}


def compiled_closures(cls):
    """[(attribute, sources, defining method, node)]: `self.A = jit(<callable that reads self.X>)` in any method, the
    constructor included -- the compiled function keeps the value self.X had when it was first traced (memoised)."""
    out = []
    seen = set()
    for c in cls.mro():
        for m in c.methods.values():
            if cls.resolve(m.name) is not m or not m.params:
                continue
            me = m.params[0]
            nested = {n.name: n for n in ast.walk(m.node) if isinstance(n, (ast.FunctionDef, ast.AsyncFunctionDef)) and n is not m.node}
            for st in ast.walk(m.node):
                if not (isinstance(st, ast.Assign) and isinstance(st.value, ast.Call)):
                    continue
                tg = [t for t in st.targets if isinstance(t, ast.Attribute) and isinstance(t.value, ast.Name) and t.value.id == me]
                if not tg:
                    continue
                call = st.value
                # jit(f), jit(f, static_argnums=..), lru_cache(maxsize=..)(f), partial(jit, ..)(f)
                heads = []
                f = call
                while isinstance(f, ast.Call):
                    heads.append(f)
                    f = f.func
                nm = f.attr if isinstance(f, ast.Attribute) else getattr(f, "id", None)
                if nm == "partial" and heads and heads[-1].args:
                    a0 = heads[-1].args[0]
                    nm = a0.attr if isinstance(a0, ast.Attribute) else getattr(a0, "id", None)
                if nm not in MEMO_WRAPPERS:
                    continue
                src = set()
                for h in heads:
                    for a in h.args:
                        if isinstance(a, ast.Name) and a.id in nested:
                            src |= _self_attrs_read(nested[a.id], me)
                        else:
                            src |= _self_attrs_read(a, me)
                src -= {tg[0].attr}
                if m.name not in ("__init__", "__post_init__", "__new__") and st in m.node.body and not _read_elsewhere(cls, tg[0].attr, m):
                    continue  # rebuilt unconditionally by the only method that uses it: not kept across calls
                src = _expand_methods(cls, src, uses=_USES.setdefault((cls.ident, tg[0].attr), {}))
                if src and (tg[0].attr, m.ident) not in seen:
                    seen.add((tg[0].attr, m.ident))
                    out.append((tg[0].attr, src, m, st))
    return out


def _read_elsewhere(cls, attr, m):
    for c in cls.mro():
        for o in c.methods.values():
            if o is m or not o.params or cls.resolve(o.name) is not o:
                continue
            if attr in _self_attrs_read(o.node, o.params[0]):
                return True
    return False


_USES: dict = {}  # (class, compiled attribute) -> {source attribute: names of the methods the compiled callable calls on it}


def _expand_methods(cls, names, depth=4, uses=None):
    """A bound method handed to a compiling wrapper (jit(self.m)) closes over everything m reads from self, directly or
    through the methods it calls: replace method names by those data attributes."""
    out, todo, seen = set(), [(n, 0) for n in names], set()
    while todo:
        n, d = todo.pop()
        if n in seen:
            continue
        seen.add(n)
        f = cls.resolve(n)
        if f is None or not getattr(f, "params", None):
            out.add(n)
            continue
        if "property" in {(x.attr if isinstance(x, ast.Attribute) else getattr(x, "id", None)) for x in f.node.decorator_list}:
            out.add(n)
        if d >= depth:
            continue
        for a in _self_attrs_read(f.node, f.params[0]):
            todo.append((a, d + 1))
        if uses is not None:
            for c_ in ast.walk(f.node):
                if isinstance(c_, ast.Call) and isinstance(c_.func, ast.Attribute) and isinstance(c_.func.value, ast.Attribute) \
                        and isinstance(c_.func.value.value, ast.Name) and c_.func.value.value.id == f.params[0]:
                    uses.setdefault(c_.func.value.attr, set()).add(c_.func.attr)
    return out


def _reads_transitive(c, name, depth=3):
    out, todo, seen = set(), [(name, 0)], set()
    while todo:
        n, d = todo.pop()
        if n in seen:
            continue
        seen.add(n)
        f = c.resolve(n)
        if f is None or not getattr(f, "params", None):
            out.add(n)
            continue
        if d < depth:
            todo.extend((a, d + 1) for a in _self_attrs_read(f.node, f.params[0]))
    return out


def _interferes(repo, writer_name, reader_names):
    """True if some class of the package has a method *writer_name* that stores (outside the constructor) an attribute which one of
    its methods *reader_names* reads, directly or through its own helpers: calling writer on an object changes what reader returns.
    (`fit` then `inverse` on a transform: yes; `sample_and_log_prob` -- which only advances a key -- then `log_prob` on a flow: no.)"""
    cache = repo.__dict__.setdefault("_interferes", {})
    key = (writer_name, frozenset(reader_names))
    if key not in cache:
        hit = False
        for mod in repo.modules.values():
            for c in mod.classes.values():
                w = c.resolve(writer_name)
                if w is None or not w.params or writer_name.startswith("__"):
                    continue
                stored = set(_self_stores(w))
                if not stored:
                    continue
                for rn in reader_names:
                    if rn != writer_name and c.resolve(rn) is not None and stored & _reads_transitive(c, rn):
                        hit = True
        cache[key] = hit
    return cache[key]


def _self_object_mutations(repo, f, uses):
    """{attribute: node} for calls `self.X.m(...)` where m changes what the methods the compiled callable calls on X return."""
    me = f.params[0] if f.params else None
    out = {}
    for n in walk_no_nested(f.node):
        if isinstance(n, ast.Call) and isinstance(n.func, ast.Attribute) and isinstance(n.func.value, ast.Attribute) \
                and isinstance(n.func.value.value, ast.Name) and n.func.value.value.id == me:
            x = n.func.value.attr
            if x in uses and _interferes(repo, n.func.attr, uses[x]):
                out.setdefault(x, n)
    return out


def findings(repo, classes):
    """[(class, cache attr, source attr, writer method, writer node, cache-defining method)]"""
    out = []
    n_caches = 0
    for cls in classes:
        lazy = lazy_caches(cls)
        compiled = compiled_closures(cls)
        # a lazily filled attribute whose value is a compiled closure: `if self.A is None: self.A = jit(self.m)`
        compiled_attrs = {a for a, _s, _m, _n in compiled}
        caches = [c_ for c_ in lazy if c_[0] not in compiled_attrs] + compiled
        n_caches += len(caches)
        if not caches:
            continue
        methods = [cls.resolve(nm) for c in cls.mro() for nm in c.methods]
        methods = list({m.ident: m for m in methods if m is not None}.values())
        for attr, srcs, definer, _node in caches:
            for w in methods:
                if w.name in ("__init__", "__post_init__", "__new__") or w is definer:
                    continue
                st = _self_stores(w)
                hit = [x for x in srcs if x in st]
                if hit and attr not in st:
                    out.append((cls, attr, hit[0], w, st[hit[0]], definer))
                    continue
                if attr in compiled_attrs and attr not in st:
                    # the trace also bakes in the *state* of the objects it closed over: refitting one in place is a reassignment as far as the trace goes
                    mu = _self_object_mutations(repo, w, _USES.get((cls.ident, attr), {}))
                    hit = [x for x in srcs if x in mu]
                    if hit:
                        out.append((cls, attr, hit[0], w, mu[hit[0]], definer, mu[hit[0]].func.attr))
    return out, n_caches


def rule(ctx, rule_name: str, module_prefixes, consequence: str):
    """Emit the cache-coherence rule for the classes of the given modules."""
    from .common import loc_of
    repo = ctx.repo
    classes = [c for mname, m in repo.modules.items() if any(mname.startswith(p) for p in module_prefixes) for c in m.classes.values()]
    fs, n_caches = findings(repo, classes)
    ctx.count(f"{rule_name}:classes_scanned", len(classes))
    ctx.count(f"{rule_name}:lazy_caches", n_caches)
    if not fs:
        ctx.prove(rule_name, "package", "src/aspire", f"every lazily computed attribute ({n_caches} found in {len(classes)} classes) is reset by each method that reassigns one of its sources")
    for cls, attr, src, w, node, definer, *via in fs:
        if via:
            ctx.refute(rule_name, f"{cls.ident}.{attr}", loc_of(w, node),
                       f"{cls.name}.{attr} is a compiled / memoised callable built once (in {definer.name}) over self.{src}, whose state it bakes in, but {w.name}() calls "
                       f"self.{src}.{via[0]}(), which changes that state, without rebuilding it: after that call the compiled function still computes with the old {src} -- {consequence}",
                       disc=f"{w.name}|{src}|{via[0]}")
            continue
        ctx.refute(rule_name, f"{cls.ident}.{attr}", loc_of(w, node),
                   f"{cls.name}.{attr} is computed once from self.{src} (in {definer.name}) and kept, but {w.name}() reassigns self.{src} without resetting it: "
                   f"after that call the cached value describes the old {src} -- {consequence}", disc=f"{w.name}|{src}")
