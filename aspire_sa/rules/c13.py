"""C13 -- saved samples, histories, transforms, flows and configuration reload unchanged.

Decides writer/reader *schema agreement* (key sets, sentinel strings, group and
dataset names, f-string templates, constructor signatures); value equality
after a round trip is not decided.
"""

from __future__ import annotations

import ast

from .. import AnalysisError
from .. import terms as T
from ..evalr import Evaluator, Frame, State
from ..model import walk_no_nested
from ..mutants import M
from .c16 import dict_schema
from .carry import SAMPLES_MOD, CLASSES
from .common import SELF, fold, loc_of, self_attr

META = {
    "explanation": (
        "Ten writer/reader pairs are put side by side: sentinel strings emitted by encode_for_hdf5 are decoded by "
        "decode_from_hdf5 and each emitting branch is reachable from the writer (an empty dict value reaches the encoder "
        "instead of being recursed into); encode_samples/decode_samples and encode_dtype/decode_dtype use the same keys; per "
        "sample class the keys to_dict emits are consumed or accepted by from_dict; the flattening separator of "
        "recursively_save_to_h5_file is the one load_from_h5_file splits on; SMCHistory.save/load agree on the length key and "
        "the per-iteration path template; every transform class's config_dict keys are constructor parameters and cover the "
        "required ones, _save_state and _load_state use the same dataset names; both flow back-ends write and read the same "
        "group names and both re-splat the captured **kwargs; Aspire.config_dict covers every stateful constructor parameter "
        "and every key the rebuild passes on is a named parameter."
    ),
    "not_decided": "value equality after a round trip, dotted parameter names, HDF5 type coercions",
    "assumptions": ["h5py group/dataset naming semantics"],
}

U = "aspire.utils"


def str_consts(node):
    return {n.value for n in ast.walk(node) if isinstance(n, ast.Constant) and isinstance(n.value, str)}


def dict_keys_of(term):
    out = set()
    for l in T.phi_leaves(T.strip_raise(term)):
        if l[0] == "d":
            out |= {k[1] for k, _ in l[1] if k[0] == "k" and isinstance(k[1], str)}
    return out


def subscript_keys(f, base_name):
    """String keys read as base_name["key"] / base_name.get("key") / "key" in base_name."""
    out = set()
    for n in walk_no_nested(f.node):
        if isinstance(n, ast.Subscript) and isinstance(n.value, ast.Name) and n.value.id == base_name and isinstance(n.slice, ast.Constant) and isinstance(n.slice.value, str):
            out.add(n.slice.value)
        if isinstance(n, ast.Call) and isinstance(n.func, ast.Attribute) and n.func.attr in ("get", "pop") and isinstance(n.func.value, ast.Name) \
                and n.func.value.id == base_name and n.args and isinstance(n.args[0], ast.Constant) and isinstance(n.args[0].value, str):
            out.add(n.args[0].value)
        if isinstance(n, ast.Compare) and isinstance(n.ops[0], (ast.In, ast.NotIn)) and isinstance(n.left, ast.Constant) and isinstance(n.left.value, str) \
                and isinstance(n.comparators[0], ast.Name) and n.comparators[0].id == base_name:
            out.add(n.left.value)
    return out


def _type_names(t):
    if t[0] == "t":
        return {n for x in t[1] for n in _type_names(x)}
    if t[0] == "ref":
        return {t[1].replace(":", ".").split(".")[-1]}
    return {"?"}


def _kind_oracle(kind, V):
    """Decides the type-dispatch tests of the HDF5 codec for one kind of value."""
    def conv(t):  # the value after value.decode('utf-8') / encode_samples(value)
        if t[0] == "f" and t[1] == "method:decode" and t[2][0] == V:
            return {"str"}
        if t[0] == "f" and "encode_samples" in t[1]:
            return {"dict"}
        return None

    def o(c):
        if c[0] == "f" and c[1] == "isinstance":
            subj, typ = c[2]
            if subj == V:
                return bool(_type_names(typ) & kind.get("types", set()))
            if conv(subj) is not None:
                return bool(_type_names(typ) & conv(subj))
            return None
        if c == ("is", V, T.NONE):
            return kind.get("none", False)
        if c == V:
            return kind.get("truthy", True)
        if c[0] == "f" and "encode_samples" in c[1]:
            return True
        if c[0] == "f" and c[1].endswith("all"):
            return kind.get("allstr")
        if c[0] == "f" and c[1].endswith("is_jax_array"):
            return kind.get("jax", False)
        if c[0] == "f" and c[1].endswith("is_torch_array"):
            return kind.get("torch", False)
        if c[0] == "cmp" and c[1] == "==" and "text" in kind:
            ks = [x for x in c[2:] if x[0] == "k"]
            if len(ks) == 1:
                return ks[0][1] == kind["text"]
        if c[0] == "in" and c[1][0] == "k" and c[2] == V and "has" in kind:
            return c[1][1] in kind["has"]
        return None
    return o


def codec_dispatch(ctx, repo):
    """C13.dispatch: encode_for_hdf5 / decode_from_hdf5 folded once per kind of
    value (the isinstance / is None / emptiness tests are decided by the kind), so
    that each kind takes the branch meant for it and the two sides pair up."""
    enc, dec = repo.func(f"{U}:encode_for_hdf5"), repo.func(f"{U}:decode_from_hdf5")
    V = T.atom(enc.params[0])
    W = T.atom(dec.params[0])

    def fold_kind(f, kind, var):
        ev = Evaluator(repo, max_depth=0, assume=_kind_oracle(kind, var))
        return T.strip_raise(ev.run(f))

    def is_call(t, name, arg=None):
        return t[0] == "f" and t[1].endswith(name) and (arg is None or (t[2] and t[2][0] == arg))

    def comp_of(t, kind, fn, src):
        """t == <kind>comp(fn(elem(src)))"""
        return t[0] == "f" and t[1] == kind and len(t[2]) == 2 and t[2][1] == ("t", (src, ("t", ()))) and is_call(t[2][0], fn, ("f", "elem", (src,), ()))

    def dictcomp_of(t, fn, src, key_pred):
        items = ("f", "method:items", (src,), ())
        el = ("f", "elem", (items,), ())
        if not (t[0] == "f" and t[1] == "dictcomp" and len(t[2]) == 2 and t[2][1] == ("t", (items, ("t", ())))):
            return False
        body = t[2][0]
        return body[0] == "t" and key_pred(body[1][0], ("s", el, T.const(0))) and is_call(body[1][1], fn, ("s", el, T.const(1)))

    none_s = fold_kind(enc, dict(none=True), V)
    empty_s = fold_kind(enc, dict(types={"dict"}, truthy=False), V)
    sent_ok = none_s[0] == "k" and empty_s[0] == "k" and isinstance(none_s[1], str) and isinstance(empty_s[1], str) and none_s != empty_s
    ctx.decide(sent_ok, "C13.dispatch", enc.ident, loc_of(enc), f"None and the empty dict are stored as two distinct string sentinels ({T.show(none_s)}, {T.show(empty_s)})",
               f"None is encoded as {T.show(none_s)[:80]} and the empty dict as {T.show(empty_s)[:80]}: they are not two distinct string sentinels, so one of them does not reload as itself", disc="enc|sentinels")
    same = lambda t: t == V  # noqa: E731
    enc_cases = [
        ("non-empty dict", dict(types={"dict"}), lambda t: dictcomp_of(t, "encode_for_hdf5", V, lambda k, e: k == e), "a dict with every value encoded"),
        ("str", dict(types={"str"}), same, "itself"), ("int", dict(types={"int"}), same, "itself"), ("float", dict(types={"float"}), same, "itself"),
        ("ndarray", dict(types={"ndarray"}), same, "itself"),
        ("jax array", dict(jax=True), same, "its NumPy conversion"), ("torch tensor", dict(torch=True), same, "its NumPy conversion"),
        ("list of str", dict(types={"list"}, allstr=True), same, "a string array of its items"),
        ("list", dict(types={"list"}, allstr=False), lambda t: comp_of(t, "listcomp", "encode_for_hdf5", V), "the list of its encoded items"),
        ("tuple", dict(types={"tuple"}, allstr=False), lambda t: comp_of(t, "listcomp", "encode_for_hdf5", V) or (is_call(t, "tuple") and comp_of(t[2][0], "listcomp", "encode_for_hdf5", V)), "the sequence of its encoded items"),
        ("set", dict(types={"set"}), lambda t: comp_of(t, "setcomp", "encode_for_hdf5", V), "the set of its encoded items"),
        ("sample set", dict(types={"BaseSamples"}), lambda t: any(is_call(x, "encode_samples", V) for x in T.subterms(t)) and t[0] == "f" and t[1] == "dictcomp"
            and any(is_call(x, "encode_for_hdf5") for x in T.subterms(t)), "encode_samples(value), encoded entry by entry"),
        ("call history", dict(types={"CallHistory"}), lambda t: is_call(t, "method:to_dict", V), "its to_dict() form"),
    ]
    for name, kind, pred, what in enc_cases:
        r = fold_kind(enc, kind, V)
        ctx.decide(pred(r), "C13.dispatch", enc.ident, loc_of(enc), f"a {name} is encoded as {what}",
                   f"a {name} is encoded as {T.show(r)[:160]}, not as {what}: it does not reload as the value that was saved", disc=f"enc|{name}")
    if sent_ok:
        raw = lambda t: t == W  # noqa: E731
        txt = ("f", "method:decode", (W, T.K("utf-8")), ())
        dec_cases = [
            ("the None sentinel (bytes)", dict(types={"bytes"}, text=none_s[1]), lambda t: t == T.NONE, "None"),
            ("the empty-dict sentinel (bytes)", dict(types={"bytes"}, text=empty_s[1]), lambda t: t == ("d", ()), "{}"),
            ("any other bytes string", dict(types={"bytes"}, text="\0"), lambda t: t == txt, "its utf-8 text"),
            ("the None sentinel (str)", dict(types={"str"}, text=none_s[1]), lambda t: t == T.NONE, "None"),
            ("the empty-dict sentinel (str)", dict(types={"str"}, text=empty_s[1]), lambda t: t == ("d", ()), "{}"),
            ("any other str", dict(types={"str"}, text="\0"), raw, "itself"),
            ("an ndarray", dict(types={"ndarray"}), lambda t: all(l == W or (any(x == W for x in T.subterms(l)) and all(x == W for x in T.subterms(l) if x and x[0] == "a"))
                                                                     for l in T.phi_leaves(t)), "itself (0-d arrays as scalars, string arrays as lists)"),
            ("a list", dict(types={"list"}), lambda t: comp_of(t, "listcomp", "decode_from_hdf5", W), "the list of its decoded items"),
            ("a tuple", dict(types={"tuple"}), lambda t: is_call(t, "tuple") and comp_of(t[2][0], "listcomp", "decode_from_hdf5", W), "the tuple of its decoded items"),
            ("a set", dict(types={"set"}), lambda t: comp_of(t, "setcomp", "decode_from_hdf5", W), "the set of its decoded items"),
            ("an encoded sample set", dict(types={"dict"}, has={"__samples__"}), lambda t: is_call(t, "decode_samples", W), "decode_samples(value)"),
            ("a plain dict", dict(types={"dict"}, has=set()), lambda t: dictcomp_of(t, "decode_from_hdf5", W, lambda k, e: k == e or (is_call(k, "method:decode", e))), "a dict with every value decoded"),
            ("a number", dict(), raw, "itself"),
        ]
        for name, kind, pred, what in dec_cases:
            r = fold_kind(dec, kind, W)
            ctx.decide(pred(r), "C13.dispatch", dec.ident, loc_of(dec), f"{name} decodes to {what}",
                       f"{name} decodes to {T.show(r)[:160]}, not to {what}", disc=f"dec|{name}")


def flow_dataflow(ctx, repo, c, sv, ld):
    """C13.flow (dataflow part): on save the data transform (when there is one), the
    configuration and every weight array are written; on load the data transform is
    re-attached exactly when the file has one, the object is built from the stored
    configuration, the stored arrays are installed in it, and that object is returned."""
    def has(t, pred):
        return any(pred(x) for x in T.subterms(t))
    # private helpers of the flow classes are part of save / load (inlined); everything else stays a call
    helpers = lambda f: f.cls is not None and f.cls in c.mro() and f.name.startswith("_") and not f.name.startswith("__")  # noqa: E731
    ev = Evaluator(repo, max_depth=1, inline=helpers)
    ev.run(sv, c)
    mine = [e for e in ev.events if e.func is sv or (e.func.cls is not None and helpers(e.func))]
    dts = [e for e in mine if e.callee == "method:save" and len(e.args) >= 3 and e.args[2] == T.K("data_transform")]
    ok1 = len(dts) == 1 and dts[0].args[0][0] == "f" and dts[0].args[0][1] == "method:pop" and dts[0].args[0][2][1] == T.K("data_transform") \
        and [(cc, pp) for cc, pp in dts[0].conds] == [(("is", dts[0].args[0], T.NONE), False)]
    ctx.decide(ok1, "C13.flow", f"{c.ident}", loc_of(sv, dts[0].node if dts else None), "save writes the data transform whenever the flow has one",
               "save does not write the flow's data transform exactly when it has one: the reloaded flow evaluates densities without (or with another) rescaling", disc="save|data_transform")
    cfgs = [e for e in mine if e.callee.endswith("recursively_save_to_h5_file") and not e.conds and len(e.args) >= 3 and e.args[1] == T.K("config")
            and has(e.args[2], lambda x: x[0] == "f" and x[1].endswith("config_dict"))]
    ctx.decide(len(cfgs) == 1, "C13.flow", f"{c.ident}", loc_of(sv), "save writes the flow's configuration", "save does not write the configuration returned by config_dict()", disc="save|config")
    wts = [e for e in mine if e.callee == "method:create_dataset" and has(dict(e.kwargs).get("data", T.NONE), lambda x: x[0] == "f" and x[1] == "elem")
           and has(dict(e.kwargs).get("data", T.NONE), lambda x: x == ("attr", SELF, "_flow"))]
    in_loop = [e for e in wts if any(lp["node"].lineno <= e.node.lineno <= lp["node"].end_lineno for lp in ev.loops)]
    ctx.decide(len(in_loop) == 1 and not in_loop[0].conds, "C13.flow", f"{c.ident}", loc_of(sv), "save writes one dataset per weight array of the wrapped flow",
               "save does not write every weight array of self._flow", disc="save|weights")
    # when the arrays are selected with a filter (equinox.partition), it must keep *every* array: integer leaves
    # (permutation indices that depend on the flow's key) are part of the map
    parts_ = [e for e in ev.events if e.func is sv and e.callee.endswith("partition") and len(e.args) >= 2]
    for i_, e in enumerate(parts_):
        ctx.decide(e.args[1] == ("ref", "equinox.is_array"), "C13.flow", f"{c.ident}", loc_of(sv, e.node), "the saved leaves are all arrays of the flow (filter is_array)",
                   f"the flow's arrays are selected for saving with {T.show(e.args[1])[:60]}: arrays it leaves out (e.g. integer permutations between layers) are not saved "
                   "and come from a freshly built template after load", disc=f"save|filter{i_}")
    ev2 = Evaluator(repo, max_depth=1, inline=helpers)
    ret = T.strip_raise(ev2.run(ld, c))
    mine = [e for e in ev2.events if e.func is ld or (e.func.cls is not None and helpers(e.func))]
    grp = None
    lds = [e for e in mine if e.callee.endswith("BaseTransform.load") and len(e.args) >= 2 and e.args[-1] == T.K("data_transform") or
           (e.callee.endswith("BaseTransform.load") and T.K("data_transform") in e.args)]
    sets = [e for e in mine if e.callee == "setitem" and e.args[1] == T.K("data_transform")]
    ok2 = False
    if len(lds) == 1:
        grp = [a for a in lds[0].args if a[0] == "s"][0] if any(a[0] == "s" for a in lds[0].args) else None
    if len(lds) == 1 and len(sets) == 1:
        want = [(("in", T.K("data_transform"), grp), True)]
        ok2 = grp is not None and list(lds[0].conds) == want and list(sets[0].conds) == want and sets[0].args[2] == lds[0].result \
            and has(sets[0].args[0], lambda x: x[0] == "f" and x[1].endswith("load_from_h5_file"))
    ctx.decide(ok2, "C13.flow", f"{c.ident}", loc_of(ld, lds[0].node if lds else None), "load re-attaches the stored data transform exactly when the file has one",
               "load does not put the stored data transform into the configuration exactly when the file has one", disc="load|data_transform")
    news = [e for e in mine if e.callee == f"new:{c.ident}"]
    ok3 = len(news) == 1 and not news[0].conds and not news[0].args and [k for k, _ in news[0].kwargs] == ["**"] \
        and has(dict(news[0].kwargs)["**"], lambda x: x[0] == "f" and x[1].endswith("load_from_h5_file")) and (not sets or has(dict(news[0].kwargs)["**"], lambda x: x == sets[0].result))
    ctx.decide(ok3, "C13.flow", f"{c.ident}", loc_of(ld, news[0].node if news else None), "load builds the object from the stored configuration (with the data transform attached)",
               "load does not construct the flow from the stored configuration", disc="load|construct")
    obj = news[0].result if news else None
    inst = False
    if obj is not None and grp is not None:
        from_file = lambda t: has(t, lambda x: x[0] == "s" and x[1] == grp and x[2][0] == "k")  # noqa: E731
        for e in mine:
            if e.callee == "method:load_state_dict" and e.args and e.args[0] == ("attr", obj, "_flow") and not e.conds and len(e.args) > 1 and from_file(e.args[1]):
                inst = True
        fv = ev2.heap.get((obj, "_flow"))
        if fv is not None and fv[0] != "phi" and from_file(fv):
            inst = True
    ctx.decide(inst and ret == obj, "C13.flow", f"{c.ident}", loc_of(ld), "load installs the stored weight arrays in the object it built and returns that object",
               "load does not install the arrays stored in the file in the object it returns: the reloaded flow has freshly initialised weights", disc="load|weights")


def array_shape_rule(ctx, repo):
    """Decoding a numeric array keeps it an array: only a 0-d array is collapsed to a
    scalar, only a string array is turned into a list."""
    dec = repo.func(f"{U}:decode_from_hdf5")
    W = T.atom(dec.params[0])
    ev = Evaluator(repo, max_depth=0, assume=_kind_oracle(dict(types={"ndarray"}), W), opaque_methods={"item", "tolist", "astype"})
    r = T.strip_raise(ev.run(dec))
    zero_d = [("cmp", "==", ("attr", W, "shape"), ("t", ())), ("cmp", "==", ("t", ()), ("attr", W, "shape"))]
    bad = []

    def is_zero_d(c):
        if c in zero_d:
            return True
        return c[0] == "cmp" and c[1] == "==" and len(c) == 3 and any(x == ("attr", W, "ndim") for x in T.subterms(c))

    def is_string_kind(c):
        return c[0] == "in" and c[1] == ("attr", ("attr", W, "dtype"), "kind")

    def walk(t, conds):
        if t[0] == "phi":
            walk(t[2], conds + [(t[1], True)])
            walk(t[3], conds + [(t[1], False)])
            return
        if t == W:
            return
        scalarised = any(x[0] == "f" and x[1] == "method:item" for x in T.subterms(t))
        listed = any(x[0] == "f" and x[1] == "method:tolist" for x in T.subterms(t))
        if scalarised and not any(pol and is_zero_d(c) for c, pol in conds):
            bad.append("an array is collapsed to a scalar under " + (" and ".join(("" if pol else "not ") + T.show(c)[:50] for c, pol in conds) or "no condition")
                       + ", not only when it is 0-d: a one-element array (a single sample, one parameter) reloads as a bare number")
        elif listed and not any(pol and is_string_kind(c) for c, pol in conds):
            bad.append("a non-string array is turned into a list")
        elif not scalarised and not listed:
            bad.append(f"an array decodes to {T.show(t)[:80]}")
    walk(r, [])
    ctx.decide(not bad, "C13.dispatch", dec.ident, loc_of(dec), "a stored array reloads as that array (0-d arrays as scalars, string arrays as lists of str)",
               bad[0] if bad else "", disc="dec|array shape")


# h5py: "Scalar datasets don't support chunk/filter options" -- create_dataset raises TypeError for 0-d data with any of these
H5_FILTER_OPTIONS = {"compression", "compression_opts", "shuffle", "fletcher32", "chunks", "scaleoffset", "maxshape"}


def dataset_options_rule(ctx, repo):
    """C13.dsopts: every `create_dataset(name, data=...)` of the package that stores *values* (not the fixed-shape checkpoint blob) either
    takes no chunk / filter option, or takes them only on a path that has looked at the dimensionality of the data.  Evidence scalars of
    torch / JAX sample sets are 0-d arrays; h5py rejects filter options for them with TypeError, which the generic writer catches and
    answers by storing str(value) -- the number comes back as text."""
    n_calls = 0
    for f in repo.all_functions():
        parents = None
        for n in walk_no_nested(f.node):
            if not (isinstance(n, ast.Call) and isinstance(n.func, ast.Attribute) and n.func.attr == "create_dataset"):
                continue
            if not any(k.arg == "data" for k in n.keywords) and len(n.args) < 3:
                continue  # created by shape (the checkpoint blob): no data whose rank could be 0
            n_calls += 1
            opts = {k.arg for k in n.keywords if k.arg in H5_FILTER_OPTIONS}
            guarded = True
            why = ""
            spreads = [k.value for k in n.keywords if k.arg is None]
            for sp in spreads:
                helper = None
                if isinstance(sp, ast.Call) and isinstance(sp.func, ast.Name):
                    tgt = repo.resolve_name(f.module, sp.func.id, repo.function_imports(f))
                    helper = tgt if hasattr(tgt, "node") and hasattr(tgt, "params") else None
                if helper is None:
                    if isinstance(sp, ast.Dict):
                        opts |= {k_.value for k_ in sp.keys if isinstance(k_, ast.Constant) and k_.value in H5_FILTER_OPTIONS}
                    continue
                hp = {ch: p_ for p_ in ast.walk(helper.node) for ch in ast.iter_child_nodes(p_)}
                for r in walk_no_nested(helper.node):
                    if not (isinstance(r, ast.Return) and isinstance(r.value, ast.Dict)):
                        continue
                    ks = {k_.value for k_ in r.value.keys if isinstance(k_, ast.Constant)} & H5_FILTER_OPTIONS
                    if not ks:
                        continue
                    tests, cur = [], r
                    while cur in hp:
                        cur = hp[cur]
                        if isinstance(cur, ast.If):
                            tests.append(cur.test)
                    looks = any(isinstance(x, ast.Attribute) and x.attr in ("ndim", "shape", "size") for t_ in tests for x in ast.walk(t_))
                    if not looks:
                        guarded = False
                        why = f"{helper.name}() returns {sorted(ks)} without looking at the rank of the data"
                    opts |= ks
            if opts and not spreads:
                if parents is None:
                    parents = {ch: p_ for p_ in ast.walk(f.node) for ch in ast.iter_child_nodes(p_)}
                tests, cur = [], n
                while cur in parents:
                    cur = parents[cur]
                    if isinstance(cur, ast.If):
                        tests.append(cur.test)
                guarded = any(isinstance(x, ast.Attribute) and x.attr in ("ndim", "shape", "size") for t_ in tests for x in ast.walk(t_))
                why = f"options {sorted(opts)} are passed whatever the rank of the data"
            ctx.decide(not opts or guarded, "C13.dsopts", f.ident, loc_of(f, n),
                       "values are stored without chunk / filter options (or only after their rank was inspected): 0-d entries are written as numbers",
                       f"create_dataset receives chunk / filter options for every numeric array, 0-d ones included ({why}): h5py raises TypeError for scalar data with such options, "
                       "and the writer's `except TypeError` fallback then stores str(value) -- an evidence value of a torch / JAX sample set reloads as a string", disc=f"L{n_calls}")
    ctx.floor("create_dataset(data=...) call sites", n_calls, 5)


def empty_sequence_rule(ctx, repo):
    """C13.codec (sequence clause): a list / tuple is written as a string array exactly when all of its items are strings -- the empty
    sequence included (all() is vacuously true).  That is what brings `[]` back as a list: the reader turns string arrays into lists and
    leaves numeric arrays alone, and h5py stores a plain `[]` as an empty float64 array."""
    enc = repo.func(f"{U}:encode_for_hdf5")
    par = {ch: p_ for p_ in ast.walk(enc.node) for ch in ast.iter_child_nodes(p_)}
    rets = [n for n in walk_no_nested(enc.node) if isinstance(n, ast.Return) and isinstance(n.value, ast.Call) and any(k.arg == "dtype" for k in n.value.keywords)
            and (getattr(n.value.func, "attr", None) or getattr(n.value.func, "id", None)) in ("array", "asarray")]
    if len(rets) != 1:
        ctx.unknown("C13.codec", enc.ident, loc_of(enc), f"expected one string-array encoding in encode_for_hdf5, found {len(rets)}", disc="sequence")
        return
    cur, test = rets[0], None
    while cur in par:
        prev, cur = cur, par[cur]
        if isinstance(cur, ast.If) and prev in cur.body:
            test = cur.test
            break

    def is_all_str(t):
        return isinstance(t, ast.Call) and isinstance(t.func, ast.Name) and t.func.id == "all" and t.args and isinstance(t.args[0], (ast.GeneratorExp, ast.ListComp)) \
            and any(isinstance(x, ast.Call) and getattr(x.func, "id", None) == "isinstance" for x in ast.walk(t.args[0]))
    ok = test is not None and (is_all_str(test) or (isinstance(test, ast.BoolOp) and isinstance(test.op, ast.Or) and any(is_all_str(v) for v in test.values)))
    ctx.decide(ok, "C13.codec", enc.ident, loc_of(enc, rets[0]), "a sequence is written as a string array iff all its items are strings (vacuously for the empty sequence)",
               f"the string-array encoding is guarded by `{ast.unparse(test)[:70] if test is not None else None}`: a sequence that satisfies all(...) vacuously -- the empty list -- no longer takes it, "
               "is stored by h5py as an empty float64 array, and reloads as an array instead of the empty list that was saved", disc="sequence")


def default_path_rule(ctx, repo):
    """C13.history (default-path clause): for every history class the writer and the reader it resolves to by MRO use the same default group
    name, so `h.save(f); type(h).load(f)` finds what was written."""
    n = 0
    for c in repo.modules["aspire.history"].classes.values():
        sv, ld = c.resolve("save"), c.resolve("load")
        if sv is None or ld is None:
            continue
        ds, dl = sv.param_defaults().get("path"), ld.param_defaults().get("path")
        vs = ds.value if isinstance(ds, ast.Constant) else None
        vl = dl.value if isinstance(dl, ast.Constant) else None
        n += 1
        ctx.decide(vs is not None and vs == vl, "C13.history", c.ident, loc_of(sv), f"{c.name}: save and load default to the same group ({vs!r})",
                   f"{c.name}.save writes to the default group {vs!r} ({sv.ident}) but {c.name}.load reads the default group {vl!r} ({ld.ident}): the default round trip "
                   "h.save(f); type(h).load(f) raises KeyError / loads another object's record", disc="default-path")
    ctx.floor("history classes with a save/load pair", n, 3)


def utf8_rule(ctx, repo):
    """C13.codec (utf-8 clause): the writer stores string sequences with h5py.string_dtype(encoding="utf-8"); h5py hands them back as an object array of UTF-8
    *bytes*.  Frozen API fact: ndarray.astype(str) decodes bytes as ASCII and raises UnicodeDecodeError for anything else -- a reader that converts the array
    with astype(str) alone (and falls back to the raw array on error) returns bytes for non-ASCII names, so parameter names such as "α" do not survive a reload."""
    try:
        dec = repo.func("aspire.utils:decode_from_hdf5")
    except Exception:  # noqa: BLE001
        dec = None
    if dec is None:
        ctx.unknown("C13.codec", "aspire.utils:decode_from_hdf5", "src/aspire/utils.py", "decoder not found", disc="utf-8")
        return
    branches = [n_ for n_ in walk_no_nested(dec.node) if isinstance(n_, ast.If) and any(isinstance(x_, ast.Attribute) and x_.attr == "kind" for x_ in ast.walk(n_.test))]
    if not branches:
        ctx.unknown("C13.codec", dec.ident, loc_of(dec), "the string-array branch of the decoder (a test of dtype.kind) was not found", disc="utf-8")
        return
    br = branches[0]
    explicit = any(isinstance(x_, ast.Call) and isinstance(x_.func, ast.Attribute) and x_.func.attr == "decode" and any(
        isinstance(a_, ast.Constant) and str(a_.value).lower().replace("-", "") == "utf8" for a_ in list(x_.args) + [k_.value for k_ in x_.keywords]) for b_ in br.body for x_ in ast.walk(b_))
    ctx.decide(explicit, "C13.codec", dec.ident, loc_of(dec, br), "string arrays read from the file are decoded as UTF-8, the encoding the writer uses",
               "the string-array branch converts with astype(str) only: h5py returns the stored strings as UTF-8 bytes and astype(str) decodes bytes as ASCII, so a sequence with a non-ASCII "
               "string (parameter names such as 'α') raises inside the branch, the fallback returns the raw bytes, and the reloaded object has other names than the saved one", disc="utf-8")


def optional_key_rule(ctx, repo):
    """C13.flow (optional-key clause): a loader does not *require* a stored option the constructor treats as optional.  A key that __init__ takes with
    `pop(k, default)` / `get(k)` may be absent from the saved constructor arguments; a loader that does `pop(k)` or `[k]` on them raises KeyError for every
    object that was built without it -- it saves, and cannot be loaded."""
    n = 0
    for mod_ in ("aspire.flows.torch.flows", "aspire.flows.jax.flows", "aspire.flows.base"):
        if mod_ not in repo.modules:
            continue
        for c in repo.modules[mod_].classes.values():
            ld = c.resolve("load")
            if ld is None:
                continue
            opt = {}
            for m in [x for k_ in c.mro() for x in k_.methods.values()]:
                for n_ in walk_no_nested(m.node):
                    if isinstance(n_, ast.Call) and isinstance(n_.func, ast.Attribute) and n_.func.attr in ("pop", "get") and n_.args and isinstance(n_.args[0], ast.Constant) \
                            and isinstance(n_.args[0].value, str) and (len(n_.args) > 1 or n_.func.attr == "get") and m.name == "__init__":
                        opt[n_.args[0].value] = (m, n_)
            req = []
            for n_ in walk_no_nested(ld.node):
                if isinstance(n_, ast.Call) and isinstance(n_.func, ast.Attribute) and n_.func.attr == "pop" and len(n_.args) == 1 and not n_.keywords \
                        and isinstance(n_.args[0], ast.Constant) and n_.args[0].value in opt:
                    req.append((n_, n_.args[0].value))
            n += 1
            ctx.decide(not req, "C13.flow", c.ident, loc_of(ld, req[0][0]) if req else loc_of(ld), f"{c.name}.load requires no stored option that the constructor treats as optional",
                       (f"{c.name}.load does `{ast.unparse(req[0][0])}` (no default) although __init__ takes `{req[0][1]}` as optional (line {opt[req[0][1]][1].lineno}): a flow built without it "
                        "is saved without it, and loading that file raises KeyError") if req else "", disc="optional-key")
    ctx.floor("flow classes with a loader (optional-key clause)", n, 2)


def saved_dtype_rule(ctx, repo):
    """C13.flow (dtype clause): the precision written with a flow is the precision the flow *has* (self.dtype), also when it was built with dtype=None:
    a None in the file is resolved by the loading process from its own default dtype, so the reloaded flow's precision is not a property of the file."""
    n = 0
    for mod_ in ("aspire.flows.torch.flows", "aspire.flows.jax.flows"):
        for c in repo.modules[mod_].classes.values():
            sv = c.methods.get("save")
            if sv is None or not sv.params:
                continue
            writes_dtype = any(isinstance(x, ast.Constant) and x.value == "dtype" for x in ast.walk(sv.node))
            if not writes_dtype:
                continue
            n += 1
            me = sv.params[0]
            own = any(isinstance(x, ast.Attribute) and x.attr == "dtype" and isinstance(x.value, ast.Name) and x.value.id == me for x in ast.walk(sv.node))
            ctx.decide(own, "C13.flow", sv.ident, loc_of(sv), f"{c.name}.save writes the flow's effective dtype",
                       f"{c.name}.save writes the configured dtype only (self.dtype is never consulted): a flow built with dtype=None stores None, and load() resolves that from the loading "
                       "process's default dtype -- weights are silently cast and a bounded data transform stored in the original precision no longer matches", disc=f"saved-dtype|{c.name}")
    ctx.floor("flow classes that store a dtype", n, 1)


def samples_layout_rule(ctx):
    """C13.samples: what the sample classes write is everything their constructor needs, in a layout that cannot lose a field.
    (a) _encode_for_hdf5 removes no constructor field from the dictionary it writes (fields that are init=False are rebuilt on construction and may go);
    (b) save() writes the nested layout unless asked otherwise: in the flat layout parameter columns and fields share one key space, so a parameter
        named like a field (a run with a parameter called `beta`) overwrites that field and the reloaded population has lost it."""
    repo = ctx.repo
    n_cls = 0
    for cname in ("BaseSamples", "Samples", "SMCSamples"):
        C = repo.cls(f"aspire.samples:{cname}")
        enc = C.resolve("_encode_for_hdf5")
        if enc is None:
            ctx.unknown("C13.samples", C.ident, "src/aspire/samples.py", "_encode_for_hdf5 not found", disc="removed")
            continue
        n_cls += 1
        init_names = {f.name for f in C.init_fields()}
        removed, unresolved = set(), []
        for n_ in walk_no_nested(enc.node):
            names = None
            if isinstance(n_, ast.Call) and isinstance(n_.func, ast.Attribute) and n_.func.attr == "pop" and n_.args:
                names = n_.args[0]
            elif isinstance(n_, ast.Delete) and n_.targets and isinstance(n_.targets[0], ast.Subscript):
                names = n_.targets[0].slice
            if names is None:
                continue
            if isinstance(names, ast.Constant):
                removed.add(names.value)
                continue
            # a loop variable over a tuple of names kept on the class
            src = None
            for l_ in walk_no_nested(enc.node):
                if isinstance(l_, ast.For) and isinstance(l_.target, ast.Name) and isinstance(names, ast.Name) and l_.target.id == names.id:
                    src = l_.iter
            vals = None
            if isinstance(src, (ast.Tuple, ast.List)):
                vals = src
            elif isinstance(src, ast.Attribute) and isinstance(src.value, ast.Name):
                vals = C.class_attr(src.attr)
            if isinstance(vals, (ast.Tuple, ast.List)) and all(isinstance(e_, ast.Constant) for e_ in vals.elts):
                removed |= {e_.value for e_ in vals.elts}
            else:
                unresolved.append(n_)
        if unresolved:
            ctx.unknown("C13.samples", C.ident, loc_of(enc, unresolved[0]), "the encoder removes entries whose names are not constants of the class: not decided", disc="removed")
            continue
        lost = sorted(removed & init_names)
        ctx.decide(not lost, "C13.samples", C.ident, loc_of(enc), f"the encoder of {cname} writes every constructor field (removed: {sorted(removed) or 'nothing'})",
                   f"the encoder of {cname} removes {lost} before writing: these are constructor fields, which from_dict hands back to the constructor -- a set that carries them without the "
                   "three densities they could be recomputed from (an SMC result: log_evidence without log_q) reloads with None", disc="removed")
    B = repo.cls("aspire.samples:BaseSamples")
    sv = B.resolve("save")
    a_ = sv.node.args
    pos = a_.posonlyargs + a_.args
    defaults = dict(zip([x.arg for x in pos][len(pos) - len(a_.defaults):], a_.defaults))
    fd = defaults.get("flat")
    ctx.decide(isinstance(fd, ast.Constant) and fd.value is False, "C13.samples", sv.ident, loc_of(sv), "save() writes the nested layout by default",
               f"save() defaults to flat={ast.unparse(fd) if fd is not None else '?'}: in the flat layout a parameter named like a field (`beta`) overwrites it, and SMCHistory.save(), which relies "
               "on the default, writes populations that reload without their temperature", disc="layout")
    ctx.count("sample_classes_checked_for_removed_fields", n_cls)


def run(ctx):
    samples_layout_rule(ctx)
    repo = ctx.repo
    um = repo.module(U)
    dataset_options_rule(ctx, repo)
    saved_dtype_rule(ctx, repo)
    optional_key_rule(ctx, repo)
    utf8_rule(ctx, repo)
    default_path_rule(ctx, repo)
    empty_sequence_rule(ctx, repo)
    # ---- what a file holds under /aspire_config is one configuration: the writer removes the group before it writes (the layout is flattened,
    #      so replacing key by key keeps every key only the older configuration had, and the reader rebuilds from the union)
    from ..report import reuse as _reuse
    from . import c14 as _c14
    _reuse(ctx, lambda c: _c14.run(c, shared=False), ("C14.config",), "C13file", "replace-don't-merge rule shared with C14: resume_from_file() rebuilds the instance from whatever "
           "keys the group holds", only=lambda f: f.key.endswith("| delete"))
    codec_dispatch(ctx, repo)
    array_shape_rule(ctx, repo)
    # the namespace name a configuration stores (xp.__name__) resolves back to the same array library
    from . import strdispatch
    rx = repo.func(f"{U}:resolve_xp")
    families = {"array_api_compat.numpy": "numpy", "jax.numpy": "jax", "array_api_compat.torch": "torch"}
    cdw = repo.cls("aspire.aspire:Aspire").methods.get("config_dict")
    writes_name = cdw is not None and any(isinstance(d, ast.Dict) and any(isinstance(k, ast.Constant) and k.value == "xp" and any(isinstance(x, ast.Attribute) and x.attr == "__name__" for x in ast.walk(v))
                                                                              for k, v in zip(d.keys, d.values)) for d in ast.walk(cdw.node))
    reads_name = any(isinstance(n, ast.Call) and isinstance(n.func, ast.Name) and n.func.id == "resolve_xp" for f_ in repo.cls("aspire.aspire:Aspire").methods.values() for n in ast.walk(f_.node))
    if not (writes_name and reads_name):
        ctx.unknown("C13.xpname", rx.ident, loc_of(rx), "the configuration no longer stores xp.__name__ / is no longer read through resolve_xp: the names to fold on are not known", disc="route")
        families = {}
    for stored, fam in families.items():
        try:
            got = strdispatch.fold(rx.node, stored)
        except strdispatch.Undecided as ex:
            ctx.unknown("C13.xpname", rx.ident, loc_of(rx), f"resolve_xp({stored!r}): {ex} is outside the folded subset", disc=fam)
            continue
        name = got.name if isinstance(got, strdispatch.Module) else None
        okx = name is not None and fam in name.split(".") and not (fam == "numpy" and "jax" in name.split("."))
        ctx.decide(okx, "C13.xpname", rx.ident, loc_of(rx), f"resolve_xp({stored!r}) is module {name}",
                   f"a configuration written under {fam} stores xp = {stored!r}, and resolve_xp maps that name to {name or got!r}: the instance rebuilt from the file "
                   f"works in another array namespace than the one that wrote it", disc=fam)
    ctx.decide(strdispatch.fold(rx.node, None) is None, "C13.xpname", rx.ident, loc_of(rx), "resolve_xp(None) is None", "a configuration without a namespace does not come back as None", disc="none")

    # every HDF5 writer of a sample set goes through to_numpy() first (found, not assumed): what that conversion drops is not saved
    enc_fns = [f for f in repo.all_functions() if f.ident.startswith(f"{SAMPLES_MOD}:") and f.name in ("_encode_for_hdf5", "save")
               and any(isinstance(n, ast.Call) and isinstance(n.func, ast.Attribute) and n.func.attr == "to_numpy" for n in walk_no_nested(f.node))]
    ctx.count("sample_writers_through_to_numpy", len(enc_fns))
    if enc_fns:
        from ..report import reuse as _reuse
        from . import c15 as _c15
        _reuse(ctx, _c15.run, ("C15.carry", "C15.xp", "C15.dtype"), "C13np", f"conversion rule shared with C15: {enc_fns[0].qualname if hasattr(enc_fns[0], 'qualname') else enc_fns[0].ident.split(':')[1]} "
               "writes self.to_numpy().to_dict(), so a field the NumPy conversion drops or alters is not in the file", only=lambda f: f.construct.endswith(".to_numpy"))

        # ... and that conversion describes the set as it is *now*: to_numpy() builds its result in the call (a memoised copy handed out again does not
        # know about a scalar field, a temperature or parameter names assigned since it was made -- the samplers fill sets after construction)
        for cn_ in CLASSES:
            C_ = repo.cls(f"{SAMPLES_MOD}:{cn_}")
            tn_ = C_.resolve("to_numpy")
            if tn_ is None:
                continue
            evn_ = Evaluator(repo, max_depth=3)
            rn_ = T.strip_raise(evn_.run(tn_, C_))
            built = {e_.result for e_ in evn_.events if e_.callee.startswith("new:")}
            leaves_ = list(T.phi_leaves(rn_))
            other_ = [l_ for l_ in leaves_ if l_ not in built and not (l_ and l_[0] == "obj")]
            # kept state: something read from the object (an attribute, an entry of its __dict__); an unresolved call is undecided, not a verdict
            stale_ = [l_ for l_ in other_ if l_[0] == "attr" or (l_[0] == "f" and l_[1] in ("method:get", "method:pop", "getattr", "builtins.getattr") and any(
                x_ == SELF or (x_ and x_[0] == "attr" and x_[1] == SELF) for x_ in T.subterms(l_)))]
            if other_ and not stale_:
                ctx.unknown("C13np.fresh", f"{C_.ident}.to_numpy", loc_of(tn_), f"{cn_}.to_numpy() returns {T.show(other_[0])[:80]}, which the analysis cannot resolve to a construction", disc=cn_)
                continue
            ctx.decide(not stale_, "C13np.fresh", f"{C_.ident}.to_numpy", loc_of(tn_), f"{cn_}.to_numpy() returns a set built in that call",
                       f"{cn_}.to_numpy() can return {T.show(stale_[0])[:80] if stale_ else ''}, an object that was not built in this call: a copy kept from an earlier conversion is written to the "
                       "file although log_evidence, beta or the parameter names were assigned since (the samplers set them after construction), so the saved object is not the object in memory",
                       disc=cn_)

    # (1) sentinels
    enc, dec = repo.func(f"{U}:encode_for_hdf5"), repo.func(f"{U}:decode_from_hdf5")
    emitted = {c for c in str_consts(enc.node) if c.startswith("__") and c.endswith("__")}
    decoded = {c for c in str_consts(dec.node) if c.startswith("__") and c.endswith("__")}
    es, ds = repo.func(f"{U}:encode_samples"), repo.func(f"{U}:decode_samples")
    emitted_all = emitted | {c for c in dict_keys_of(fold(repo, es, None)[1]) if c.startswith("__")}
    missing = sorted(c for c in emitted_all if c not in decoded and c not in str_consts(ds.node))
    ctx.decide(not missing and len(emitted_all) >= 3, "C13.sentinel", f"{enc.ident}/{dec.ident}", loc_of(dec),
               f"every sentinel the encoder emits {sorted(emitted_all)} is recognised by the decoder",
               f"sentinel(s) {missing} are written by the encoder but not recognised on load (they come back as literal strings)")
    # reachability of the empty-dict sentinel from the flattening writer
    rs = repo.func(f"{U}:recursively_save_to_h5_file")
    sf = next(iter(rs.nested.values()), None)
    ok, why = False, "flattening helper not found"
    if sf is not None:
        from .common import flat_conds
        evf = Evaluator(repo, max_depth=0)
        evf.run(sf, None)
        rec = [e for e in evf.events if e.func is sf and e.callee in (f"call:{sf.name}", sf.ident)]
        why = "the flattening helper does not recurse into nested dicts"
        for e in rec:
            fc = flat_conds(e.conds)
            isdict = [c for c, pol in fc if pol and c[0] == "f" and c[1] == "isinstance" and c[2][1] == ("ref", "builtins.dict")]
            if not isdict:
                continue
            val = isdict[0][2][0]
            nonempty = [c for c, pol in fc if (pol and c == val) or (c[0] == "f" and c[1] == "len" and c[2][0] == val) or (c[0] == "cmp" and any(x == val for x in T.subterms(c)))]
            ok = bool(nonempty)
            why = "a dict value is recursed into even when it is empty: nothing is written for it and the key vanishes on reload (the '__empty_dict__' sentinel is unreachable)"
    ctx.decide(ok, "C13.empty", rs.ident, loc_of(rs), "only non-empty dict values are flattened recursively; an empty dict reaches the encoder and is stored as its sentinel", why)
    # flattening separator
    sep_w = None
    for n in ast.walk(rs.node):
        if isinstance(n, ast.JoinedStr):
            consts = [v.value for v in n.values if isinstance(v, ast.Constant)]
            if len(consts) == 1:
                sep_w = consts[0]
    lf = repo.func(f"{U}:load_from_h5_file")
    sep_r = None
    bounded_split = None
    for n in ast.walk(lf.node):
        if isinstance(n, ast.Call) and isinstance(n.func, ast.Attribute) and n.func.attr in ("split", "rsplit", "partition", "rpartition") and n.args and isinstance(n.args[0], ast.Constant):
            sep_r = n.args[0].value
            # the writer flattens to any depth: the reader must split on every separator
            if n.func.attr != "split" or len(n.args) > 1 or any(k.arg == "maxsplit" for k in n.keywords):
                bounded_split = n
    ctx.decide(sep_w is not None and sep_w == sep_r, "C13.flatten", f"{rs.ident}/{lf.ident}", loc_of(lf),
               f"nested keys are joined with {sep_w!r} and split on {sep_r!r}", f"writer joins nested keys with {sep_w!r}, reader splits on {sep_r!r}")

    ctx.decide(bounded_split is None, "C13.flatten", lf.ident, loc_of(lf, bounded_split), "the reader splits a flattened key on every separator (the writer nests to any depth)",
               "the reader splits a flattened key only a bounded number of times: a dictionary nested deeper than that (e.g. a dict-valued flow option inside flow_kwargs) "
               "reloads flat with dotted keys", disc="depth")

    # the separator is not escaped: a key that contains it (a parameter called "m.1" in the nested samples layout, a prior_bounds key) is written as one flattened
    # key and split into two levels by the reader.  Accepted: the writer tests the key for the separator (raise) or rewrites it (replace / quote) before joining.
    guarded_sep = False
    for n in ast.walk(rs.node):
        if isinstance(n, ast.Compare) and any(isinstance(o_, (ast.In, ast.NotIn)) for o_ in n.ops) and isinstance(n.left, ast.Constant) and n.left.value == sep_w:
            guarded_sep = True
        if isinstance(n, ast.Call) and isinstance(n.func, ast.Attribute) and n.func.attr in ("replace", "quote", "translate") and any(
                isinstance(a_, ast.Constant) and a_.value == sep_w for a_ in n.args):
            guarded_sep = True
    ctx.decide(guarded_sep, "C13.flatten", rs.ident, loc_of(rs), f"a key that contains the separator {sep_w!r} is rejected or escaped before it is joined",
               f"nested keys are joined with {sep_w!r} as they are: a key that contains {sep_w!r} itself -- a parameter named 'm.1' in the nested samples layout, a prior_bounds entry -- is "
               "written as one flattened name and split into two levels on reload, so Samples.load raises KeyError and a configuration comes back with another nesting", disc="escape")

    # (2) samples codec, (3) dtype codec
    for wname, rname, arg in (("encode_samples", "decode_samples", "encoded_samples"), ("encode_dtype", "decode_dtype", "encoded_dtype")):
        w, r = repo.func(f"{U}:{wname}"), repo.func(f"{U}:{rname}")
        wk = dict_keys_of(fold(repo, w, None)[1])
        rk = subscript_keys(r, arg)
        ctx.decide(wk == rk and len(wk) == 3, "C13.codec", f"{w.ident}/{r.ident}", loc_of(r),
                   f"writer keys {sorted(wk)} == reader keys", f"writer emits {sorted(wk)}, reader consumes {sorted(rk)}")

    # (4) sample classes: dict schema, and the HDF5 encode/decode hooks
    for cn in CLASSES:
        C = repo.cls(f"{SAMPLES_MOD}:{cn}")
        td, fd = C.resolve("to_dict"), C.resolve("from_dict")
        em, consumed, filters = dict_schema(C, td, fd)
        accepted = {f.name for f in C.init_fields()} | consumed
        bad = sorted(k for k in em if k not in accepted) if not filters else []
        ctx.decide(not bad, "C13.dict", f"{cn}.save/load", loc_of(fd), f"{cn}: keys written by save are accepted by load",
                   f"{cn}.save writes {bad} which {cn}.load -> from_dict -> {cn}(...) rejects with TypeError", disc=cn)
        encm, decm = C.resolve("_encode_for_hdf5"), C.resolve("_decode_from_dictionary")
        ek = {n.slice.value for n in walk_no_nested(encm.node) if isinstance(n, ast.Subscript) and isinstance(n.ctx, ast.Store) and isinstance(n.slice, ast.Constant)}
        dk = {n.slice.value for n in walk_no_nested(decm.node) if isinstance(n, ast.Subscript) and isinstance(n.slice, ast.Constant) and isinstance(n.slice.value, str)}
        ctx.decide(ek == dk and ek == {"xp", "dtype"}, "C13.hooks", f"{cn}._encode_for_hdf5/_decode_from_dictionary", loc_of(decm),
                   "namespace and dtype are encoded on save and decoded on load", f"encode overrides {sorted(ek)}, decode restores {sorted(dk)}", disc=cn)

    from .c16 import dict_order
    dict_order(ctx, repo, "C13.dictorder")

    # (6) histories
    H = repo.cls("aspire.history:SMCHistory")
    sv, ld = H.resolve("save"), H.resolve("load")
    def templates(f):
        out = []
        for n in walk_no_nested(f.node):
            if isinstance(n, ast.JoinedStr):
                out.append(tuple(v.value if isinstance(v, ast.Constant) else "{" + ast.unparse(v.value) + "}" for v in n.values))
        return out
    tw, tr = templates(sv), templates(ld)
    ctx.decide(bool(tw) and sorted(tw) == sorted(tr), "C13.history", f"{sv.ident}/{ld.ident}", loc_of(ld),
               f"stored populations are written to and read from the same path template {tw}", f"writer template {tw} != reader template {tr}", disc="template")
    lw = {c for c in str_consts(sv.node) if c.startswith("__")}
    lr = {c for c in str_consts(ld.node) if c.startswith("__")}
    ctx.decide(bool(lw) and lw == lr, "C13.history", f"{sv.ident}/{ld.ident}", loc_of(ld), f"length key {sorted(lw)} agrees", f"writer length key {sorted(lw)} != reader {sorted(lr)}", disc="length")
    pops = {n.args[0].value for n in walk_no_nested(sv.node) if isinstance(n, ast.Call) and isinstance(n.func, ast.Attribute) and n.func.attr == "pop" and n.args and isinstance(n.args[0], ast.Constant)}
    sets_ = {n.slice.value for n in walk_no_nested(ld.node) if isinstance(n, ast.Subscript) and isinstance(n.ctx, ast.Store) and isinstance(n.slice, ast.Constant)}
    ctx.decide(pops == {"sample_history"} and "sample_history" in sets_, "C13.history", f"{sv.ident}/{ld.ident}", loc_of(ld),
               "the series saved apart (sample_history) is the one re-attached on load", f"saved apart: {sorted(pops)}, re-attached: {sorted(sets_)}", disc="series")
    # value-based: what the loader hands to the constructor (per concrete history class)
    for HC in [H] + [c for c in repo.subclasses(repo.cls("aspire.history:History"), strict=True) if c is not H]:
        ldc = HC.resolve("load")
        # a loader that only delegates to the one it extends (`return super().load(f, path=path)`) is folded through that call
        evh = Evaluator(repo, max_depth=1 if any(isinstance(n_, ast.Call) and isinstance(n_.func, ast.Attribute) and isinstance(n_.func.value, ast.Call)
                                                  and getattr(n_.func.value.func, "id", None) == "super" for n_ in walk_no_nested(ldc.node)) else 0)
        evh.run(ldc, HC)
        newh = [e for e in evh.events if e.callee == f"new:{HC.ident}"]
        okh, whyh = False, f"load does not construct exactly one {HC.name}"
        attach_needed = HC is H
        if len(newh) == 1:
            sp_ = dict(newh[0].kwargs).get("**")
            names = tuple(sorted((T.K(f.name) for f in HC.fields()), key=repr))
            whyh = f"the constructor receives {T.show(sp_)[:160] if sp_ else sorted(dict(newh[0].kwargs))}"
            if sp_ is not None and sp_[0] == "f" and sp_[1] == "dictcomp" and len(sp_[2]) == 2:
                body, gen = sp_[2]
                src, conds = gen[1][0], gen[1][1][1]
                el = ("f", "elem", (src,), ())
                k_, v_ = ("s", el, T.const(0)), ("s", el, T.const(1))
                loaded = [x for x in T.subterms(src) if x[0] == "f" and x[1].endswith("load_from_h5_file")]
                want_c = ("in", k_, ("f", "set", names, ()))
                attach = src[0] == "f" and src[1] == "method:items" and src[2][0][0] == "f" and src[2][0][1] == "setitem" and src[2][0][2][1] == T.K("sample_history")
                okh = body == ("t", (k_, v_)) and conds == (want_c,) and len(loaded) >= 1 and (attach or not attach_needed)
                if conds != (want_c,):
                    whyh = f"the loaded entries are filtered by {[T.show(c)[:100] for c in conds]}, not by membership in the {len(names)} dataclass fields: series are dropped or rejected"
        ctx.decide(okh, "C13.history", f"{HC.name}.load", loc_of(ldc, newh[0].node if newh else None),
                   "every stored entry that is a field of the history (all series, and the re-attached stored populations) is handed to the constructor unchanged",
                   whyh, disc=f"rebuild|{HC.name}")
    cls_calls = [n for n in walk_no_nested(ld.node) if isinstance(n, ast.Call) and isinstance(n.func, ast.Attribute) and n.func.attr == "load" and isinstance(n.func.value, ast.Name)]
    evsv = Evaluator(repo, max_depth=0)
    evsv.run(sv, H)
    saver = [e for e in evsv.events if e.func is sv and e.callee == "method:save" and e.args
             and any(x[0] == "f" and x[1] == "method:pop" and len(x[2]) >= 2 and x[2][1] == T.K("sample_history") for x in T.subterms(e.args[0]))]
    ctx.decide(bool(cls_calls) and cls_calls[0].func.value.id == "SMCSamples" and bool(saver), "C13.history", f"{sv.ident}/{ld.ident}", loc_of(ld),
               "stored populations are saved with samples.save and loaded with SMCSamples.load", "stored populations are not loaded with the class that saved them", disc="class")

    # (7) transforms
    TB = repo.cls("aspire.transforms:BaseTransform")
    n_t = 0
    for c in repo.subclasses(TB):
        init = c.resolve("__init__")
        cd = c.resolve("config_dict")
        if init is None or cd is None:
            continue
        save = c.resolve("save")
        if save is not None and any(isinstance(n, ast.Raise) for n in save.node.body):
            continue  # saving not supported for this class
        n_t += 1
        ev, ret = fold(repo, cd, c, max_depth=4)
        keys = dict_keys_of(ret)
        params = [p for p in init.params[1:]]
        required = [p for p in params if p not in init.param_defaults()]
        extra = sorted(k for k in keys if k not in params)
        lacking = sorted(p for p in params if p not in keys)
        ctx.decide(not extra and not lacking and keys, "C13.transform", f"{c.ident}", loc_of(cd),
                   f"config_dict keys {sorted(keys)} are exactly the constructor parameters",
                   (f"config_dict emits {extra} which {c.name}.__init__ does not accept; " if extra else "") +
                   (f"constructor parameter(s) {lacking} are not saved (reload uses the default or raises); " if lacking else "") + "load() -> cls(**config) does not rebuild the same transform", disc="config")
        ss, ls = c.resolve("_save_state"), c.resolve("_load_state")
        wn = {n.args[0].value for n in walk_no_nested(ss.node) if isinstance(n, ast.Call) and isinstance(n.func, ast.Attribute) and n.func.attr in ("create_dataset", "create_group") and n.args and isinstance(n.args[0], ast.Constant)}
        rn = {n.slice.value for n in walk_no_nested(ls.node) if isinstance(n, ast.Subscript) and isinstance(n.slice, ast.Constant) and isinstance(n.slice.value, str)}
        ctx.decide(wn == rn, "C13.transform", f"{c.ident}", loc_of(ls), f"fitted state datasets {sorted(wn)} written and read under the same names",
                   f"_save_state writes {sorted(wn)}, _load_state reads {sorted(rn)}", disc="state")
    ctx.floor("transform classes with save support", n_t, 7)
    bs, bl = TB.methods["save"], TB.methods["load"]
    aw = {n.slice.value for n in walk_no_nested(bs.node) if isinstance(n, ast.Subscript) and isinstance(n.ctx, ast.Store) and isinstance(n.value, ast.Attribute) and n.value.attr == "attrs"}
    ar = {n.slice.value for n in walk_no_nested(bl.node) if isinstance(n, ast.Subscript) and isinstance(n.ctx, ast.Load) and isinstance(n.value, ast.Attribute) and n.value.attr == "attrs"}
    gw = {n.args[1].value for n in walk_no_nested(bs.node) if isinstance(n, ast.Call) and isinstance(n.func, ast.Name) and n.func.id == "recursively_save_to_h5_file" and len(n.args) > 1 and isinstance(n.args[1], ast.Constant)}
    gr = {n.args[1].value for n in walk_no_nested(bl.node) if isinstance(n, ast.Call) and isinstance(n.func, ast.Name) and n.func.id == "load_from_h5_file" and len(n.args) > 1 and isinstance(n.args[1], ast.Constant)}
    ctx.decide(aw == ar == {"class"} and gw == gr and gw, "C13.transform", f"{bs.ident}/{bl.ident}", loc_of(bl),
               f"class attribute {sorted(aw)} and config group {sorted(gw)} agree between save and load",
               f"save writes attrs {sorted(aw)} / group {sorted(gw)}, load reads attrs {sorted(ar)} / group {sorted(gr)}", disc="base")

    # dataflow of the base save/load: fitted state goes into / comes out of the group that holds the config
    evs = Evaluator(repo, max_depth=0)
    evs.run(bs, TB)
    grp_w = [e.args[0] for e in evs.events if e.callee.endswith("recursively_save_to_h5_file") and e.func is bs]
    st_w = [e for e in evs.events if e.func is bs and e.callee.endswith("_save_state") and not e.conds]
    okw = len(grp_w) == 1 and len(st_w) == 1 and st_w[0].args[-1] == grp_w[0] and (SELF in st_w[0].args or st_w[0].receiver == SELF)
    ctx.decide(okw, "C13.transform", bs.ident, loc_of(bs), "save stores the fitted state (_save_state) in the group that holds the configuration",
               "save does not call _save_state on the group it wrote the configuration to: fitted means/scales are lost", disc="base|save-state")
    evl = Evaluator(repo, max_depth=0)
    rl = T.strip_raise(evl.run(bl, TB))
    grp_r = [e.args[0] for e in evl.events if e.callee.endswith("load_from_h5_file") and e.func is bl]
    objs = [e for e in evl.events if e.func is bl and (e.callee.startswith("new:") or e.callee.startswith("call:")) and [k for k, _ in e.kwargs] == ["**"]]
    st_r = [e for e in evl.events if e.func is bl and e.callee.endswith("_load_state") and not e.conds]
    okr = len(grp_r) == 1 and len(objs) == 1 and len(st_r) == 1 and st_r[0].args[-1] == grp_r[0] and objs[0].result in st_r[0].args and rl == objs[0].result
    ctx.decide(okr, "C13.transform", bl.ident, loc_of(bl), "load builds the transform from the stored configuration, restores its fitted state from the same group and returns it",
               "load does not restore the fitted state (_load_state) of the object it returns from the group it read the configuration from", disc="base|load-state")

    # (8) flows
    loads = {}
    for ident in ("aspire.flows.torch.flows:BaseTorchFlow", "aspire.flows.jax.flows:FlowJax"):
        c = repo.cls(ident)
        sv, ld = c.resolve("save"), c.resolve("load")
        def names(f, reader):
            out = set()
            for n in walk_no_nested(f.node):
                if isinstance(n, ast.Call):
                    fn = n.func
                    if isinstance(fn, ast.Attribute) and fn.attr in ("create_group", "require_group") and n.args and isinstance(n.args[0], ast.Constant):
                        out.add(n.args[0].value)
                    if isinstance(fn, ast.Name) and fn.id in ("recursively_save_to_h5_file", "load_from_h5_file") and len(n.args) > 1 and isinstance(n.args[1], ast.Constant):
                        out.add(n.args[1].value)
                    if isinstance(fn, ast.Attribute) and fn.attr in ("save", "load") and len(n.args) > 1 and isinstance(n.args[1], ast.Constant):
                        out.add(n.args[1].value)
                if reader and isinstance(n, ast.Subscript) and isinstance(n.slice, ast.Constant) and isinstance(n.slice.value, str) and isinstance(n.value, ast.Name) and "grp" in n.value.id:
                    out.add(n.slice.value)
            return out
        flow_dataflow(ctx, repo, c, sv, ld)
        wn, rn = names(sv, False), names(ld, True)
        ctx.decide(wn == rn and len(wn) >= 3, "C13.flow", f"{c.ident}", loc_of(ld), f"groups written {sorted(wn)} == groups read",
                   f"save writes groups {sorted(wn)}, load reads {sorted(rn)}", disc="groups")
        # save() (and the private helpers it calls) must not consume the instance's own stored configuration
        fns = [sv]
        for n in walk_no_nested(sv.node):
            if isinstance(n, ast.Call) and isinstance(n.func, ast.Attribute) and isinstance(n.func.value, ast.Name) and n.func.value.id == sv.params[0] \
                    and n.func.attr.startswith("_") and not n.func.attr.startswith("__"):
                h_ = c.resolve(n.func.attr)
                if h_ is not None and h_ not in fns:
                    fns.append(h_)
        MUT = ("pop", "popitem", "clear", "update", "setdefault")

        def _live(e):
            return any((isinstance(c_, ast.Call) and isinstance(c_.func, ast.Attribute) and c_.func.attr == "config_dict") or (isinstance(c_, ast.Attribute) and c_.attr == "_init_args") for c_ in ast.walk(e))

        def _copied(e):
            return (isinstance(e, ast.Call) and ((isinstance(e.func, ast.Attribute) and e.func.attr in ("copy", "deepcopy")) or (isinstance(e.func, ast.Name) and e.func.id in ("dict", "deepcopy")))) \
                or isinstance(e, (ast.Dict, ast.DictComp))
        okm = True
        cfg_assign = []
        for fn_ in fns:
            for a_ in walk_no_nested(fn_.node):
                if isinstance(a_, ast.Assign) and isinstance(a_.targets[0], ast.Name) and _live(a_.value):
                    cfg_assign.append(a_)
                    name = a_.targets[0].id
                    mutates = any((isinstance(n, ast.Call) and isinstance(n.func, ast.Attribute) and n.func.attr in MUT and isinstance(n.func.value, ast.Name) and n.func.value.id == name)
                                  or (isinstance(n, ast.Subscript) and isinstance(n.ctx, (ast.Store, ast.Del)) and isinstance(n.value, ast.Name) and n.value.id == name)
                                  for n in walk_no_nested(fn_.node) if getattr(n, "lineno", 0) >= a_.lineno and not any(n is x for x in ast.walk(a_)))
                    if mutates and not _copied(a_.value):
                        okm = False
                # the live record mutated without a name in between
                if isinstance(a_, ast.Call) and isinstance(a_.func, ast.Attribute) and a_.func.attr in MUT and _live(a_.func.value) and not _copied(a_.func.value):
                    cfg_assign.append(a_)
                    okm = False
        if not cfg_assign:
            ctx.unknown("C13.nomut", f"{c.ident}", loc_of(sv), "no use of config_dict() / _init_args found in save() or the private helpers it calls", disc="nomut")
            continue
        ctx.decide(okm and bool(cfg_assign), "C13.nomut", f"{c.ident}", loc_of(sv), "save() edits a copy of the configuration, not the instance's own record of its constructor arguments",
                   "save() pops / overwrites entries of the dict returned by config_dict(), which is the instance's own record of its constructor arguments: after one save the "
                   "instance has lost its data transform / dtype entry, so a second save (or a later config_dict()) writes a different object", disc="nomut")
        # re-splat of the captured **kwargs
        resplat = False
        popped = None
        for n in walk_no_nested(ld.node):
            if isinstance(n, ast.Assign) and isinstance(n.value, (ast.Call, ast.BoolOp)):
                call = n.value if isinstance(n.value, ast.Call) else n.value.values[0]
                if isinstance(call, ast.Call) and isinstance(call.func, ast.Attribute) and call.func.attr == "pop" and call.args and isinstance(call.args[0], ast.Constant) and call.args[0].value == "kwargs":
                    popped = n.targets[0].id if isinstance(n.targets[0], ast.Name) else None
        for n in walk_no_nested(ld.node):
            if popped and isinstance(n, ast.Call) and isinstance(n.func, ast.Attribute) and n.func.attr == "update" and n.args and isinstance(n.args[0], ast.Name) and n.args[0].id == popped:
                resplat = True
        loads[c.name] = resplat
        # does the constructor family capture **kwargs?
        captures = any(x.resolve("__init__") is not None and x.resolve("__init__").node.args.kwarg is not None for x in repo.subclasses(c))
        ctx.decide(resplat or not captures, "C13.flow", f"{c.ident}", loc_of(ld),
                   "options captured by **kwargs are re-splatted into the constructor call on load",
                   "the constructor captures extra options in **kwargs (saved under 'kwargs') but load passes that dict back as one keyword named kwargs: "
                   "a flow created with any extra option cannot be loaded", disc="kwargs")
    ctx.decide(len(set(loads.values())) == 1, "C13.flow", "flow load siblings", "src/aspire/flows", "both flow back-ends treat the captured **kwargs the same way on load",
               f"sibling load() implementations disagree on re-splatting the captured options: {loads}", disc="siblings")

    # (9) Aspire configuration
    A = repo.cls("aspire.aspire:Aspire")
    cd, init = A.methods["config_dict"], A.methods["__init__"]
    ev, ret = fold(repo, cd, A, max_depth=1)
    keys = set()
    for (o, a), v in list(ev.heap.items()):
        pass
    keys = dict_keys_of(ret)  # every key of the returned dict on any path (optional entries included)
    named = [p.arg for p in init.node.args.kwonlyargs + init.node.args.args if p.arg != "self"]
    not_saved = {"log_likelihood": "callable, re-supplied on resume", "log_prior": "callable, re-supplied on resume", "flow": "saved separately under /flow"}
    lacking = sorted(p for p in named if p not in keys and p not in not_saved)
    ctx.decide(not lacking, "C13.config", cd.ident, loc_of(cd), f"every stateful constructor parameter is part of the saved configuration ({len(keys)} keys)",
               f"constructor parameter(s) {lacking} are not saved: an instance rebuilt from the file silently uses the default")
    bld = A.methods["_build_aspire_from_file"]
    evb_ = Evaluator(repo, max_depth=0)
    evb_.run(bld, A)
    from_cfg = lambda t: any(x[0] == "f" and x[1].endswith("load_from_h5_file") for x in T.subterms(t))  # noqa: E731
    popped = {e.args[1][1] for e in evb_.events if e.func is bld and e.callee == "method:pop" and len(e.args) >= 2 and e.args[1][0] == "k" and from_cfg(e.args[0])}
    built = [e for e in evb_.events if e.func is bld and e.callee == f"new:{A.ident}"]
    passed_on = keys - popped
    stray = sorted(k for k in passed_on if k not in named)
    ctx.decide(not stray, "C13.config", bld.ident, loc_of(bld), "every configuration key handed to Aspire(**config) on rebuild is a named constructor parameter",
               f"configuration key(s) {stray} are not named parameters of Aspire.__init__ and are not removed before Aspire(**config): they are swallowed by **kwargs "
               "and become (nested) flow options of the rebuilt instance", disc="rebuild")
    # the options popped as 'flow_kwargs' reach the constructor call as a **-spread of their own
    def is_flow_pop(t):
        return any(x[0] == "f" and x[1] == "method:pop" and len(x[2]) >= 2 and x[2][1] == T.K("flow_kwargs") for x in T.subterms(t))
    def from_cfg_setitem(t):
        return t[0] == "f" and t[1] in ("setitem",) or t[0] == "phi"
    splat_flow = False
    for e in built:
        sp_ = dict(e.kwargs).get("**")
        spreads = list(sp_[1]) if sp_ is not None and sp_[0] == "t" else ([sp_] if sp_ is not None else [])
        # one of the spreads is the popped options themselves (not the remaining configuration they were popped from)
        if any(is_flow_pop(x) and not from_cfg_setitem(x) for x in spreads):
            splat_flow = True
        # ... and all of them: a comprehension over the saved options (a filter by constructor signature, by truthiness, ...) hands over a subset --
        # options the flow wrapper takes through **kwargs (hidden_features, transforms, ...) have no name in any signature
        filtered_ = [x for x in spreads if is_flow_pop(x) and x[0] == "f" and x[1] in ("dictcomp", "dict") and x[1] == "dictcomp"]
        ctx.decide(not filtered_, "C13.config", bld.ident, loc_of(bld, e.node), "the saved flow options are handed over as saved (no selection among them)",
                   "the saved flow options pass through a comprehension before they reach the rebuilt instance: whatever the selection keeps out (options the flow wrapper "
                   "accepts through **kwargs have no name in its signature) is missing from the rebuilt flow, which then is not the flow that was saved", disc="flow_kwargs|filtered")
    ctx.decide("flow_kwargs" not in popped or splat_flow, "C13.config", bld.ident, loc_of(bld), "the saved flow options are re-splatted as keyword arguments of the rebuilt instance",
               "the saved flow options are removed from the configuration but never handed to the rebuilt instance", disc="flow_kwargs")


_U = "src/aspire/utils.py"
_S = "src/aspire/samples.py"
_H = "src/aspire/history.py"
_T = "src/aspire/transforms.py"
_TF = "src/aspire/flows/torch/flows.py"
_A = "src/aspire/aspire.py"
MUTANTS = [
    M("namespace names matched by substring, numpy first", _U, "if name in {\"numpy\", \"numpy.ndarray\"}:", "if \"numpy\" in name:", "C13.xpname"),
    M("compat prefix no longer stripped", _U, "if name.startswith(\"array_api_compat.\"):\n        name = name.removeprefix(\"array_api_compat.\")\n", "", "C13.xpname"),
    M("torch resolved to the jax namespace", _U, "if name in {\"torch\"}:\n            import array_api_compat.torch as torch_xp\n\n            return torch_xp", "if name in {\"torch\"}:\n            import jax.numpy as torch_xp\n\n            return torch_xp", "C13.xpname"),
    M("a population at beta = 0 is converted for saving without its temperature", _S, "log_q=to_numpy(self.log_q) if self.log_q is not None else None,\n            beta=self.beta,", "log_q=to_numpy(self.log_q) if self.log_q is not None else None,\n            beta=float(self.beta) if self.beta else None,", "C13np"),
    M("torch save pops the data transform out of the live constructor arguments (a second save writes none)", _TF, "config = self.config_dict().copy()\n        data_transform = config.pop(\"data_transform\", None)\n        dtype_value = config.get(\"dtype\")", "config, data_transform = self._split_config()\n        dtype_value = config.get(\"dtype\")", "C13.nomut", within="BaseTorchFlow",
      more=[("def save(self, h5_file, path=\"flow\"):", "def _split_config(self):\n        config = self.config_dict()\n        data_transform = config.pop(\"data_transform\", None)\n        return dict(config), data_transform\n\n    def save(self, h5_file, path=\"flow\"):")]),
    M("torch save pops the data transform out of the live constructor arguments, inline", _TF, "config = self.config_dict().copy()\n        data_transform = config.pop(\"data_transform\", None)\n        dtype_value", "config = self.config_dict()\n        data_transform = config.pop(\"data_transform\", None)\n        config = dict(config)\n        dtype_value", "C13.nomut"),
    M("none sentinel renamed on the writer side", _U, "return \"__none__\"", "return \"__null__\"", "C13.sentinel"),
    M("empty dict recursed into", _U, "if isinstance(value, dict) and value:", "if isinstance(value, dict):", "C13.empty"),
    M("flatten separator changed", _U, "full_key = f\"{prefix}.{key}\" if prefix else key", "full_key = f\"{prefix}/{key}\" if prefix else key", "C13.flatten"),
    M("samples codec key renamed", _U, "\"samples_type\": type(samples).__name__,", "\"type\": type(samples).__name__,", "C13.codec"),
    M("dtype codec key renamed", _U, "\"dtype\": _dtype_to_name(dtype),", "\"name\": _dtype_to_name(dtype),", "C13.codec"),
    M("from_dict passes derived fields on", _S, "dictionary = {k: v for k, v in dictionary.items() if k in init_names}\n", "", "C13.dict"),
    M("history rebuilt from the non-field entries", _H, "k: v for k, v in dictionary.items() if k in field_names", "k: v for k, v in dictionary.items() if k not in field_names", "C13.history", within="SMCHistory.load"),
    M("history template differs", _H, "samples.save(h5_file, path=f\"{path}__sample_history/{i}\")", "samples.save(h5_file, path=f\"{path}/sample_history/{i}\")", "C13.history"),
    M("history length key differs", _H, "dictionary[\"__len_sample_history\"] = len(sample_history)", "dictionary[\"__n_sample_history\"] = len(sample_history)", "C13.history"),
    M("transform load skips the fitted state", _T, "obj = cls(**config)\n        obj._load_state(grp)\n        return obj", "obj = cls(**config)\n        return obj", "C13.transform"),
    M("transform save skips the fitted state", _T, "# store any fitted arrays\n        self._save_state(grp)", "# store any fitted arrays", "C13.transform"),
    M("composite config drops eps", _T, "\"eps\": self.eps,\n            \"device\": self.device,", "\"device\": self.device,", "C13.transform"),
    M("periodic config key not a parameter", _T, "\"lower\": self.lower.tolist(),\n            \"upper\": self.upper.tolist(),\n        }\n\n\nclass BoundedTransform", "\"lower\": self.lower.tolist(),\n            \"high\": self.upper.tolist(),\n        }\n\n\nclass BoundedTransform", "C13.transform"),
    M("affine state dataset renamed", _T, "h5_file.create_dataset(\"std\", data=self._std)", "h5_file.create_dataset(\"scale\", data=self._std)", "C13.transform"),
    M("flow transform keeps periodic key", _T, "cfg.pop(\n            \"periodic_parameters\", None\n        )  # Remove periodic_parameters from config", "pass", "C13.transform"),
    M("reader rebuilds only one nesting level", _U, "parts = key.split(\".\")", "parts = key.split(\".\", 1)", "C13.flatten"),
    M("jax flow saves only the floating-point leaves", "src/aspire/flows/jax/flows.py", "arrays, _ = eqx.partition(self._flow, eqx.is_array)", "arrays, _ = eqx.partition(self._flow, eqx.is_inexact_array)", "C13.flow",
      more=[("arrays_template, static = eqx.partition(flow_template, eqx.is_array)", "arrays_template, static = eqx.partition(flow_template, eqx.is_inexact_array)")]),
    M("torch load never installs the weights", _TF, "obj._flow.load_state_dict(weights)\n", "", "C13.flow"),
    M("torch save skips the data transform", _TF, "if data_transform is not None:\n            data_transform.save(flow_grp, \"data_transform\")", "if data_transform is None:\n            data_transform.save(flow_grp, \"data_transform\")", "C13.flow"),
    M("torch load ignores a stored data transform", _TF, "if \"data_transform\" in flow_grp:", "if \"data_transform\" not in flow_grp:", "C13.flow"),
    M("jax load keeps the template weights", "src/aspire/flows/jax/flows.py", "obj._flow = eqx.combine(static, arrays)", "obj._flow = eqx.combine(static, arrays_template)", "C13.flow"),
    M("jax save skips the data transform", "src/aspire/flows/jax/flows.py", "if data_transform is not None:\n            data_transform.save(grp, \"data_transform\")", "if data_transform is None:\n            data_transform.save(grp, \"data_transform\")", "C13.flow"),
    M("torch flow weights group renamed", _TF, "weights_grp = flow_grp.create_group(\"weights\")", "weights_grp = flow_grp.create_group(\"state\")", "C13.flow"),
    M("torch load passes kwargs as a keyword", _TF, "kwargs = config.pop(\"kwargs\", None) or {}\n        config.update(kwargs)\n", "", "C13.flow"),
    M("config lacks dtype", _A, "\"dtype\": _dtype_to_name(self.dtype),\n", "", "C13.config"),
    M("flow options nest on rebuild", _A, "flow_kwargs = config_dict.pop(\"flow_kwargs\", None) or {}\n        config_dict = {**flow_kwargs, **config_dict}\n", "", "C13.config"),
    M("config gains a key that is not a parameter", _A, "\"eps\": self.eps,\n            \"dtype\"", "\"eps\": self.eps,\n            \"n_dims\": self.dims,\n            \"dtype\"", "C13.config"),
]
MUTANTS += [
    M("encoder: None test inverted", _U, "if value is None:\n        return \"__none__\"", "if value is not None:\n        return \"__none__\"", "C13.dispatch"),
    M("encoder: sample sets returned raw", _U, "if isinstance(value, BaseSamples):\n        value = encode_samples(value)", "if not isinstance(value, BaseSamples):\n        value = encode_samples(value)", "C13.dispatch"),
    M("encoder: empty test inverted", _U, "if not value:\n            return \"__empty_dict__\"", "if value:\n            return \"__empty_dict__\"", "C13.dispatch"),
    M("encoder: nested values not encoded", _U, "return {k: encode_for_hdf5(v) for k, v in value.items()}", "return {k: v for k, v in value.items()}", "C13.dispatch"),
    M("decoder: one-element arrays become scalars", _U, "if value.shape == ():\n            return value.item()", "if value.size == 1:\n            return value.item()", "C13.dispatch"),
    M("decoder: sentinels swapped", _U, "if value == \"__none__\":\n            return None\n        if value == \"__empty_dict__\":\n            return {}", "if value == \"__none__\":\n            return {}\n        if value == \"__empty_dict__\":\n            return None", "C13.dispatch"),
    M("decoder: bytes not decoded", _U, "if isinstance(value, bytes):  # HDF5 may store strings as bytes\n        value = value.decode(\"utf-8\")", "if isinstance(value, str):\n        value = value.decode(\"utf-8\")", "C13.dispatch"),
    M("decoder: sample sets not rebuilt", _U, "if \"__samples__\" in value:\n            return decode_samples(value)", "if \"__samples__\" not in value:\n            return decode_samples(value)", "C13.dispatch"),

    M("torch save consumes the stored constructor arguments", _TF, "config = self.config_dict().copy()\n        data_transform = config.pop(\"data_transform\", None)", "config = self.config_dict()\n        data_transform = config.pop(\"data_transform\", None)", "C13.nomut"),
    M("from_dict stacks columns in mapping order", _S, "x = np.stack([samples[p] for p in parameters], axis=-1)", "x = np.stack(list(samples.values()), axis=-1)", "C13.dictorder"),
]
MUTANTS += [
    M("configuration rewritten over the old group instead of replacing it", "src/aspire/aspire.py", "if checkpoint_save_config:\n                    if \"aspire_config\" in h5_file:\n                        del h5_file[\"aspire_config\"]\n                    self.save_config(",
      "if checkpoint_save_config:\n                    self.save_config(", "C13file.config"),
]
MUTANTS += [
    M("numeric datasets written gzip-compressed whatever their rank", "src/aspire/utils.py", "g.create_dataset(full_key, data=encode_for_hdf5(value))", "g.create_dataset(full_key, data=encode_for_hdf5(value), compression=\"gzip\")", "C13.dsopts"),
]
MUTANTS += [
    M("only a non-empty sequence of strings is written as a string array", "src/aspire/utils.py", "if all(isinstance(v, str) for v in value):", "if value and all(isinstance(v, str) for v in value):", "C13.codec"),
]
MUTANTS += [
    M("only the saved flow options named in a signature are handed to the rebuilt instance", _A, "config_dict = {**flow_kwargs, **config_dict}", "flow_kwargs = {k: v for k, v in flow_kwargs.items() if k in signature(cls.__init__).parameters}\n        config_dict = {**flow_kwargs, **config_dict}", "C13.config"),
]
MUTANTS += [
    M("the NumPy copy used for saving is memoised on the set", _S, "def to_numpy(self, dtype: Any | str | None = None):", "def to_numpy(self, dtype: Any | str | None = None):\n        if self.__dict__.get(\"_np\") is not None:\n            return self.__dict__.get(\"_np\")", "C13np.fresh"),
]
MUTANTS += [
    M("torch flow stores the configured dtype only", _TF, "if dtype_value is None:\n            dtype_value = self.dtype\n        else:\n            dtype_value = resolve_dtype(dtype_value, torch)", "dtype_value = resolve_dtype(dtype_value, torch)", "C13.flow"),
]
MUTANTS += [
    M("encoder drops the evidence fields before writing", "src/aspire/samples.py", "dictionary[\"xp\"] = self.xp.__name__\n        return dictionary", "dictionary[\"xp\"] = self.xp.__name__\n        for name in (\"log_w\", \"log_evidence\"):\n            dictionary.pop(name, None)\n        return dictionary", "C13.samples"),
    M("save() defaults to the flat layout", "src/aspire/samples.py", "def save(self, h5_file, path=\"samples\", flat=False):", "def save(self, h5_file, path=\"samples\", flat=True):", "C13.samples"),
]

MUTANTS += [
    M("jax loader requires the optional device argument", "src/aspire/flows/jax/flows.py", "kwargs.pop(\"device\", None)\n        flow_template", "kwargs.pop(\"device\")\n        flow_template", "C13.flow"),
]

MUTANTS += [
    M("decoder converts string arrays with astype(str) only (ASCII)", _U, "decoded = np.array(\n                    [\n                        v.decode(\"utf-8\") if isinstance(v, bytes) else v\n                        for v in value.ravel().tolist()\n                    ],\n                    dtype=object,\n                ).reshape(value.shape)\n                return decoded.astype(str).tolist()", "return value.astype(str).tolist()", "C13.codec"),
]

NEUTRALS = [
    M("writer rejects keys that contain the flattening separator (repairs the escape finding)", _U, "full_key = f\"{prefix}.{key}\" if prefix else key", "if \".\" in key:\n                raise ValueError(f\"key {key!r} contains the separator\")\n            full_key = f\"{prefix}.{key}\" if prefix else key"),
    M("encoder drops the per-sample weights, which are rebuilt on construction", "src/aspire/samples.py", "dictionary[\"xp\"] = self.xp.__name__\n        return dictionary", "dictionary[\"xp\"] = self.xp.__name__\n        for name in (\"log_w\", \"weights\"):\n            dictionary.pop(name, None)\n        return dictionary"),
    M("arrays with at least one axis written gzip-compressed", "src/aspire/utils.py", "g.create_dataset(full_key, data=encode_for_hdf5(value))",
      "data = encode_for_hdf5(value)\n                    if getattr(data, \"ndim\", 0) > 0 and data.size > 0:\n                        g.create_dataset(full_key, data=data, compression=\"gzip\")\n                    else:\n                        g.create_dataset(full_key, data=data)"),
    M("namespace names matched by substring, jax first", _U, "if name in {\"numpy\", \"numpy.ndarray\"}:\n            import array_api_compat.numpy as np_xp\n\n            return np_xp\n        if name in {\"jax\", \"jax.numpy\"}:\n            import jax.numpy as jnp\n\n            return jnp",
      "if \"jax\" in name:\n            import jax.numpy as jnp\n\n            return jnp\n        if \"numpy\" in name:\n            import array_api_compat.numpy as np_xp\n\n            return np_xp"),
    M("torch save splits the configuration in a helper that copies first", _TF, "config = self.config_dict().copy()\n        data_transform = config.pop(\"data_transform\", None)\n        dtype_value = config.get(\"dtype\")", "config, data_transform = self._split_config()\n        dtype_value = config.get(\"dtype\")", within="BaseTorchFlow",
      more=[("def save(self, h5_file, path=\"flow\"):", "def _split_config(self):\n        config = dict(self.config_dict())\n        data_transform = config.pop(\"data_transform\", None)\n        return config, data_transform\n\n    def save(self, h5_file, path=\"flow\"):")]),
    M("decoder: 0-d test by ndim", _U, "if value.shape == ():\n            return value.item()", "if value.ndim == 0:\n            return value.item()"),
    M("encoder: None tested first", _U, "if is_jax_array(value) or is_torch_array(value):\n        return to_numpy(value)", "if value is None:\n        return \"__none__\"\n    if is_jax_array(value) or is_torch_array(value):\n        return to_numpy(value)"),
    M("decoder: sentinel tests reordered", _U, "if value == \"__none__\":\n            return None\n        if value == \"__empty_dict__\":\n            return {}", "if value == \"__empty_dict__\":\n            return {}\n        if value == \"__none__\":\n            return None"),

    M("config keys reordered", _A, "\"eps\": self.eps,\n            \"dtype\": _dtype_to_name(self.dtype),", "\"dtype\": _dtype_to_name(self.dtype),\n            \"eps\": self.eps,"),
    M("empty-dict guard via len", _U, "if isinstance(value, dict) and value:", "if isinstance(value, dict) and len(value) > 0:"),
]

# functions the property is anchored in (auto-mutant sweep of the thorough tier)
ANCHORS = [
    'aspire.utils:encode_for_hdf5',
    'aspire.utils:decode_from_hdf5',
    'aspire.utils:encode_samples',
    'aspire.utils:decode_samples',
    'aspire.utils:encode_dtype',
    'aspire.utils:decode_dtype',
    'aspire.utils:recursively_save_to_h5_file',
    'aspire.utils:load_from_h5_file',
    'aspire.samples:BaseSamples.to_dict',
    'aspire.samples:BaseSamples.from_dict',
    'aspire.history:SMCHistory.save',
    'aspire.history:SMCHistory.load',
    'aspire.transforms:BaseTransform.save',
    'aspire.transforms:BaseTransform.load',
    'aspire.transforms:CompositeTransform.config_dict',
    'aspire.transforms:AffineTransform._save_state',
    'aspire.transforms:AffineTransform._load_state',
    'aspire.flows.torch.flows:BaseTorchFlow.save',
    'aspire.flows.torch.flows:BaseTorchFlow.load',
    'aspire.flows.jax.flows:FlowJax.save',
    'aspire.flows.jax.flows:FlowJax.load',
    'aspire.aspire:Aspire.config_dict',
    'aspire.aspire:Aspire._build_aspire_from_file',
]
