"""C11 -- resuming from any checkpoint reproduces the uninterrupted run."""

from __future__ import annotations

import ast

from .. import AnalysisError
from .. import terms as T
from ..cfg import CFG, calls_in
from ..evalr import Evaluator, mod_summary
from ..model import walk_no_nested
from ..mutants import M
from .common import SELF, fold, loc_of, self_attr
from .smcloop import SMC, find_smc_loop, fold_sample, history_appends, roles

META = {
    "explanation": (
        "Loop-carried state is computed, not listed: locals that are read before being written in the SMC loop body and "
        "re-assigned in it, plus self attributes written in functions reachable from the loop body through self calls (per "
        "concrete sampler class), random sources held on self, and the history object. Every such item must be part of the "
        "checkpoint payload (argument of build_checkpoint_state reaching a payload key, or read by the class's "
        "_checkpoint_extra_state) and restored (on the resumed path the pre-loop value of the local depends on the restore "
        "call; the attribute is written by restore_from_checkpoint / _restore_extra_state). Keys read by the restore side "
        "must exist in the payload. Between restore and loop entry the resumed path performs no mutation of restored state; "
        "the checkpoint call comes after every loop-carried write of its iteration; restore_from_checkpoint dispatches "
        "str/bytes/dict and raises otherwise; resume_from_file primes the instance with the bytes it read and "
        "sample_posterior forwards them as resume_from."
    ),
    "not_decided": "bit-identical equality; internals of third-party kernels and generators (orng.ArrayRNG exposing bit_generator is assumed)",
    "assumptions": ["the same sampling arguments and user callables are supplied on resume"],
}

# self attributes written in the loop that are deliberately not part of a checkpoint
EXEMPT_ATTRS = {
    "n_likelihood_evaluations": "per-process evaluation counter, not one of the run results named by C11",
    "_last_checkpoint_state": "the checkpoint itself",
    "_last_checkpoint_bytes": "the checkpoint itself",
    "sampler": "handle on the third-party kernel object, rebuilt by every mutate()",
}
RANDOM_ATTRS = {"rng", "key", "random_state", "rng_key"}


def upward_exposed(stmts):
    """Names read before being (definitely) written in a statement list.  A
    definition made inside a branch / loop body / try block counts for the rest
    of that block only."""
    exposed = set()

    def expr_uses(e, defined):
        for n in ast.walk(e):
            if isinstance(n, ast.Name) and isinstance(n.ctx, ast.Load) and n.id not in defined:
                exposed.add(n.id)

    def visit(stmts, defined):
        for s in stmts:
            if isinstance(s, (ast.FunctionDef, ast.ClassDef)):
                continue
            if isinstance(s, ast.Assign):
                expr_uses(s.value, defined)
                for t in s.targets:
                    for n in ast.walk(t):
                        if isinstance(n, ast.Name) and isinstance(n.ctx, ast.Store):
                            defined.add(n.id)
                        elif isinstance(n, ast.Name) and isinstance(n.ctx, ast.Load):
                            expr_uses(n, defined)
            elif isinstance(s, ast.AugAssign):
                expr_uses(s.value, defined)
                if isinstance(s.target, ast.Name):
                    if s.target.id not in defined:
                        exposed.add(s.target.id)
                else:
                    expr_uses(s.target, defined)
            elif isinstance(s, ast.If):
                expr_uses(s.test, defined)
                d1, d2 = set(defined), set(defined)
                visit(s.body, d1)
                visit(s.orelse, d2)
                defined |= (d1 & d2)  # defined on both branches: defined afterwards
            elif isinstance(s, (ast.While, ast.For)):
                expr_uses(s.test if isinstance(s, ast.While) else s.iter, defined)
                inner = set(defined)
                if isinstance(s, ast.For):
                    inner |= {n.id for n in ast.walk(s.target) if isinstance(n, ast.Name)}
                visit(s.body, inner)
            elif isinstance(s, ast.With):
                for i in s.items:
                    expr_uses(i.context_expr, defined)
                    if i.optional_vars is not None:
                        defined |= {n.id for n in ast.walk(i.optional_vars) if isinstance(n, ast.Name)}
                visit(s.body, defined)
            elif isinstance(s, ast.Try):
                visit(s.body, set(defined))
                for h in s.handlers:
                    visit(h.body, set(defined) | ({h.name} if h.name else set()))
                visit(s.finalbody, defined)
            else:
                for e in ast.iter_child_nodes(s):
                    if isinstance(e, ast.expr):
                        expr_uses(e, defined)
    visit(stmts, set())
    return exposed


def attr_exposed(repo, stmts, me, cls, written=None, depth=0, seen=None):
    """Attributes of self that a statement sequence may read (or mutate through a
    method / sub-attribute) before *any* store to them in execution order, following
    self-calls.  A conditional store counts as a store (path-insensitive, chosen so
    that scratch attributes written and read under the same flag are not reported)."""
    written = set() if written is None else written
    seen = seen or set()
    exposed = set()

    def load(attr):
        if attr not in written:
            exposed.add(attr)

    def expr(e):
        # evaluation order approximated by a pre-order walk; self-calls are followed first-come
        for n in ast.walk(e):
            if isinstance(n, ast.Call) and isinstance(n.func, ast.Attribute) and isinstance(n.func.value, ast.Name) and n.func.value.id == me \
                    and cls is not None and depth < 4:
                m = cls.resolve(n.func.attr)
                if m is not None and m.ident not in seen and m.params:
                    ex2, wr2 = attr_exposed(repo, m.node.body, m.params[0], cls, set(written), depth + 1, seen | {m.ident})
                    exposed.update(a for a in ex2 if a not in written)
                    written.update(wr2)
                    continue
            if isinstance(n, ast.Attribute) and isinstance(n.ctx, ast.Load) and isinstance(n.value, ast.Name) and n.value.id == me:
                load(n.attr)

    def stores(t):
        for n in ast.walk(t):
            if isinstance(n, ast.Attribute) and isinstance(n.ctx, ast.Store) and isinstance(n.value, ast.Name) and n.value.id == me:
                written.add(n.attr)
            elif isinstance(n, ast.Attribute) and isinstance(n.ctx, ast.Load) and isinstance(n.value, ast.Name) and n.value.id == me:
                load(n.attr)  # self.a.b = ... / self.a[i] = ...: reads self.a

    def visit(block):
        for st in block:
            if isinstance(st, (ast.FunctionDef, ast.ClassDef)):
                continue
            if isinstance(st, ast.Assign):
                expr(st.value)
                for t in st.targets:
                    stores(t)
            elif isinstance(st, ast.AugAssign):
                expr(st.value)
                if isinstance(st.target, ast.Attribute) and isinstance(st.target.value, ast.Name) and st.target.value.id == me:
                    load(st.target.attr)
                    written.add(st.target.attr)
                else:
                    stores(st.target)
            elif isinstance(st, ast.AnnAssign):
                if st.value is not None:
                    expr(st.value)
                stores(st.target)
            elif isinstance(st, ast.If):
                expr(st.test)
                visit(st.body)
                visit(st.orelse)
            elif isinstance(st, (ast.While, ast.For)):
                expr(st.test if isinstance(st, ast.While) else st.iter)
                visit(st.body)
                visit(st.orelse)
            elif isinstance(st, ast.With):
                for it in st.items:
                    expr(it.context_expr)
                visit(st.body)
            elif isinstance(st, ast.Try):
                visit(st.body)
                for h in st.handlers:
                    visit(h.body)
                visit(st.orelse)
                visit(st.finalbody)
            else:
                for ch in ast.iter_child_nodes(st):
                    if isinstance(ch, ast.expr):
                        expr(ch)
    visit(stmts)
    return exposed, written


def nested_free_reads(fn_node):
    """Free variable reads of nested functions called in a loop (closures)."""
    out = set()
    local = {a.arg for a in fn_node.args.args + fn_node.args.kwonlyargs}
    for n in ast.walk(fn_node):
        if isinstance(n, ast.Name) and isinstance(n.ctx, ast.Store):
            local.add(n.id)
    for n in ast.walk(fn_node):
        if isinstance(n, ast.Name) and isinstance(n.ctx, ast.Load) and n.id not in local:
            out.add(n.id)
    return out


def run(ctx):
    repo = ctx.repo
    smc = repo.cls(SMC)
    base = repo.cls("aspire.samplers.base:Sampler")
    sample = smc.methods["sample"]
    loop_node = find_smc_loop(sample)
    if loop_node is None:
        ctx.unknown("C11.state", sample.ident, loc_of(sample), "SMC loop not found")
        return
    assigned = {n.id for x in ast.walk(loop_node) for n in ast.walk(x) if isinstance(n, ast.Name) and isinstance(n.ctx, ast.Store)}
    exposed = upward_exposed(loop_node.body)
    # closures called in the loop read their free variables at call time
    for n in walk_no_nested(sample.node):
        if isinstance(n, ast.FunctionDef):
            exposed |= nested_free_reads(n) & assigned
    sf_fresh = fold_sample(repo, resumed=False, final=False)
    lp = sf_fresh.loop
    carried = sorted(n for n in (exposed & assigned) if lp is not None and n in lp["head"] and lp["body"].get(n) != lp["head"][n])
    ctx.count("loop_carried_locals", len(carried))
    ctx.floor("loop-carried locals", len(carried), 4)

    # ---- payload: the build_checkpoint_state call inside the checkpoint closure
    calls = [c for n in ast.walk(sample.node) for c in ([n] if isinstance(n, ast.Call) else [])
             if isinstance(c.func, ast.Attribute) and c.func.attr == "build_checkpoint_state"]
    if len(calls) > 1:
        # several payload builders: the one handed the loop-carried locals themselves is the regular checkpoint; any other one is handed values
        # saved at some earlier point, while the payload's history is always a copy of the *live* history at the time of the call
        R0 = roles(repo)
        want_names = {R0.samples, R0.iterations, R0.beta, R0.min_step}
        main = [c for c in calls if {a.id for a in list(c.args) + [k.value for k in c.keywords] if isinstance(a, ast.Name)} >= want_names]
        for c in calls:
            if c in main[:1]:
                continue
            ctx.refute("C11.state", sample.ident, loc_of(sample, c),
                       "a second checkpoint payload is built from values other than the loop's current population / iteration / temperature / minimum step "
                       f"({', '.join(ast.unparse(a)[:20] for a in c.args)}), but build_checkpoint_state copies the sampler's live history: taken part-way through an iteration, the payload says "
                       "iteration k while its series already hold the entries of iteration k+1, and a run resumed from it records them a second time", disc="extra-payload")
        calls = main[:1]
    if len(calls) != 1:
        ctx.unknown("C11.state", sample.ident, loc_of(sample), f"expected one build_checkpoint_state call, found {len(calls)}")
        return
    call = calls[0]
    bcs = smc.resolve("build_checkpoint_state")
    pnames = bcs.params[1:]
    passed = {}
    for p, a in zip(pnames, call.args):
        passed[p] = a.id if isinstance(a, ast.Name) else None
    for kw in call.keywords:
        passed[kw.arg] = kw.value.id if isinstance(kw.value, ast.Name) else None
    # payload keys reached by each parameter
    ev, ret = fold(repo, bcs, smc, max_depth=3, no_inline={"aspire.samplers.base:Sampler.config_dict"})
    payload = _dict_keys(ev, ret)
    ctx.count("payload_keys", len(payload))
    # the history stored in the payload is the copy as taken: the payload builder removes / adds nothing afterwards (a "store it once" trim of
    # the copy decides by counting entries which population the newest one is -- after the final enlargement it is not the one being checkpointed)
    trims = [e_ for e_ in ev.events if e_.callee.startswith("method:") and e_.callee[7:] in ("append", "extend", "insert", "pop", "clear", "remove", "sort", "reverse") and e_.args
             and any(x_ and x_[0] == "f" and (x_[1].endswith("deepcopy") or "_checkpoint_extra_state" in x_[1] or (x_[1] == "method:get" and len(x_[2]) > 1 and x_[2][1] == T.K("history"))) for x_ in T.subterms(e_.args[0]))]
    ctx.decide(not trims, "C11.snapshot", bcs.ident, loc_of(bcs, trims[0].node if trims else None),
               "the payload builder does not modify the history copy it stores",
               (f"the payload builder applies {trims[0].callee[7:]}() to the history copy it is about to store ({T.show(trims[0].args[0])[-60:]}): the checkpoint's record is no longer the run's record at "
                "that point, and what the restore puts back in its place need not be the entry that was removed") if trims else "", disc="copy-modified")
    sf_res = fold_sample(repo, resumed=True, final=False)
    lpr = sf_res.loop
    # locals are handed to the parameter of the same meaning (a swap pickles the wrong thing under the key)
    R = roles(repo)
    expect = {"samples": R.samples, "iteration": R.iterations, "beta": R.beta, "min_step": R.min_step}
    wrong = {p_: a_ for p_, a_ in passed.items() if p_ in expect and a_ != expect[p_]}
    ctx.decide(not wrong, "C11.state", sample.ident, loc_of(sample, call), "each loop-carried local is passed to the payload parameter of the same meaning",
               f"build_checkpoint_state receives {wrong}: the payload stores a loop variable under another variable's key", disc="correspondence")
    for v in carried:
        params = [p for p, a in passed.items() if a == v]
        in_payload = bool(params) and any(T.atom(p) in set(T.subterms(val)) for p in params for val in payload.values())
        if not in_payload:
            ctx.refute("C11.state", sample.ident, loc_of(sample, call),
                       f"loop-carried local '{v}' changes every iteration but is not part of the checkpoint payload: a resumed run restarts it from its initial value", disc=v)
            continue
        pre = lpr["pre"].get(v) if lpr else None
        restored = pre is not None and any(s and s[0] in ("f", "opaque") and "restore_from_checkpoint" in str(s[1]) for s in T.subterms(pre))
        ctx.decide(restored, "C11.state", sample.ident, loc_of(sample, call),
                   f"loop-carried local '{v}' is checkpointed (payload {[k for k, val in payload.items() if any(T.atom(p) in set(T.subterms(val)) for p in params)]}) and restored before the loop",
                   f"loop-carried local '{v}' is in the payload but on the resumed path its pre-loop value {T.show(pre)[:120] if pre else None} does not come from the restored checkpoint", disc=v)

    # ---- keys read on the restore side exist in the payload
    rfc = smc.resolve("restore_from_checkpoint")
    evr, rr = fold(repo, rfc, smc, max_depth=3, no_inline={"aspire.samplers.base:Sampler.load_checkpoint_from_file", "aspire.samples:BaseSamples.from_samples"})
    ctx.count("functions_folded", 3)
    read_keys = set()
    for e in evr.events:
        if e.callee == "method:get" and len(e.args) >= 2 and e.args[1][0] == "k" and isinstance(e.args[1][1], str):
            read_keys.add(e.args[1][1])
    for s in T.subterms(rr):
        if s and s[0] == "s" and s[2][0] == "k" and isinstance(s[2][1], str):
            read_keys.add(s[2][1])
    all_keys = set(payload)
    for k, v in payload.items():
        if v[0] == "d":
            all_keys |= {kk[1] for kk, _ in v[1] if kk[0] == "k"}
    # extra-state keys per concrete class are added below; here use the SMC base
    extra_base = _extra_keys(repo, smc)
    missing = sorted(k for k in read_keys if k not in all_keys | set(extra_base))
    ctx.decide(not missing, "C11.keys", rfc.ident, loc_of(rfc), f"every key read on restore ({sorted(read_keys)}) is written by the checkpoint payload",
               f"restore reads key(s) {missing} that the payload never writes (they silently fall back to defaults on resume)")

    # ---- provenance of everything restore_from_checkpoint hands back
    def has_get(t, key):
        return t is not None and any(s_ and s_[0] == "f" and s_[1] == "method:get" and len(s_[2]) >= 2 and s_[2][1] == T.K(key) for s_ in T.subterms(t))
    rr_ = T.strip_raise(rr)
    outs = {}
    if rr_[0] == "t" and len(rr_[1]) == 3:
        outs = {"samples": rr_[1][0], "beta": rr_[1][1], "iteration": rr_[1][2]}
    outs["history"] = evr.heap.get((SELF, "history"))
    outs["min_step"] = evr.heap.get((SELF, "_restored_min_step"))
    rng_store = [st_ for st_ in evr.stores if st_[1] == "state" and any(x_ == self_attr("rng") for x_ in T.subterms(st_[0]))]
    outs["rng_state"] = rng_store[0][2] if rng_store else None
    for key_, val_ in outs.items():
        others = [k_ for k_ in ("samples", "beta", "iteration", "history", "min_step", "rng_state") if k_ != key_ and has_get(val_, k_) and not (key_ == "samples" and k_ == "beta")]
        ctx.decide(has_get(val_, key_) and not others, "C11.restore", rfc.ident, loc_of(rfc), f"restored {key_} is read from the checkpoint's '{key_}' entry",
                   f"restored {key_} is {T.show(val_)[:120] if val_ else 'not set'}: it is not read from the checkpoint's '{key_}' entry" + (f" (it reads {others})" if others else ""), disc=key_)

    # ---- exact provenance under the layout build_checkpoint_state writes (state and state['meta'] are dicts)
    def _assume_layout(c):
        if c[0] == "f" and c[1] in ("isinstance", "builtins.hasattr", "hasattr"):
            return True
        return None
    from ..evalr import Evaluator as _Ev
    evx = _Ev(repo, max_depth=3, no_inline={"aspire.samplers.base:Sampler.load_checkpoint_from_file", "aspire.samples:BaseSamples.from_samples"}, assume=_assume_layout)
    rx = T.strip_raise(evx.run(rfc, smc))

    def getter(t, key, base=None):
        return t is not None and t[0] == "f" and t[1] == "method:get" and len(t[2]) >= 2 and t[2][1] == T.K(key) and (base is None or t[2][0] == base)
    pool_ = [s_ for t_ in [rx] + [v_ for v_ in evx.heap.values() if isinstance(v_, tuple)] for s_ in T.subterms(t_)]
    S_ = next((s_[2][0] for s_ in pool_ if getter(s_, "samples")), None)
    M_ = next((s_ for s_ in pool_ if S_ is not None and getter(s_, "meta", S_)), None)
    if S_ is None or M_ is None or rx[0] != "t" or len(rx[1]) != 3:
        ctx.unknown("C11.restore", rfc.ident, loc_of(rfc), "restore_from_checkpoint does not read state['samples'] / state['meta'] in a recognisable way", disc="layout")
    else:
        def set_value(t, key, base):
            """value of t on the path where base[key] is present (not None)"""
            gets = [x for x in T.subterms(t) if getter(x, key, base)]

            def oracle(c):
                if c[0] == "is" and c[2] == T.NONE and c[1] in gets:
                    return False
                return _assume_layout(c)
            return T.resolve(t, oracle)
        rng_val = evx.heap.get((("attr", self_attr("rng"), "bit_generator"), "state"))
        exact = {
            "beta": (set_value(rx[1][1], "beta", M_), "beta", M_, "state['meta']['beta']"),
            "min_step": (evx.heap.get((SELF, "_restored_min_step")), "min_step", M_, "state['meta']['min_step']"),
            "iteration": (rx[1][2], "iteration", S_, "state['iteration']"),
            "history": (evx.heap.get((SELF, "history")), "history", S_, "state['history']"),
            "rng_state": (set_value(rng_val, "rng_state", S_) if rng_val is not None else None, "rng_state", S_, "state['rng_state']"),
        }
        # the history is extended in place by the run: taken from a checkpoint *dictionary* it must be a deep copy, or the resumed run
        # rewrites the checkpoint the caller still holds (and a second resume from it finds a finished schedule)
        hv_ = exact["history"][0]
        copied_ = hv_ is not None and hv_[0] == "f" and hv_[1].endswith("deepcopy") and hv_[2]
        if copied_:
            exact["history"] = (hv_[2][0],) + exact["history"][1:]
        ctx.decide(bool(copied_), "C11.restore", rfc.ident, loc_of(rfc), "the restored history is a deep copy of the checkpoint's entry (the run appends to it)",
                   f"the restored history is {T.show(hv_)[:100] if hv_ else 'not set'} -- the object inside the caller's checkpoint dictionary itself: the resumed run appends every further "
                   "iteration to it, so the checkpoint is rewritten while it is being resumed from, and resuming from the same dictionary again does not reproduce the run", disc="history|owned")
        # the population handed back is the checkpointed one: converted / relabelled, but not resampled, selected from or enlarged -- a population redrawn
        # on restore is never recorded, so the first iteration after the resume works on a population that is in no checkpoint and no history
        pop_ = rx[1][0]
        redrawn = [x_ for x_ in T.subterms(pop_) if x_ and x_[0] == "f" and x_[1] in ("method:resample", "method:rejection_sample", "method:concatenate", "method:__getitem__")]
        ctx.decide(not redrawn, "C11.restore", rfc.ident, loc_of(rfc), "the restored population is the checkpointed population (not redrawn)",
                   f"restore_from_checkpoint applies {redrawn[0][1][7:] if redrawn else ''}() to the checkpointed population before handing it back: the run continues from a population "
                   "that differs from the checkpointed (and recorded) one, so the next iteration's ESS and incremental ratio belong to a population nobody stored", disc="samples|redrawn")
        for nm, (val_, key_, base_, where) in exact.items():
            ctx.decide(getter(val_, key_, base_), "C11.restore", rfc.ident, loc_of(rfc), f"whenever the checkpoint holds it, the restored {nm} is exactly {where}",
                       f"with a checkpoint in the layout build_checkpoint_state writes, the restored {nm} is {T.show(val_)[:160] if val_ else 'not set'}, not {where}: "
                       "the resumed run continues from a different state", disc=f"{nm}|exact")

    # ---- the restored history is handed to the run as it was checkpointed: the restore calls no method on it that changes it (a trim, a reset of a
    #      series, a re-sort) -- the run assumes a restored history ends with the checkpointed population and the entries of the completed iterations
    def _mutates(fn):
        for n_ in ast.walk(fn.node):
            if isinstance(n_, ast.Delete):
                return True
            if isinstance(n_, ast.Attribute) and isinstance(n_.ctx, (ast.Store, ast.Del)):
                return True
            if isinstance(n_, ast.Subscript) and isinstance(n_.ctx, (ast.Store, ast.Del)):
                return True
            if isinstance(n_, ast.Call) and isinstance(n_.func, ast.Attribute) and n_.func.attr in ("append", "extend", "insert", "pop", "clear", "remove", "sort", "reverse"):
                return True
            if isinstance(n_, ast.Call) and isinstance(n_.func, ast.Name) and n_.func.id in ("setattr", "delattr"):
                return True
        return False
    hist_classes = [c_ for c_ in repo.modules["aspire.history"].classes.values()]
    hval = evr.heap.get((SELF, "history"))
    bad_calls = []
    for e_ in evr.events:
        if not e_.callee.startswith("method:") or not e_.args:
            continue
        recv_ = e_.args[0]
        if recv_ != hval and recv_ != self_attr("history"):
            continue
        nm_ = e_.callee[7:]
        impl = [c_.resolve(nm_) for c_ in hist_classes if c_.resolve(nm_) is not None]
        if any(_mutates(f_) for f_ in impl):
            bad_calls.append((e_, nm_))
    LIST_MUT = ("append", "extend", "insert", "pop", "clear", "remove", "sort", "reverse", "__setitem__", "__delitem__")
    for e_ in evr.events:
        if e_.callee.startswith("method:") and e_.callee[7:] in LIST_MUT and e_.args:
            recv_ = e_.args[0]
            if recv_[0] == "attr" and (recv_[1] == hval or recv_[1] == self_attr("history")):
                bad_calls.append((e_, f"{recv_[2]}.{e_.callee[7:]}"))
    # ... and stores nothing into it: a series re-assigned by the restore (populations rebuilt through a conversion that drops their temperature, a filtered list)
    # is not the record that was checkpointed
    for (o_, a_, v_, node_, fn_, seq_) in evr.stores:
        if fn_ is rfc and (o_ == hval or o_ == self_attr("history")) and hval is not None:
            class _E:
                pass
            e_ = _E()
            e_.node = node_
            bad_calls.append((e_, f"{a_} = ..."))
    ctx.decide(not bad_calls, "C11.restore", rfc.ident, loc_of(rfc, bad_calls[0][0].node if bad_calls else None),
               "the restore calls no state-changing method on the restored history",
               (f"restore_from_checkpoint applies `history.{bad_calls[0][1]}` to the restored history, which deletes or rewrites recorded entries: the run continues from a record "
                "that is not the checkpointed one (e.g. without the checkpointed population, which the loop does not record again), so every later entry is paired with the wrong population") if bad_calls else "",
               disc="history|mutated")

    # ---- the sampler-specific extras are merged over the base payload ({**payload, **extras}): an extra that uses a name of the base payload
    #      (samples / iteration / meta / sampler ...) replaces that entry -- e.g. an extra "meta" drops the temperature and the minimum step
    base_keys = set()
    bcs_base = repo.cls("aspire.samplers.base:Sampler").resolve("build_checkpoint_state")
    if bcs_base is not None:
        for d_ in ast.walk(bcs_base.node):
            if isinstance(d_, ast.Dict):
                base_keys |= {k_.value for k_ in d_.keys if isinstance(k_, ast.Constant) and isinstance(k_.value, str)}
    n_ex = 0
    for c_ in [smc] + list(repo.subclasses(smc, strict=True)):
        ces_ = c_.methods.get("_checkpoint_extra_state")
        if ces_ is None:
            continue
        n_ex += 1
        written = set()
        for n_ in walk_no_nested(ces_.node):
            if isinstance(n_, ast.Dict):
                written |= {k_.value for k_ in n_.keys if isinstance(k_, ast.Constant) and isinstance(k_.value, str)}
            if isinstance(n_, ast.Subscript) and isinstance(n_.ctx, ast.Store) and isinstance(n_.slice, ast.Constant) and isinstance(n_.slice.value, str) and isinstance(n_.value, ast.Name):
                written.add(n_.slice.value)
            if isinstance(n_, ast.Call) and isinstance(n_.func, ast.Attribute) and n_.func.attr in ("setdefault", "update") and isinstance(n_.func.value, ast.Name) and n_.args \
                    and isinstance(n_.args[0], ast.Constant) and isinstance(n_.args[0].value, str):
                written.add(n_.args[0].value)
        clash = sorted(written & base_keys)
        ctx.decide(not clash, "C11.keys", ces_.ident, loc_of(ces_), f"the extras of {c_.name} use no name of the base payload",
                   f"{c_.name}._checkpoint_extra_state writes the key(s) {clash}, which the base payload also uses: the extras are merged over the payload, so the base entry is replaced "
                   "(an extra 'meta' drops the checkpointed temperature and minimum step; the restore then falls back to its defaults and the resumed run starts from beta = 0)",
                   disc=f"collision|{c_.name}")
    ctx.count("extra_state_builders", n_ex)

    # ---- the sampler-specific extras are merged into every payload
    bcs0 = repo.cls("aspire.samplers.base:Sampler").resolve("build_checkpoint_state")
    evm = _Ev(repo, max_depth=1, no_inline={"aspire.samplers.base:Sampler._checkpoint_extra_state", "aspire.samplers.base:Sampler.config_dict"})
    rm_ = T.strip_raise(evm.run(bcs0, repo.cls("aspire.samplers.base:Sampler")))
    spread = [v_ for k_, v_ in rm_[1] if k_ == T.K("**")] if rm_[0] == "d" else []
    okm_ = any(v_[0] == "f" and v_[1].endswith("_checkpoint_extra_state") and v_[2] and v_[2][0] == SELF for v_ in spread)
    ctx.decide(okm_, "C11.keys", bcs0.ident, loc_of(bcs0), "the base payload is updated with _checkpoint_extra_state() (random state, history and other per-sampler extras)",
               "build_checkpoint_state does not merge _checkpoint_extra_state() into the payload: the generator state and the history never reach a checkpoint", disc="extras")

    from .smcloop import forwarding_rule
    forwarding_rule(ctx, "C11.src", ("resume_from",), "resuming with that sampler silently starts a fresh run")
    # ---- the three documented checkpoint sources: path -> file loader, bytes -> unpickled, dict -> used as is
    base_cls = repo.cls("aspire.samplers.base:Sampler")
    brf = base_cls.resolve("restore_from_checkpoint")
    src_ = T.atom(brf.params[1])
    wanted_state = {
        "str": lambda t: t[0] == "f" and t[1].endswith("load_checkpoint_from_file") and src_ in t[2],
        "bytes": lambda t: t[0] == "f" and t[1] == "pickle.loads" and t[2] == (src_,),
        "dict": lambda t: t == src_,
    }
    for ty, okf in wanted_state.items():
        def _as(c, ty=ty):
            if c[0] == "f" and c[1] == "isinstance" and c[2][0] == src_:
                return c[2][1] == ("ref", f"builtins.{ty}")
            return None
        evb = _Ev(repo, max_depth=1, no_inline={"aspire.samplers.base:Sampler.load_checkpoint_from_file", "aspire.samples:BaseSamples.from_samples"}, assume=_as)
        rb_ = T.strip_raise(evb.run(brf, base_cls))
        okb = rb_[0] == "t" and len(rb_[1]) == 2 and okf(rb_[1][1]) and rb_[1][0][0] == "f" and "from_samples" in rb_[1][0][1] \
            and len(rb_[1][0][2]) >= 2 and getter(rb_[1][0][2][1], "samples", rb_[1][1])
        extra_ = [e for e in evb.events if e.callee.endswith("_restore_extra_state")]
        okb = okb and len(extra_) == 1 and extra_[0].args[0] == rb_[1][1]
        ctx.decide(okb, "C11.src", brf.ident, loc_of(brf), f"a checkpoint passed as {ty} is " + {"str": "loaded from that file", "bytes": "unpickled", "dict": "used as is"}[ty]
                   + "; population and extra state come from it",
                   f"for a checkpoint passed as {ty} restore returns {T.show(rb_)[:200]}", disc=f"source|{ty}")

    # ---- self attributes carried across iterations, per concrete class
    n_cls = 0
    for c in repo.subclasses(smc, strict=True):
        if "mutate" not in c.methods:
            continue
        n_cls += 1
        mu = c.methods["mutate"]
        attrs = set(mod_summary(repo, mu, c)) | set(mod_summary(repo, smc.resolve("determine_beta"), c))
        # random sources held on self and used in loop-reachable code
        for f in (mu, sample):
            me = f.params[0]
            for n in walk_no_nested(f.node):
                if isinstance(n, ast.Attribute) and isinstance(n.value, ast.Name) and n.value.id == me and n.attr in RANDOM_ATTRS and isinstance(n.ctx, ast.Load):
                    attrs.add(n.attr)
        if history_appends(sample, repo, smc) or any(True for _ in _hist_appends(mu)):
            attrs.add("history")
        # carried across iterations = written in an iteration AND read (or mutated in place) in an iteration before any store to it;
        # an attribute that every iteration writes before reading is scratch space, not run state
        exp_, _wr = attr_exposed(repo, loop_node.body, sample.params[0], c)
        attrs = {a for a in attrs if a in exp_ or a in RANDOM_ATTRS or a == "history"}
        attrs -= set(EXEMPT_ATTRS)
        ces = c.resolve("_checkpoint_extra_state")
        saved = _self_reads(ces) if ces is not None else set()
        restore_fns = [c.resolve("restore_from_checkpoint"), c.resolve("_restore_extra_state")]
        restored = set()
        for rf in restore_fns:
            if rf is not None:
                restored |= _self_writes(rf)
        for a in sorted(attrs):
            if a not in saved:
                ctx.refute("C11.state", c.ident, loc_of(mu),
                           f"self.{a} changes in every iteration of {c.name} (written by code reachable from the loop body) but "
                           f"{ces.ident if ces else '_checkpoint_extra_state'} does not save it: a resumed run continues with a different {a}", disc=f"self.{a}")
            elif a not in restored:
                ctx.refute("C11.state", c.ident, loc_of(mu), f"self.{a} is saved in the checkpoint but never restored from it", disc=f"self.{a}")
            else:
                ctx.prove("C11.state", c.ident, loc_of(mu), f"self.{a} is saved by _checkpoint_extra_state and restored on resume", disc=f"self.{a}")
    ctx.floor("concrete SMC sampler classes", n_cls, 3)

    # ---- same arguments, same derived options: apart from the restored state itself, everything sample() derives before
    # the loop (flags, step sizes, cadence, callbacks) must be the same function of the arguments on the fresh and on the resumed path
    lpf_ = sf_fresh.loop
    if lpf_ is not None and lpr is not None:
        Rr = roles(repo)
        allowed_locals = {Rr.beta, Rr.iterations, Rr.samples, Rr.min_step} | ({Rr.guard} if Rr.guard else set())
        pf_, pr_ = lpf_["pre"], lpr["pre"]
        diff_l = sorted(k for k in set(pf_) & set(pr_) if pf_[k] != pr_[k] and k not in allowed_locals)
        hf_ = {a: v for (o, a), v in sf_fresh.ev.heap.items() if o == SELF}
        hr_ = {a: v for (o, a), v in sf_res.ev.heap.items() if o == SELF}
        restored_attrs = set()
        for c_ in [smc]:
            for nm_ in ("restore_from_checkpoint", "_restore_extra_state"):
                rf_ = c_.resolve(nm_)
                if rf_ is not None:
                    restored_attrs |= _self_writes(rf_)
        base_rf = base.resolve("restore_from_checkpoint")
        if base_rf is not None:
            restored_attrs |= _self_writes(base_rf)
        diff_a = sorted(k for k in set(hf_) | set(hr_) if hf_.get(k) != hr_.get(k) and k not in restored_attrs and k not in EXEMPT_ATTRS and k != "history")
        why_ = ""
        if diff_a or diff_l:
            nm_ = ("self." + diff_a[0]) if diff_a else diff_l[0]
            vf_ = hf_.get(diff_a[0]) if diff_a else pf_.get(diff_l[0])
            vr_ = hr_.get(diff_a[0]) if diff_a else pr_.get(diff_l[0])
            why_ = (f"with the same arguments a resumed run enters the loop with different {nm_}: fresh {T.show(vf_)[:90] if vf_ else None} vs resumed {T.show(vr_)[:90] if vr_ else None} "
                    "-- the resumed run does not continue the schedule of the uninterrupted one")
        ctx.decide(not diff_l and not diff_a, "C11.state", sample.ident, loc_of(sample),
                   "apart from the restored state, every option sample() derives before the loop is the same function of its arguments on the fresh and on the resumed path",
                   why_, disc="same-options")

    # ---- restore must not bring back a container that sample() consumes destructively
    # (the copy in the checkpoint was taken after the pop: restoring it loses what was popped,
    # and overrides the options given to the resuming call)
    me_s = sample.params[0]
    consumed = {}
    for n in walk_no_nested(sample.node):
        if isinstance(n, ast.Call) and isinstance(n.func, ast.Attribute) and n.func.attr in ("pop", "popitem", "clear") \
                and isinstance(n.func.value, ast.Attribute) and isinstance(n.func.value.value, ast.Name) and n.func.value.value.id == me_s:
            consumed.setdefault(n.func.value.attr, n)
        if isinstance(n, ast.Delete):
            for t_ in n.targets:
                if isinstance(t_, ast.Subscript) and isinstance(t_.value, ast.Attribute) and isinstance(t_.value.value, ast.Name) and t_.value.value.id == me_s:
                    consumed.setdefault(t_.value.attr, n)
    n_lossy = 0
    for c in [smc] + [x for x in repo.subclasses(smc, strict=True)]:
        for nm in ("restore_from_checkpoint", "_restore_extra_state"):
            rf = c.methods.get(nm)
            if rf is None:
                continue
            n_lossy += 1
            hit = sorted(set(_self_writes(rf)) & set(consumed))
            ctx.decide(not hit, "C11.state", rf.ident, loc_of(rf), f"{c.name}.{nm} restores nothing that sample() consumes destructively",
                       f"{c.name}.{nm} restores self.{hit[0] if hit else ''}, from which sample() removes entries (line {consumed[hit[0]].lineno if hit else 0}) before any checkpoint is built: "
                       "the checkpointed copy no longer has them, and restoring it also overrides the options of the resuming call, so the resumed run differs from the uninterrupted one",
                       disc=f"lossy|{c.name}.{nm}")
    ctx.floor("restore hooks checked for lossy restores", n_lossy, 1)

    # ---- mutable loop state in the payload is a snapshot, not an alias
    extra = _extra_keys(repo, smc)
    hv = extra.get("history")
    oks = hv is not None and hv[0] == "f" and hv[1].endswith("deepcopy") and hv[2] and hv[2][0] == self_attr("history")
    ces0 = smc.resolve("_checkpoint_extra_state")
    ctx.decide(bool(oks), "C11.snapshot", ces0.ident, loc_of(ces0),
               "the history stored in a checkpoint is a deep copy taken at checkpoint time",
               f"the checkpoint payload holds {T.show(hv)[:80] if hv else 'no history'}: the live history object keeps growing after the checkpoint was taken, so a "
               "checkpoint passed on as a dictionary (or kept by the default callback) no longer describes the iteration it was taken at")
    rv = extra.get("rng_state")
    okr = rv is not None and any(s_ == ("attr", ("attr", self_attr("rng"), "bit_generator"), "state") for s_ in T.subterms(rv))
    # a mutable default argument is one object shared by every call: if a payload builder stores (or fills) it, all checkpoints of the
    # process -- of every sampler instance -- share that entry and each new checkpoint rewrites the earlier ones
    n_md = 0
    builders = [f for f in repo.all_functions() if f.ident.startswith("aspire.samplers") and f.cls is not None
                and (f.name in ("build_checkpoint_state", "_checkpoint_extra_state") or "checkpoint" in f.name)]
    for f in builders:
        a_ = f.node.args
        pos_ = a_.posonlyargs + a_.args
        pairs = list(zip(pos_[len(pos_) - len(a_.defaults):], a_.defaults)) + [(p_, d_) for p_, d_ in zip(a_.kwonlyargs, a_.kw_defaults) if d_ is not None]
        for p_, d_ in pairs:
            mutable = isinstance(d_, (ast.Dict, ast.List, ast.Set)) or (isinstance(d_, ast.Call) and isinstance(d_.func, ast.Name) and d_.func.id in ("dict", "list", "set", "defaultdict", "OrderedDict"))
            if not mutable:
                continue
            n_md += 1
            parents_ = {ch: pa for pa in ast.walk(f.node) for ch in ast.iter_child_nodes(pa)}
            empty_default = (isinstance(d_, ast.Dict) and not d_.keys) or (isinstance(d_, (ast.List, ast.Set)) and not d_.elts) or (isinstance(d_, ast.Call) and not d_.args and not d_.keywords)

            def harmless(n):
                pa = parents_.get(n)
                if isinstance(pa, ast.Call) and n in pa.args:
                    fn_ = pa.func.id if isinstance(pa.func, ast.Name) else (pa.func.attr if isinstance(pa.func, ast.Attribute) else None)
                    return fn_ in ("dict", "list", "set", "tuple", "frozenset", "deepcopy", "copy", "sorted", "len", "bool", "any", "all", "isinstance")
                if isinstance(pa, ast.keyword) and pa.arg is None:
                    return True  # f(**p): unpacked into a new mapping
                if isinstance(pa, ast.Dict) and n in pa.values and pa.keys[pa.values.index(n)] is None:
                    return True  # {**p}
                if isinstance(pa, ast.Attribute) and pa.value is n:
                    return pa.attr in ("get", "items", "keys", "values", "copy", "index", "count")
                if isinstance(pa, ast.Subscript) and pa.value is n:
                    return isinstance(pa.ctx, ast.Load)
                if isinstance(pa, ast.BoolOp) and isinstance(pa.op, ast.Or) and empty_default and all(v is n or isinstance(v, (ast.Dict, ast.List, ast.Set)) for v in pa.values):
                    return True  # `p or {}`: the (empty, falsy) default is never the value
                if isinstance(pa, (ast.Compare, ast.If, ast.While, ast.IfExp, ast.UnaryOp)) and not (isinstance(pa, ast.IfExp) and n in (pa.body, pa.orelse)):
                    return True
                if isinstance(pa, (ast.For, ast.comprehension)) and pa.iter is n:
                    return True
                return False
            uses = [n for n in walk_no_nested(f.node) if isinstance(n, ast.Name) and n.id == p_.arg and isinstance(n.ctx, ast.Load) and not harmless(n)]
            rebound_first = False
            for st_ in f.node.body:
                # `meta = dict(meta)` style rebinding before any other use makes a private object
                if isinstance(st_, ast.Assign) and any(isinstance(t, ast.Name) and t.id == p_.arg for t in st_.targets) and not any(u in set(ast.walk(st_)) for u in uses):
                    rebound_first = True
                    break
                if any(isinstance(n, ast.Name) and n.id == p_.arg for n in ast.walk(st_)):
                    break
            ctx.decide(rebound_first or not uses, "C11.snapshot", f.ident, loc_of(f, d_),
                       f"mutable default of `{p_.arg}` is copied before use",
                       f"`{p_.arg}` defaults to a mutable object ({ast.unparse(d_)}) that this payload builder stores or fills: the one default object is shared by every checkpoint built in the process, "
                       "so a checkpoint kept while sampling continues (or the last state of another sampler) silently takes the values of the newest one", disc=f"mutable-default|{p_.arg}")
    ctx.count("mutable_defaults_in_payload_builders", n_md)
    ctx.decide(bool(okr), "C11.snapshot", ces0.ident, loc_of(ces0), "the generator state stored is read from the sampler's generator at checkpoint time",
               f"rng_state in the payload is {T.show(rv)[:100] if rv else 'absent'}", disc="rng")

    # ---- post-loop enlargement is idempotent under resume
    en = [n for n in walk_no_nested(sample.node) if isinstance(n, ast.If) and n.lineno > loop_node.end_lineno
          and any(isinstance(c, ast.Call) and isinstance(c.func, ast.Attribute) and c.func.attr == "mutate" for c in ast.walk(n))]
    if en:
        from ..evalr import Frame, State
        fr0 = Frame(Evaluator(repo), sample, smc, 0)
        g0 = fr0.eval(en[0].test, State())
        parts = list(g0[1]) if g0[0] == "and" else [g0]
        cur = [p_ for p_ in parts if p_[0] == "cmp" and any(s_ and s_[0] == "f" and s_[1] == "len" for s_ in T.subterms(p_)) and any(s_ == T.atom("n_final_samples") for s_ in T.subterms(p_))]
        if cur:
            c0 = cur[0]
            # enlargement exactly when the sizes differ
            if not (c0[1] == "!=" and len(c0) == 3):
                cur = []
        ctx.decide(bool(cur), "C11.idem", sample.ident, loc_of(sample, en[0]),
                   "the final-sample enlargement is guarded by the *current* population size, so a run resumed from the final checkpoint is not enlarged again",
                   f"the final-sample enlargement is guarded by {T.show(g0)[:160]}, which does not look at the current population: resuming from the final (already enlarged) "
                   "checkpoint resamples and mutates the population a second time")

    # ---- no mutation of restored state before the loop
    muts = [e for e in sf_res.events(None, in_loop=False)
            if e.node.lineno < loop_node.lineno and e.callee in ("method:append", "method:extend", "method:insert", "method:pop", "method:clear", "method:remove")
            and e.args and _rooted_in_restored(e.args[0], sf_res)]
    ctx.decide(not muts, "C11.reentry", sample.ident, loc_of(sample, muts[0].node if muts else loop_node),
               "the resumed path does not mutate restored state between restore and loop entry",
               f"on the resumed path {muts[0].callee[7:] if muts else ''}() is applied to restored state "
               f"({T.show(muts[0].args[0])[-60:] if muts else ''}) before the loop: the resumed run diverges from the uninterrupted one",
               disc=(muts[0].args[0][2] if muts and muts[0].args[0][0] == "attr" else ""))

    # ---- the objects the restore wrote into (generator, history) are still the sampler's when the loop starts
    rest_ev = [e for e in sf_res.events("restore_from_checkpoint", in_loop=False)]
    if rest_ev:
        rseq = min(e.seq for e in rest_ev)
        for obj_, attr_, val_, node_, func_, seq_ in sf_res.ev.stores:
            if obj_ != SELF or attr_ not in ("rng", "history") or func_ is not sample or seq_ < rseq:
                continue
            if node_ is not None and sf_res.in_loop(node_):
                continue
            ctx.refute("C11.reentry", sample.ident, loc_of(sample, node_),
                       f"on the resumed path self.{attr_} is assigned after restore_from_checkpoint() has put the checkpointed "
                       + ("generator state into the object it replaces: the resumed run continues with the new object's own (seed) state, so resampling "
                          "and kernel draws differ from the uninterrupted run" if attr_ == "rng" else "history into it: the restored record is dropped"),
                       disc=f"replaced|{attr_}")
    ctx.count("restore_calls_on_resumed_path", len(rest_ev))
    # ---- nothing between the restore and the loop draws from the restored generator: the uninterrupted run drew nothing between two iterations, so a draw at
    #      re-entry (a preconditioning fit that sub-samples with self.rng, say) shifts every later resampling and kernel draw
    def _reads_rng(fn_, depth=0, seen=None):
        seen = seen if seen is not None else set()
        if fn_ is None or fn_.ident in seen or depth > 2:
            return None
        seen.add(fn_.ident)
        me_ = fn_.params[0] if fn_.params else "self"
        for n_ in walk_no_nested(fn_.node):
            if isinstance(n_, ast.Attribute) and n_.attr == "rng" and isinstance(n_.value, ast.Name) and n_.value.id == me_ and isinstance(n_.ctx, ast.Load):
                return n_, fn_
            if isinstance(n_, ast.Call) and isinstance(n_.func, ast.Attribute) and isinstance(n_.func.value, ast.Name) and n_.func.value.id == me_ and fn_.cls is not None:
                r_ = _reads_rng(fn_.cls.resolve(n_.func.attr), depth + 1, seen)
                if r_ is not None:
                    return r_
        return None
    pre_calls = [n_ for n_ in walk_no_nested(sample.node) if isinstance(n_, ast.Call) and isinstance(n_.func, ast.Attribute) and isinstance(n_.func.value, ast.Name)
                 and n_.func.value.id == sample.params[0] and n_.lineno < loop_node.lineno and n_.func.attr not in ("restore_from_checkpoint", "draw_initial_samples")]
    n_pre = 0
    for cls_ in [smc] + list(repo.subclasses(smc, strict=True)):
        for c_ in pre_calls:
            tgt_ = cls_.resolve(c_.func.attr)
            if tgt_ is None:
                continue
            n_pre += 1
            hit = _reads_rng(tgt_)
            if hit is not None:
                ctx.refute("C11.reentry", sample.ident, loc_of(sample, c_),
                           f"self.{c_.func.attr}() runs between the restore and the loop and {hit[1].ident.split(':')[1]} reads self.rng (line {hit[0].lineno}): a resumed run draws from the generator "
                           "whose state was just restored before its first iteration, the uninterrupted run drew nothing at that point -- every later resampling index and kernel draw differs",
                           disc=f"draws|{cls_.name}.{c_.func.attr}")
    ctx.count("self_calls_between_restore_and_loop", n_pre)
    if pre_calls:
        ctx.prove("C11.reentry", sample.ident, loc_of(sample, pre_calls[0]), f"{n_pre} resolved self-calls between restore and loop checked for draws from the restored generator", disc="draws")
    # ---- the documented resume route reads the proposal from the file: it must be the flow the checkpointed population was weighted under
    from ..report import reuse as _reuse
    from . import c14 as _c14
    _reuse(ctx, lambda c: _c14.run(c, shared=False), ("C14.flow",), "C11file",
           "stale-flow rule shared with C14: resume_from_file() continues the checkpointed population with the flow stored next to it; if a refit flow was never "
           "written, log_q, the temperature schedule and every later population differ from the uninterrupted run", only=lambda f: not f.key.endswith("| window"))
    from . import c04 as _c04
    _reuse(ctx, lambda c: _c04.run(c, shared=False), ("C04.wire",), "C11wire", "wiring rule shared with C04: resume_from_file() rebuilds the transforms from a configuration whose mappings come back key-sorted; bounds taken in "
           "mapping order are then attached to the wrong parameters and the resumed run evaluates another proposal")
    # ---- a run resumed from a finished checkpoint does not iterate again
    if lpr is not None:
        guard_names = [n for n in walk_no_nested(sample.node) if isinstance(n, ast.If) and loop_node in n.body]
        gname = guard_names[0].test.id if guard_names and isinstance(guard_names[0].test, ast.Name) else None
        gval = lpr["pre"].get(gname) if gname else None
        okf = False
        # the guard may be a disjunction: the temperature test, and the test that the iteration cap was used up
        c0_ = gval[1] if gval is not None and gval[0] == "phi" else None
        parts_ = (list(c0_[1]) if c0_ is not None and c0_[0] == "or" else [c0_]) if c0_ is not None else []
        cmp_ = next((p_ for p_ in parts_ if p_ and p_[0] == "cmp" and p_[1] == ">=" and len(p_) == 3 and T.linear_form(p_[2]).get((), 0) == -1), None)
        cap_ = any(p_ and p_[0] == "and" and any(x_ == T.atom("max_n_steps") for x_ in T.subterms(p_)) and any(x_ and x_[0] == "cmp" and x_[1] == ">=" for x_ in T.subterms(p_))
                   and any(x_ and x_[0] == "f" and "restore_from_checkpoint" in str(x_[1]) for x_ in T.subterms(p_)) for p_ in parts_)
        ctx.decide(cap_, "C11.finished", sample.ident, loc_of(sample, guard_names[0] if guard_names else loop_node),
                   "a run that had used up its iteration cap is not iterated again when resumed from its last checkpoint",
                   "on the resumed path the loop is skipped only when the restored temperature has reached 1: a run that was stopped by max_n_steps (beta < 1) and is resumed from its "
                   "final checkpoint with the same cap enters the loop again -- the body runs before the cap is tested -- and performs one tempering iteration more than the uninterrupted run",
                   disc="cap")
        if cmp_ is not None and (len(parts_) == 1 or cap_):
            gval = ("phi", cmp_, gval[2], gval[3])
            d_ = T.add(gval[1][2], T.ONE)
            # the temperature tested is the last recorded one, or the restored temperature when nothing was recorded
            beta_pre = lpr["pre"].get(R.beta)

            def _last_beta(t):
                if t[0] == "phi":
                    hb = t[1]
                    return hb[0] == "attr" and hb[2] == "beta" and t[2] == ("s", hb, T.neg(T.ONE)) and t[3] == beta_pre
                return t == beta_pre or (t[0] == "s" and t[1][0] == "attr" and t[1][2] == "beta" and t[2] == T.neg(T.ONE))
            okf = T.select(gval, gval[1], True) == T.FALSE and T.select(gval, gval[1], False) == T.TRUE and _last_beta(d_)
        fresh_g = sf_fresh.loop["pre"].get(gname) if gname and sf_fresh.loop else None
        ctx.decide(okf and fresh_g == T.TRUE, "C11.finished", sample.ident, loc_of(sample, guard_names[0] if guard_names else loop_node),
                   "the loop is skipped exactly when the restored history already ends at beta >= 1 (a fresh run always iterates)",
                   f"loop guard on the resumed path is {T.show(gval)[:200] if gval else None} (fresh: {T.show(fresh_g) if fresh_g else None}): a finished run resumed from its last checkpoint iterates again, or an unfinished one does not")

    # ---- the checkpoint is cut after every loop-carried write
    g = CFG(sample.node)
    lcfg = g.loop_of(loop_node)
    from .smcloop import checkpoint_closure
    _mc = checkpoint_closure(repo)
    cps = [n for n in lcfg["body"] for c in calls_in(n.ast) if isinstance(c.func, ast.Name) and _mc is not None and c.func.id == _mc.name]

    def _writes(n):
        """loop-carried writes of CFG node *n*: assignments to carried locals and the calls that advance the run"""
        a = n.ast
        out = []
        if isinstance(a, (ast.Assign, ast.AugAssign, ast.AnnAssign)):
            tg = a.targets if isinstance(a, ast.Assign) else [a.target]
            for t in tg:
                for x in ast.walk(t):
                    if isinstance(x, ast.Name) and x.id in carried:
                        out.append(f"{x.id} assigned at line {a.lineno}")
        for c in calls_in(a):
            if isinstance(c.func, ast.Attribute) and c.func.attr in ("mutate", "resample", "determine_beta", "append"):
                out.append(f"{c.func.attr}() at line {c.lineno}")
        return out

    def _fwd(starts):
        seen = set()
        todo = list(starts)
        while todo:
            n = todo.pop()
            if n in seen or n not in lcfg["body"]:
                continue
            seen.add(n)
            todo.extend(m for m, lab in g.succ[n] if lab not in ("exc", "back"))
        return seen

    def _bwd(starts):
        seen = set()
        todo = list(starts)
        while todo:
            n = todo.pop()
            if n in seen or n not in lcfg["body"]:
                continue
            seen.add(n)
            todo.extend(m for m, lab in g.pred[n] if lab not in ("exc", "back"))
        return seen

    # a checkpoint call in a handler / finally of a try that *encloses* the loop is reached from every statement of every iteration that can raise:
    # temperature, counter and history of the iteration in progress may be written while the population is still the one from before the step
    if _mc is not None:
        for tr_ in walk_no_nested(sample.node):
            if not isinstance(tr_, ast.Try) or not any(loop_node is x_ for b_ in tr_.body for x_ in ast.walk(b_)):
                continue
            for blk_ in [h_.body for h_ in tr_.handlers] + [tr_.finalbody]:
                for st_ in blk_:
                    for c_ in ast.walk(st_):
                        if isinstance(c_, ast.Call) and isinstance(c_.func, ast.Name) and c_.func.id == _mc.name:
                            ctx.refute("C11.cut", sample.ident, loc_of(sample, c_),
                                       f"the checkpoint call at line {c_.lineno} sits in a handler / finally around the whole loop: it is reached when any statement of an iteration raises "
                                       "(an interrupt during the mutation step, say), after the temperature, the counter and the history entries of that iteration were written but before "
                                       "the population was resampled and mutated -- the last checkpoint in the file then describes no state the run was ever in, and resuming from it skips a step",
                                       disc="enclosing-handler")
    # ---- a checkpoint written after the loop records the loop's temperature variable; a population that was produced after the loop at a literal
    #      temperature (the final enlargement: resample(1.0, n) + mutate(.., 1.0)) may only reach it when the loop can only be left with the variable
    #      equal to that literal.  With an iteration cap the loop is also left at beta < 1: the payload then pairs a population distributed at 1.0 with
    #      the temperature of the last step, and a resume with a larger cap computes its next increment on a population that is not the recorded one.
    if _mc is not None:
        bcs = [c_ for c_ in ast.walk(_mc.node) if isinstance(c_, ast.Call) and isinstance(c_.func, ast.Attribute) and c_.func.attr == "build_checkpoint_state"]
        pop_var = beta_var = None
        if bcs:
            a_ = bcs[0].args
            kw_ = {k_.arg: k_.value for k_ in bcs[0].keywords}
            pv, bv = (a_[0] if a_ else kw_.get("samples")), (a_[2] if len(a_) > 2 else kw_.get("beta"))
            pop_var = pv.id if isinstance(pv, ast.Name) else None
            beta_var = bv.id if isinstance(bv, ast.Name) else None
        finals = [c_ for c_ in walk_no_nested(sample.node) if isinstance(c_, ast.Call) and isinstance(c_.func, ast.Name) and c_.func.id == _mc.name
                  and c_.lineno > loop_node.end_lineno]
        if pop_var is None or beta_var is None or not finals:
            ctx.unknown("C11.cut", sample.ident, loc_of(sample, loop_node), "the payload's population / temperature variables or the final checkpoint call were not identified", disc="pairing")
        else:
            def _temp_of(call):
                """literal temperature of a mutate / resample call, else None"""
                if not (isinstance(call, ast.Call) and isinstance(call.func, ast.Attribute) and call.func.attr in ("mutate", "resample")):
                    return None
                idx = 1 if call.func.attr == "mutate" else 0
                kw = {k_.arg: k_.value for k_ in call.keywords}
                t_ = call.args[idx] if len(call.args) > idx else kw.get("beta")
                return t_ if isinstance(t_, ast.Constant) and isinstance(t_.value, (int, float)) else None

            late = []
            for n_ in walk_no_nested(sample.node):
                if isinstance(n_, ast.Assign) and loop_node.end_lineno < n_.lineno < finals[0].lineno and any(isinstance(t_, ast.Name) and t_.id == pop_var for t_ in n_.targets):
                    lit = _temp_of(n_.value)
                    if lit is not None:
                        late.append((n_, lit.value))
            # exits of the loop: `while <test>` or `if <test>: break`
            exits = []
            if not (isinstance(loop_node.test, ast.Constant) and loop_node.test.value is True):
                exits.append(ast.UnaryOp(ast.Not(), loop_node.test))
            for n_ in ast.walk(loop_node):
                if isinstance(n_, ast.If) and any(isinstance(b_, ast.Break) for b_ in n_.body):
                    exits.append(n_.test)

            def _implies_eq(test, lit):
                """does *test* being true imply beta_var == lit?"""
                if isinstance(test, ast.Compare) and len(test.ops) == 1 and isinstance(test.ops[0], ast.Eq):
                    l_, r_ = test.left, test.comparators[0]
                    for a2, b2 in ((l_, r_), (r_, l_)):
                        if isinstance(a2, ast.Name) and a2.id == beta_var and isinstance(b2, ast.Constant) and b2.value == lit:
                            return True
                if isinstance(test, ast.BoolOp) and isinstance(test.op, ast.And):
                    return any(_implies_eq(v_, lit) for v_ in test.values)
                if isinstance(test, ast.BoolOp) and isinstance(test.op, ast.Or):
                    return all(_implies_eq(v_, lit) for v_ in test.values)
                return False

            def _guards(node):
                """tests of the `if` statements (outside the loop) that enclose *node* on their true branch"""
                out = []
                for i_ in walk_no_nested(sample.node):
                    if isinstance(i_, ast.If) and i_.lineno > loop_node.end_lineno and any(node is x_ for b_ in i_.body for x_ in ast.walk(b_)):
                        out.append(i_.test)
                return out
            ctx.count("post_loop_populations_at_a_literal_temperature", len(late))
            for n_, lit in late:
                ok_ = all(_implies_eq(e_, lit) for e_ in exits) and bool(exits) or any(_implies_eq(t_, lit) for t_ in _guards(n_))
                loose = [ast.unparse(e_)[:70] for e_ in exits if not _implies_eq(e_, lit)]
                ctx.decide(ok_, "C11.cut", sample.ident, loc_of(sample, n_),
                           f"the population produced after the loop at temperature {lit} reaches the final checkpoint only when {beta_var} == {lit}",
                           f"`{ast.unparse(n_)[:70]}` (line {n_.lineno}) replaces the population after the loop by one produced at temperature {lit}, and the forced checkpoint at line "
                           f"{finals[0].lineno} stores it next to `{beta_var}`; the loop is also left through `{loose[0] if loose else '?'}` with {beta_var} < {lit}, so the payload pairs a "
                           f"population distributed at {lit} with the temperature of the last step: resumed with a larger cap, the next evidence increment is computed on a population "
                           "that is not the recorded one (and is not distributed at the recorded temperature)", disc="pairing")
    if not cps:
        ctx.unknown("C11.cut", sample.ident, loc_of(sample, loop_node), "no checkpoint call found in the loop body")
    for i, cp in enumerate(cps):
        disc = "" if i == 0 else f"cp{i}"
        bad = sorted({w for n in _fwd([m for m, lab in g.succ[cp] if lab != "exc"]) for w in _writes(n)})
        # a checkpoint reached through an exceptional edge (a handler / finally): the statement that raised and everything
        # after it in the iteration did not run, so the iteration's writes are only partly done at the checkpoint
        partial = []
        back = _bwd([cp])
        for n in lcfg["body"]:
            for m, lab in g.succ[n]:
                if lab == "exc" and m in back and n not in back:
                    skipped = sorted({w for k in _fwd([n]) if k is not cp for w in _writes(k)})
                    done = sorted({w for k in _bwd([k_ for k_, l_ in g.pred[n] if l_ not in ("exc", "back")]) for w in _writes(k)})
                    if skipped and done:
                        partial.append((n, skipped, done))
        if partial:
            n, skipped, done = partial[0]
            ctx.refute("C11.cut", sample.ident, loc_of(sample, cp.ast),
                       f"the checkpoint call at line {cp.lineno} is reached when the statement at line {n.lineno} raises: by then {done[:2]} of this iteration "
                       f"have run but {skipped[:2]} have not -- the checkpoint pairs the advanced temperature / history with a population from before the step", disc=disc or "exc")
            continue
        ctx.decide(not bad, "C11.cut", sample.ident, loc_of(sample, cp.ast),
                   "the checkpoint call comes after every loop-carried write of its iteration",
                   f"state written after the checkpoint call and before the next iteration: {bad[:3]} (the checkpoint does not describe the state the next iteration starts from)", disc=disc)

    # ---- the preconditioning transform is refitted in every iteration and is not part of the checkpoint: each fit must start from
    #      scratch (a function of its input and the constructor's settings), or a resumed run -- which starts with a new transform -- diverges
    BT = repo.cls("aspire.transforms:BaseTransform")
    uses_fit = [f for f in repo.all_functions() if f.ident.startswith("aspire.samplers") and any(
        isinstance(n, ast.Call) and isinstance(n.func, ast.Attribute) and n.func.attr == "fit" and isinstance(n.func.value, ast.Attribute) and n.func.value.attr == "preconditioning_transform"
        for n in walk_no_nested(f.node))]
    n_fit = 0
    if uses_fit:
        for tc in repo.subclasses(BT, strict=False):
            fm = tc.methods.get("fit")
            if fm is None or not fm.params:
                continue
            n_fit += 1
            me_ = fm.params[0]
            ex_, wr_ = attr_exposed(repo, fm.node.body, me_, tc)
            kept = sorted(ex_ & wr_)
            tainted = set(fm.params[1:])
            for _ in range(3):
                for n in walk_no_nested(fm.node):
                    if isinstance(n, ast.Assign) and any(isinstance(x, ast.Name) and x.id in tainted for x in ast.walk(n.value)):
                        tainted |= {x.id for t in n.targets for x in ast.walk(t) if isinstance(x, ast.Name) and isinstance(x.ctx, ast.Store)}
            bad_ = []
            for a_ in kept:
                for n in walk_no_nested(fm.node):
                    dep = lambda e: any(isinstance(x, ast.Name) and x.id in tainted for x in ast.walk(e))  # noqa: E731
                    if isinstance(n, ast.Assign) and dep(n.value) and any(isinstance(t, ast.Attribute) and isinstance(t.value, ast.Name) and t.value.id == me_ and t.attr == a_
                                                                        for tg in n.targets for t in ast.walk(tg) if isinstance(getattr(t, "ctx", None), ast.Store)):
                        bad_.append((a_, n, "is assigned from the data"))
                    if isinstance(n, ast.AugAssign) and isinstance(n.target, ast.Attribute) and isinstance(n.target.value, ast.Name) and n.target.value.id == me_ and n.target.attr == a_ and dep(n.value):
                        bad_.append((a_, n, "is updated with the data"))
                    if isinstance(n, ast.Call) and isinstance(n.func, ast.Attribute) and isinstance(n.func.value, ast.Attribute) and isinstance(n.func.value.value, ast.Name) \
                            and n.func.value.value.id == me_ and n.func.value.attr == a_ and n.func.attr in ("fit", "partial_fit", "update", "train", "step", "append", "extend", "add") \
                            and any(dep(x) for x in list(n.args) + [k.value for k in n.keywords]):
                        bad_.append((a_, n, f"is trained further with .{n.func.attr}(data)"))
            if bad_:
                a_, n, how = bad_[0]
                ctx.refute("C11.refit", fm.ident, loc_of(fm, n),
                           f"{tc.name}.fit reads self.{a_} before storing it and self.{a_} {how}: what a fit produces depends on the fits before it. The samplers refit the "
                           "preconditioning transform in every iteration and the transform is not in the checkpoint, so a resumed run (new transform, first fit) does not continue "
                           "the uninterrupted one", disc=a_)
            else:
                ctx.prove("C11.refit", fm.ident, loc_of(fm), f"{tc.name}.fit starts from scratch: no attribute is both read before its first store and updated from the data"
                          + (f" (kept between fits but independent of the data: {kept})" if kept else ""))
        ctx.floor("transform fit methods analysed for history-free refitting", n_fit, 5)

    # ---- source dispatch
    brf = base.methods.get("restore_from_checkpoint")
    evb, rb = fold(repo, brf, base, max_depth=1, no_inline={"aspire.samplers.base:Sampler.load_checkpoint_from_file", "aspire.samples:BaseSamples.from_samples"})
    src = T.atom(brf.params[1])
    kinds = {}
    for e in evb.events:
        if e.callee == "builtins.isinstance" or (e.callee == "isinstance"):
            pass
    conds = [s for s in T.subterms(rb) if s and s[0] == "f" and s[1] == "isinstance" and s[2][0] == src]
    names = {c[2][1][1].rsplit(".", 1)[-1] for c in conds if c[2][1][0] == "ref"}
    ctx.decide({"str", "bytes", "dict"} <= names, "C11.src", brf.ident, loc_of(brf),
               "restore_from_checkpoint dispatches on str (file), bytes (pickle) and dict sources",
               f"restore_from_checkpoint only dispatches on {sorted(names)}")
    # ---- priming by resume_from_file and forwarding by sample_posterior
    A = repo.cls("aspire.aspire:Aspire")
    rff = A.methods.get("resume_from_file")
    builder = A.methods.get("_build_aspire_from_file")
    evf, rf = fold(repo, rff, A, max_depth=1, no_inline={builder.ident} if builder else ())
    prim = None
    for (o, a), v in evf.heap.items():
        if a == "_resume_from_default":
            prim = v
    leaves = [l for l in T.phi_leaves(prim)] if prim is not None else []
    from_builder = [l for l in leaves if l[0] == "s" and l[1][0] == "f" and "_build_aspire_from_file" in l[1][1]]
    okp = bool(from_builder)
    # primed exactly when the file held a checkpoint: on the path where the bytes are not None the attribute *is* those bytes
    if okp:
        bt = from_builder[0]
        okp = T.select(prim, ("is", bt, T.NONE), False) == bt
    # the builder reads the bytes at the configured group / dataset
    if okp and builder is not None:
        idx = int(T.const_value(from_builder[0][2]))
        evbld = Evaluator(repo, max_depth=0)
        rbld = T.strip_raise(evbld.run(builder, A))
        elems = [l[1][idx] for l in T.phi_leaves(rbld) if l[0] == "t" and len(l[1]) > idx]
        cpath, cdset = T.atom("checkpoint_path"), T.atom("checkpoint_dset")

        def reads_ckpt(t):
            return any(x[0] == "s" and x[2] == cdset and x[1][0] == "s" and x[1][2] == cpath for x in T.subterms(t))
        okp = bool(elems) and all(reads_ckpt(el) or all(lf == T.NONE or reads_ckpt(lf) for lf in T.phi_leaves(el)) for el in elems) and any(reads_ckpt(el) for el in elems)
    ctx.decide(bool(okp), "C11.prime", rff.ident, loc_of(rff), "resume_from_file primes the instance with the bytes read from <checkpoint_path>/<checkpoint_dset> of the file",
               f"_resume_from_default is set to {T.show(prim)[:120] if prim else 'nothing'} (expected the bytes read from the file's checkpoint group/dataset)")
    sp = A.methods.get("sample_posterior")
    fwd = False
    for n in walk_no_nested(sp.node):
        if isinstance(n, ast.Assign) and isinstance(n.targets[0], ast.Subscript) and isinstance(n.targets[0].slice, ast.Constant) \
                and n.targets[0].slice.value == "resume_from" and isinstance(n.value, ast.Attribute) and n.value.attr == "_resume_from_default":
            fwd = True
    ctx.decide(fwd, "C11.prime", sp.ident, loc_of(sp), "sample_posterior forwards the primed checkpoint as resume_from",
               "sample_posterior never forwards _resume_from_default as resume_from", disc="forward")
    # arguments that the primed route substitutes (sampler name, population size) are not read before the substitution: an option derived from the requested
    # sampler name earlier (the preconditioning default, say) belongs to the placeholder, not to the sampler the resumed run is continued with
    subs = []
    for n in walk_no_nested(sp.node):
        if isinstance(n, ast.Assign) and len(n.targets) == 1 and isinstance(n.targets[0], ast.Name) and n.targets[0].id in sp.params \
                and isinstance(n.value, ast.Attribute) and n.value.attr.startswith("_resume"):
            subs.append(n)
    ctx.floor("arguments substituted on the primed resume route", len(subs), 2)
    for a_ in subs:
        pname = a_.targets[0].id
        # the `if` statement(s) that guard the substitution may read the argument
        guards = [i_ for i_ in walk_no_nested(sp.node) if isinstance(i_, ast.If) and any(a_ is x_ for x_ in ast.walk(i_))]
        allowed = {id(x_) for g_ in guards for x_ in ast.walk(g_.test)}
        allowed |= {id(x_) for c_ in walk_no_nested(sp.node) if isinstance(c_, ast.Call) and isinstance(c_.func, ast.Attribute) and isinstance(c_.func.value, ast.Name)
                    and c_.func.value.id in ("logger", "logging", "warnings") for x_ in ast.walk(c_)}  # a log line derives nothing
        early = [x_ for x_ in walk_no_nested(sp.node) if isinstance(x_, ast.Name) and x_.id == pname and isinstance(x_.ctx, ast.Load) and x_.lineno < a_.lineno and id(x_) not in allowed]
        ctx.decide(not early, "C11.prime", sp.ident, loc_of(sp, early[0] if early else a_), f"`{pname}` is not read before the primed value may replace it",
                   f"`{pname}` is read at line {early[0].lineno if early else '?'}, before line {a_.lineno} replaces it by the value primed by resume_from_file: what is derived there (a default that "
                   "depends on the sampler, say) is the placeholder's, so the resumed run is continued with other settings than the run that wrote the checkpoint", disc=f"early-read|{pname}")
    # value-based: when it is forwarded, with which size and to which sampler
    evp = Evaluator(repo, max_depth=0)
    evp.run(sp, A)
    me = T.atom(sp.params[0])
    kwv = T.atom("**kwargs")

    def flat(conds):
        out = set()
        for c, pol in conds:
            while c[0] == "not":
                c, pol = c[1], not pol
            if c[0] == "and" and pol:
                out |= flat([(x, True) for x in c[1]])
            else:
                out.add((c, pol))
        return out
    has = lambda a: ("f", "builtins.hasattr", (me, T.K(a)), ())  # noqa: E731
    primed = {(("in", T.K("resume_from"), kwv), False), (has("_resume_from_default"), True)}
    sets = [e for e in evp.events if e.callee == "setitem" and e.func is sp and len(e.args) == 3 and e.args[1] == T.K("resume_from")]
    okc = len(sets) == 1 and sets[0].args[2] == ("attr", me, "_resume_from_default") and flat(sets[0].conds) == primed
    ctx.decide(okc, "C11.prime", sp.ident, loc_of(sp, sets[0].node if sets else None),
               "the primed checkpoint is forwarded exactly when the caller passed no resume_from and the instance was primed",
               "the primed checkpoint is forwarded under " + (" and ".join(("" if p_ else "not ") + T.show(c_)[:60] for c_, p_ in sorted(flat(sets[0].conds), key=repr)) if sets else "no condition")
               + ": a resume through the resume-from-file constructor starts from scratch, or overrides the caller's checkpoint", disc="forward|when")
    runs = [e for e in evp.events if e.callee == "method:sample" and e.func is sp]
    if len(runs) != 1:
        ctx.unknown("C11.prime", sp.ident, loc_of(sp), f"expected one sampler.sample call, found {len(runs)}", disc="forward|size")
    else:
        nsv = runs[0].args[1] if len(runs[0].args) > 1 else None
        n_at = T.atom("n_samples")

        def oracle(on, default_size=None):
            default_size = on if default_size is None else default_size

            def o(c):
                if c == ("in", T.K("resume_from"), kwv):
                    return not on
                if c[0] == "f" and c[1] == "builtins.hasattr":
                    return on
                if c[0] == "cmp" and any(x == n_at for x in T.subterms(c)):
                    return default_size if c[1] == "==" else (not default_size)
                return None
            return o
        ok_n = nsv is not None and T.resolve(nsv, oracle(True)) == ("attr", me, "_resume_n_samples") and T.resolve(nsv, oracle(False)) == n_at \
            and T.resolve(nsv, oracle(True, default_size=False)) == n_at and T.resolve(nsv, oracle(False, default_size=True)) == n_at
        ctx.decide(ok_n, "C11.prime", sp.ident, loc_of(sp, runs[0].node), "a primed resume with the default size runs with the checkpointed population size; otherwise the caller's size is used",
                   f"the size handed to the sampler is {T.show(nsv)[:200] if nsv else None}", disc="forward|size")
        kws = dict(runs[0].kwargs).get("**")
        ok_k = kws is not None and sets and any(x_ == sets[0].result for x_ in T.subterms(kws))
        ctx.decide(bool(ok_k), "C11.prime", sp.ident, loc_of(sp, runs[0].node), "the keyword arguments handed to the sampler are built from the primed ones",
                   "the keyword arguments handed to sampler.sample are not derived from the kwargs that received resume_from", disc="forward|kwargs")
    gsc = [e for e in evp.events if e.func is sp and (e.callee.endswith("get_sampler_class") or e.callee.endswith("init_sampler"))]
    s_at = T.atom("sampler")
    want_s = None
    if gsc:
        v0 = gsc[0].args[1] if gsc[0].args[0] == me else gsc[0].args[0]
        def o_s(on):
            return lambda c: (on if (c[0] == "cmp" and c[1] == "==" and any(x == s_at for x in T.subterms(c))) or (c[0] == "f" and c[1] == "builtins.hasattr") or c == ("attr", me, "_resume_sampler_type") else None)
        want_s = T.resolve(v0, o_s(True)) == ("attr", me, "_resume_sampler_type") and T.resolve(v0, o_s(False)) == s_at \
            and all((e.args[1] if e.args[0] == me else e.args[0]) == v0 for e in gsc)
    ctx.decide(bool(want_s) and len(gsc) == 2, "C11.prime", sp.ident, loc_of(sp), "a primed resume left at the default sampler uses the sampler recorded with the checkpoint; class lookup and construction use the same choice",
               "the sampler that continues a primed resume is not (only) the recorded one when the default is left in place", disc="forward|sampler")


def _state_term(ev, f):
    return ev.last_state.env.get("state", T.NONE)


def _dict_keys(ev, ret) -> dict:
    """key -> value of the payload dict returned by build_checkpoint_state."""
    out = {}
    r = T.strip_raise(ret)
    if r[0] == "d":
        for k, v in r[1]:
            if k[0] == "k":
                out[k[1]] = v
    return out


def _extra_keys(repo, c):
    ces = c.resolve("_checkpoint_extra_state")
    if ces is None:
        return {}
    ev, ret = fold(repo, ces, c, max_depth=1)
    return _dict_keys(ev, ret)


def _self_reads(f):
    me = f.params[0]
    return {n.attr for n in walk_no_nested(f.node) if isinstance(n, ast.Attribute) and isinstance(n.value, ast.Name) and n.value.id == me}


def _self_writes(f):
    """self.X = ... or self.X.<...> = ... in f."""
    me = f.params[0]
    out = set()
    for n in walk_no_nested(f.node):
        if isinstance(n, ast.Attribute) and isinstance(n.ctx, ast.Store):
            b = n
            while isinstance(b, ast.Attribute):
                if isinstance(b.value, ast.Name) and b.value.id == me:
                    out.add(b.attr)
                b = b.value
    return out


def _hist_appends(mu):
    for n in walk_no_nested(mu.node):
        if isinstance(n, ast.Call) and isinstance(n.func, ast.Attribute) and n.func.attr == "append":
            r = n.func.value
            if isinstance(r, ast.Attribute) and isinstance(r.value, ast.Attribute) and r.value.attr == "history":
                yield n


def _rooted_in_restored(t, sf):
    H = sf.ev.heap.get((SELF, "history"))
    return any(s == H or (s and s[0] in ("f", "opaque") and "restore_from_checkpoint" in str(s[1])) for s in T.subterms(t))


_B = "src/aspire/samplers/smc/base.py"
_SB = "src/aspire/samplers/base.py"
_A = "src/aspire/aspire.py"
MUTANTS = [
    M("flow preconditioning keeps training the flow of the previous iteration", "src/aspire/transforms.py", "self.flow = self._FlowClass(\n            dims=len(self.parameters),\n            device=self.device,\n            data_transform=self._data_transform,\n            **self.flow_kwargs,\n        )",
      "if self.flow is None:\n            self.flow = self._FlowClass(\n                dims=len(self.parameters),\n                device=self.device,\n                data_transform=self._data_transform,\n                **self.flow_kwargs,\n            )", "C11.refit"),
    M("affine preconditioning averages the new mean with the previous one", "src/aspire/transforms.py", "self._mean = x.mean(0)", "self._mean = x.mean(0) if self._mean is None else 0.5 * (self._mean + x.mean(0))", "C11.refit"),
    M("checkpoint written from an interrupt handler around the mutation step", _B, "samples = self.mutate(samples, beta)\n                if store_sample_history:",
      "try:\n                    samples = self.mutate(samples, beta)\n                except KeyboardInterrupt:\n                    maybe_checkpoint(force=True)\n                    raise\n                if store_sample_history:", "C11.cut"),
    M("min_step not checkpointed", _B, "state = self.build_checkpoint_state(\n                samples, iterations, beta, min_step=min_step\n            )", "state = self.build_checkpoint_state(samples, iterations, beta)", "C11.state"),
    M("min_step not restored", _B, "if resumed and self._restored_min_step is not None:", "if False:", "C11.state"),
    M("beta not in the payload", _B, "meta={\"beta\": beta, \"min_step\": min_step},", "meta={\"min_step\": min_step},", ("C11.state", "C11.keys")),
    M("generator state not saved", _B, "\"rng_state\": rng_state,\n", "", ("C11.state", "C11.keys")),
    M("history not saved", _B, "\"history\": history_copy,\n", "", ("C11.keys", "C11.state")),
    M("generator state not restored", _B, "if rng_state is not None and hasattr(self.rng, \"bit_generator\"):\n            self.rng.bit_generator.state = rng_state", "pass", "C11.state"),
    M("iteration key renamed on the writer side", _SB, "\"iteration\": iteration,", "\"iter\": iteration,", ("C11.keys", "C11.state")),
    M("checkpoint before mutation", _B, "samples = self.mutate(samples, beta)\n                if store_sample_history:\n                    self.history.sample_history.append(samples)\n                maybe_checkpoint()",
      "maybe_checkpoint()\n                samples = self.mutate(samples, beta)\n                if store_sample_history:\n                    self.history.sample_history.append(samples)", "C11.cut"),
    M("preconditioning fit sub-samples with the sampler's generator", _SB, "return self.preconditioning_transform.fit(x)", "if len(x) > 5000:\n            x = x[self.rng.choice(len(x), 5000, replace=False)]\n        return self.preconditioning_transform.fit(x)", "C11.reentry"),
    M("preconditioning default resolved before the primed sampler is substituted", "src/aspire/aspire.py", "if (\n            sampler == \"importance\"\n            and hasattr(self, \"_resume_sampler_type\")", "if preconditioning is None and sampler == \"importance\":\n            preconditioning = \"none\"\n        if (\n            sampler == \"importance\"\n            and hasattr(self, \"_resume_sampler_type\")", "C11.prime"),
    M("per-call generator installed after the checkpoint was restored", _B, "self.target_efficiency = target_efficiency\n", "if checkpoint_callback is not None and hasattr(checkpoint_callback, \"rng\"):\n            self.rng = checkpoint_callback.rng\n        self.target_efficiency = target_efficiency\n", "C11.reentry"),
    M("resumed run re-records the restored population", _B, "if store_sample_history and not resumed:", "if store_sample_history:", "C11.reentry"),
    M("bytes source unsupported", _SB, "elif isinstance(source, bytes):\n            state = pickle.loads(source)\n", "", "C11.src"),
    M("instance primed only when the file has no checkpoint", _A, "if checkpoint_bytes is not None:\n            aspire._resume_from_default = checkpoint_bytes", "if checkpoint_bytes is None:\n            aspire._resume_from_default = checkpoint_bytes", "C11.prime"),
    M("primed checkpoint overrides the caller's", _A, "if \"resume_from\" not in kwargs and hasattr(", "if \"resume_from\" in kwargs and hasattr(", "C11.prime"),
    M("primed size overrides an explicit size", _A, "if hasattr(self, \"_resume_n_samples\") and n_samples == 1000:", "if hasattr(self, \"_resume_n_samples\") or n_samples == 1000:", "C11.prime"),
    M("primed size ignored", _A, "if hasattr(self, \"_resume_n_samples\") and n_samples == 1000:", "if hasattr(self, \"_resume_n_samples\") and n_samples != 1000:", "C11.prime"),
    M("recorded sampler ignored", _A, "sampler = self._resume_sampler_type\n", "pass\n", "C11.prime"),
    M("primed checkpoint not forwarded", _A, "kwargs[\"resume_from\"] = self._resume_from_default", "pass", "C11.prime"),
    M("restored iteration dropped", _B, "samples, beta, iterations = self.restore_from_checkpoint(\n                resume_from\n            )", "samples, beta, _ = self.restore_from_checkpoint(\n                resume_from\n            )\n            iterations = 0", "C11.state"),
]
MUTANTS += [
    M("payload arguments swapped", _B, "samples, iterations, beta, min_step=min_step", "iterations, samples, beta, min_step=min_step", "C11.state"),
    M("stored temperature ignored unless meta is not a dict", _B, "if isinstance(meta, dict):\n            beta = meta.get(\"beta\", None)", "if not isinstance(meta, dict):\n            beta = meta.get(\"beta\", None)", "C11.restore"),
    M("stored temperature overridden by the root default", _B, "if beta is None:\n            beta = state.get(\"beta\", 0.0)", "if beta is not None:\n            beta = state.get(\"beta\", 0.0)", "C11.restore"),
    M("generator state restored only when absent", _B, "if rng_state is not None and hasattr(self.rng, \"bit_generator\"):", "if rng_state is None and hasattr(self.rng, \"bit_generator\"):", "C11.restore"),
    M("extras not merged into the payload", "src/aspire/samplers/base.py", "base_state.update(self._checkpoint_extra_state())\n", "", "C11.keys"),
    M("minipcn sampler drops resume_from", "src/aspire/samplers/smc/minipcn.py", "resume_from=resume_from,\n", "", "C11.src"),
    M("resumed run stops rescaling the minimum step", _B, "                if resumed and self._restored_min_step is not None:\n                    # The adaptive minimum step is rescaled at every\n                    # iteration, so continue from the checkpointed value\n                    min_step = self._restored_min_step\n", "",
      "C11.state", more=[("samples, beta, iterations = self.restore_from_checkpoint(\n                resume_from\n            )", "samples, beta, iterations = self.restore_from_checkpoint(\n                resume_from\n            )\n            if min_step is None:\n                min_step = self._restored_min_step")]),
    M("kernel options restored from the checkpoint", _B, "def restore_from_checkpoint(\n        self, source: str | bytes | dict\n    ) -> tuple[SMCSamples, float, int]:",
      "def _restore_extra_state(self, state: dict) -> None:\n        sampler_kwargs = state.get(\"sampler_kwargs\")\n        if sampler_kwargs is not None:\n            self.sampler_kwargs = dict(sampler_kwargs)\n\n    def restore_from_checkpoint(\n        self, source: str | bytes | dict\n    ) -> tuple[SMCSamples, float, int]:", "C11.state"),
    M("bytes checkpoints treated as paths", "src/aspire/samplers/base.py", "if isinstance(source, str):\n            state = self.load_checkpoint_from_file(source)\n        elif isinstance(source, bytes):\n            state = pickle.loads(source)",
      "if isinstance(source, (str, bytes)):\n            state = self.load_checkpoint_from_file(source)", "C11.src"),
    M("extra sampler state never restored", "src/aspire/samplers/base.py", "self._restore_extra_state(state)\n        return samples, state", "return samples, state", ("C11.src", "C11.state")),
    M("restored iteration read from the wrong key", _B, "iteration = state.get(\"iteration\", 0)", "iteration = state.get(\"iter\", 0)", ("C11.restore", "C11.keys")),
    M("restored beta read from the state root only", _B, "beta = meta.get(\"beta\", None)", "beta = meta.get(\"min_step\", None)", "C11.restore"),
    M("restore rebuilds the stored populations through a conversion", _B, "self.history = copy.deepcopy(state.get(\"history\", SMCHistory()))", "self.history = copy.deepcopy(state.get(\"history\", SMCHistory()))\n        self.history.sample_history = [SMCSamples.from_samples(s_, xp=self.xp, dtype=self.dtype) for s_ in self.history.sample_history]", "C11.restore"),
    M("history default replaces the stored one", _B, "self.history = copy.deepcopy(state.get(\"history\", SMCHistory()))", "self.history = SMCHistory()", "C11.restore"),
    M("bytes source treated as a path", _SB, "if isinstance(source, str):\n            state = self.load_checkpoint_from_file(source)\n        elif isinstance(source, bytes):\n            state = pickle.loads(source)", "if isinstance(source, bytes):\n            state = self.load_checkpoint_from_file(source)\n        elif isinstance(source, str):\n            state = pickle.loads(source)", "C11.src"),
    M("finished test looks at the second recorded temperature", _B, "last_beta = self.history.beta[-1] if self.history.beta else beta", "last_beta = self.history.beta[1] if self.history.beta else beta", "C11.finished"),
    M("finished run iterates again on resume", _B, "if last_beta >= 1.0 or (", "if last_beta > 1.0 or (", "C11.finished"),
    M("enlargement when sizes are equal", _B, "if n_final_samples is not None and len(samples.x) != n_final_samples:", "if n_final_samples is not None and len(samples.x) == n_final_samples:", "C11.idem"),
    M("enlargement guarded by the requested sizes", _B, "if n_final_samples is not None and len(samples.x) != n_final_samples:", "if n_final_samples is not None and n_final_samples != n_samples:", "C11.idem"),
    M("payload metadata defaults to one shared dict that every checkpoint fills", "src/aspire/samplers/base.py", "meta: dict | None = None,\n    ) -> dict:", "meta: dict = {},\n    ) -> dict:", "C11.snapshot",
      more=[("\"meta\": meta or {},", "\"meta\": meta,")]),
    M("history aliased into the checkpoint", _B, "history_copy = copy.deepcopy(self.history)", "history_copy = self.history", "C11.snapshot"),
    M("history shallow-copied into the checkpoint", _B, "history_copy = copy.deepcopy(self.history)", "history_copy = copy.copy(self.history)", "C11.snapshot"),
]
MUTANTS += [
    M("flow written to the checkpoint file once per context", _A, "if self.flow is not None:\n                    # Always store", "if self.flow is not None and not saved_flow:\n                    # Always store", "C11file.flow"),
]
MUTANTS += [
    M("bounds stacked in mapping order", "src/aspire/transforms.py", "[self.prior_bounds[p][0] for p in parameters]", "[v[0] for v in self.prior_bounds.values()]", "C11wire.wire"),
]
MUTANTS += [
    M("resumed run ignores a used-up iteration cap", _B, "if last_beta >= 1.0 or (\n                max_n_steps is not None and iterations >= max_n_steps\n            ):", "if last_beta >= 1.0:", "C11.finished"),
]
MUTANTS += [
    M("an extra named like a base payload entry", _B, "\"sampler_kwargs\": getattr(self, \"sampler_kwargs\", None),\n        }", "\"sampler_kwargs\": getattr(self, \"sampler_kwargs\", None),\n            \"meta\": {\"note\": \"smc\"},\n        }", "C11.keys"),
]
MUTANTS += [
    M("restore resamples the checkpointed population", _B, "samples = SMCSamples.from_samples(\n            samples, xp=self.xp, beta=beta, dtype=self.dtype\n        )\n        return samples, beta, iteration",
      "samples = SMCSamples.from_samples(\n            samples, xp=self.xp, beta=beta, dtype=self.dtype\n        )\n        samples = samples.resample(beta, rng=self.rng)\n        return samples, beta, iteration", "C11.restore"),
]
NEUTRALS = [
    M("final enlargement only after the run reached beta = 1 (repairs the pairing finding)", _B, "if n_final_samples is not None and len(samples.x) != n_final_samples:", "if beta == 1.0 and n_final_samples is not None and len(samples.x) != n_final_samples:"),
    M("payload metadata defaults to an empty dict that is copied before use", "src/aspire/samplers/base.py", "meta: dict | None = None,\n    ) -> dict:", "meta: dict = {},\n    ) -> dict:",
      more=[("\"meta\": meta or {},", "\"meta\": dict(meta),")]),
    __import__("aspire_sa.rules.smcloop", fromlist=["HELPER_NEUTRAL"]).HELPER_NEUTRAL,
    M("flow preconditioning caches the (data-independent) dimension", "src/aspire/transforms.py", "self.flow = self._FlowClass(\n            dims=len(self.parameters),",
      "if getattr(self, \"_dims\", None) is None:\n            self._dims = len(self.parameters)\n        self.flow = self._FlowClass(\n            dims=self._dims,"),
    M("interrupt handler around the mutation step that only logs", _B, "samples = self.mutate(samples, beta)\n                if store_sample_history:",
      "try:\n                    samples = self.mutate(samples, beta)\n                except KeyboardInterrupt:\n                    logger.warning(\"interrupted\")\n                    raise\n                if store_sample_history:"),
    M("payload call with keywords", _B, "state = self.build_checkpoint_state(\n                samples, iterations, beta, min_step=min_step\n            )", "state = self.build_checkpoint_state(\n                samples=samples, iteration=iterations, beta=beta, min_step=min_step\n            )"),
    M("history copied with another helper", _B, "history_copy = copy.deepcopy(self.history)", "history_copy = copy.copy(self.history)\n        history_copy = copy.deepcopy(history_copy)"),
]

# functions the property is anchored in (auto-mutant sweep of the thorough tier)
ANCHORS = [
    'aspire.samplers.smc.base:SMCSampler.sample',
    'aspire.samplers.smc.base:SMCSampler.build_checkpoint_state',
    'aspire.samplers.base:Sampler.build_checkpoint_state',
    'aspire.samplers.smc.base:SMCSampler._checkpoint_extra_state',
    'aspire.samplers.smc.base:SMCSampler.restore_from_checkpoint',
    'aspire.samplers.base:Sampler.restore_from_checkpoint',
    'aspire.aspire:Aspire.resume_from_file',
]
