"""Constant folding of a string-dispatch function on one concrete argument.

`resolve_xp(name)` maps the namespace name a configuration stores (`xp.__name__`) back to a module.  The names a writer
can store form a finite set, so the branch the reader takes for each is decided by folding the function's string
expressions (str methods, comparisons, membership in literal containers) on that constant -- no call into the package,
no import is executed: `import a.b as c` only binds c to the *name* "a.b".

Anything outside the folded subset raises Undecided (the rule then reports UNKNOWN, exit 2).
"""

from __future__ import annotations

import ast


class Undecided(Exception):
    pass


class Module:
    def __init__(self, name):
        self.name = name

    def __repr__(self):
        return f"<module {self.name}>"


STR_METHODS = {"lower", "upper", "strip", "lstrip", "rstrip", "startswith", "endswith", "removeprefix", "removesuffix", "replace", "split", "rsplit", "partition", "rpartition", "casefold", "find", "count"}
_RET = object()


class Fold:
    def __init__(self, fn: ast.FunctionDef, arg):
        self.fn = fn
        self.env = {fn.args.args[0].arg: arg}
        for a, d in zip(reversed(fn.args.args), reversed(fn.args.defaults)):
            if a.arg not in self.env and isinstance(d, ast.Constant):
                self.env[a.arg] = d.value

    def expr(self, e):
        if isinstance(e, ast.Constant):
            return e.value
        if isinstance(e, ast.Name):
            if e.id in self.env:
                return self.env[e.id]
            raise Undecided(f"name `{e.id}`")
        if isinstance(e, (ast.Set, ast.Tuple, ast.List)):
            vals = [self.expr(x) for x in e.elts]
            return set(vals) if isinstance(e, ast.Set) else (tuple(vals) if isinstance(e, ast.Tuple) else vals)
        if isinstance(e, ast.BoolOp):
            r = None
            for v in e.values:
                r = self.expr(v)
                if isinstance(e.op, ast.And) and not r:
                    return r
                if isinstance(e.op, ast.Or) and r:
                    return r
            return r
        if isinstance(e, ast.UnaryOp) and isinstance(e.op, ast.Not):
            return not self.expr(e.operand)
        if isinstance(e, ast.IfExp):
            return self.expr(e.body) if self.expr(e.test) else self.expr(e.orelse)
        if isinstance(e, ast.Compare):
            left = self.expr(e.left)
            for op, c in zip(e.ops, e.comparators):
                right = self.expr(c)
                if isinstance(left, Module) or isinstance(right, Module):
                    raise Undecided("comparison of a module")
                ok = {ast.Eq: lambda a, b: a == b, ast.NotEq: lambda a, b: a != b, ast.In: lambda a, b: a in b, ast.NotIn: lambda a, b: a not in b,
                      ast.Is: lambda a, b: a is b, ast.IsNot: lambda a, b: a is not b}.get(type(op))
                if ok is None:
                    raise Undecided(f"comparison `{ast.unparse(e)[:60]}`")
                if not ok(left, right):
                    return False
                left = right
            return True
        if isinstance(e, ast.Subscript):
            v = self.expr(e.value)
            if isinstance(e.slice, ast.Slice):
                lo = self.expr(e.slice.lower) if e.slice.lower else None
                hi = self.expr(e.slice.upper) if e.slice.upper else None
                return v[lo:hi]
            return v[self.expr(e.slice)]
        if isinstance(e, ast.Call):
            f = e.func
            if isinstance(f, ast.Attribute) and f.attr in STR_METHODS:
                recv = self.expr(f.value)
                if not isinstance(recv, str):
                    raise Undecided(f"`{f.attr}` on a non-string")
                return getattr(recv, f.attr)(*[self.expr(a) for a in e.args])
            if isinstance(f, ast.Name) and f.id in ("str", "len", "bool", "isinstance"):
                if f.id == "isinstance":
                    v = self.expr(e.args[0])
                    t = e.args[1]
                    if isinstance(t, ast.Name) and t.id == "str":
                        return isinstance(v, str)
                    raise Undecided("isinstance")
                return {"str": str, "len": len, "bool": bool}[f.id](*[self.expr(a) for a in e.args])
            if isinstance(f, ast.Attribute) and f.attr == "import_module" and e.args:
                return Module(self.expr(e.args[0]))
            raise Undecided(f"call `{ast.unparse(e)[:60]}`")
        if isinstance(e, ast.JoinedStr):
            raise Undecided("f-string")
        raise Undecided(f"expression `{ast.unparse(e)[:60]}`")

    def block(self, stmts):
        for s in stmts:
            if isinstance(s, ast.Expr):
                if isinstance(s.value, ast.Constant):
                    continue  # docstring
                if isinstance(s.value, ast.Call) and isinstance(s.value.func, ast.Attribute) and isinstance(s.value.func.value, ast.Name) and s.value.func.value.id in ("logger", "logging", "warnings"):
                    continue
                raise Undecided(f"statement `{ast.unparse(s)[:60]}`")
            if isinstance(s, ast.Assign) and len(s.targets) == 1 and isinstance(s.targets[0], ast.Name):
                self.env[s.targets[0].id] = self.expr(s.value)
            elif isinstance(s, ast.If):
                r = self.block(s.body if self.expr(s.test) else s.orelse)
                if r is not None:
                    return r
            elif isinstance(s, ast.Import):
                for a in s.names:
                    self.env[a.asname or a.name.split(".")[0]] = Module(a.name if a.asname else a.name.split(".")[0])
            elif isinstance(s, ast.ImportFrom):
                for a in s.names:
                    self.env[a.asname or a.name] = Module(f"{s.module}.{a.name}")
            elif isinstance(s, ast.Return):
                return (_RET, self.expr(s.value) if s.value is not None else None)
            elif isinstance(s, ast.Try):
                r = self.block(s.body)  # the imports are assumed to succeed (the namespace was in use when the name was written)
                if r is not None:
                    return r
                r = self.block(s.orelse)
                if r is not None:
                    return r
                r = self.block(s.finalbody)
                if r is not None:
                    return r
            elif isinstance(s, ast.Pass):
                continue
            elif isinstance(s, ast.Raise):
                return (_RET, ("raise", ast.unparse(s)[:60]))
            else:
                raise Undecided(f"statement `{ast.unparse(s)[:60]}`")
        return None


def fold(fn: ast.FunctionDef, arg):
    r = Fold(fn, arg).block(fn.body)
    return None if r is None else r[1]
