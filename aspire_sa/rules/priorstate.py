"""Typestate over sample-set terms: does the set carry the log-prior (and
other cached densities) of exactly its own points?

States: SET / UNSET / MAYBE.  Transfer:
  * a constructed object is SET when its tracked ``log_prior`` attribute is the
    value of ``self.log_prior(<that object>)`` (through value-preserving
    conversions), or a caller-supplied value on the path where it is not None;
  * row-aligned derivations keep the state: ``X[idx]``, ``Cls.concatenate([...])``
    (all elements), ``from_samples(X)``;
  * a loop-head variable is SET when its pre-loop value and its body value are
    SET under the coinductive assumption that the head is SET;
  * ``None`` is the neutral element (no object yet).
"""

from __future__ import annotations

from .. import terms as T
from .common import SELF

SET, UNSET, MAYBE = "SET", "UNSET", "MAYBE"


def meet(states):
    states = [s for s in states if s is not None]
    if not states:
        return None
    if all(s == SET for s in states):
        return SET
    if all(s == UNSET for s in states):
        return UNSET
    return MAYBE


def is_call_on(value, method: str, obj) -> bool:
    """value == method:<method>(self, obj) (the evaluator already removed
    value-preserving wrappers)."""
    return value[0] == "f" and value[1] == f"method:{method}" and len(value[2]) == 2 and value[2][0] == SELF and value[2][1] == obj


class PriorState:
    def __init__(self, ev, field_name="log_prior", producer="log_prior"):
        self.ev = ev
        self.field = field_name
        self.producer = producer
        self._assumed = set()
        self.loops = {}
        # objects created inside a loop body live in that body's heap
        self.heap = {}
        for lp in ev.loops:
            for n, a in lp.get("head", {}).items():
                self.loops[a] = (lp, n)
            self.heap.update(lp.get("body_heap", {}))
        self.heap.update(ev.heap)

    def state(self, t, heap=None, conds=()):
        """State of sample-set term *t*; *heap* overrides the final heap for
        the attributes of *t* itself (call-time snapshot)."""
        ev = self.ev
        if t == T.NONE:
            return None
        k = t[0]
        if k == "phi":
            c = t[1]
            return meet([self.state(t[2], None, conds + ((c, True),)), self.state(t[3], None, conds + ((c, False),))])
        if k == "obj" or (t, self.field) in self.heap or (heap and self.field in heap):
            v = (heap or {}).get(self.field) if heap and self.field in heap else self.heap.get((t, self.field))
            if v is None:
                return UNSET if k == "obj" else MAYBE
            return self.value_state(v, t, conds)
        if k == "s":
            return self.state(t[1], None, conds)
        if k == "f":
            name = t[1]
            if name.endswith("concatenate"):
                elems = []
                for a in t[2]:
                    if a[0] in ("l", "t"):
                        elems.extend(a[1])
                return meet([self.state(e, None, conds) for e in elems]) or MAYBE
            if name.endswith("from_samples"):
                src = [a for a in t[2] if a[0] != "ref"]
                return self.state(src[0], None, conds) if src else MAYBE
            return MAYBE
        if k == "a" and t in self.loops:
            if t in self._assumed:
                return SET  # coinductive hypothesis
            lp, n = self.loops[t]
            self._assumed.add(t)
            try:
                pre = lp["pre"].get(n)
                body = lp["body"].get(n)
                parts = []
                if pre is not None:
                    parts.append(self.state(pre, None, conds))
                if body is not None:
                    parts.append(self.state(body, None, conds))
                return meet(parts) or MAYBE
            finally:
                self._assumed.discard(t)
        return MAYBE

    def value_state(self, v, obj, conds):
        if v == T.NONE:
            return UNSET
        if v[0] == "phi":
            c = v[1]
            return meet([self.value_state(v[2], obj, conds + ((c, True),)), self.value_state(v[3], obj, conds + ((c, False),))])
        if is_call_on(v, self.producer, obj):
            return SET
        # caller-supplied value on the path where it is known not to be None
        if v[0] == "a":
            for c, pol in conds:
                if c == ("is", v, T.NONE) and pol is False:
                    return SET
                if c == ("not", ("is", v, T.NONE)) and pol is True:
                    return SET
            return MAYBE
        # row-aligned copy of a parent's field: parent.field[idx] with x == parent.x[idx]
        if v[0] == "s":
            px = self.heap.get((obj, "x"))
            base = v[1]
            if px is not None and px[0] == "s" and px[2] == v[2] and base[0] == "attr" and base[2] == self.field \
                    and px[1] == ("attr", base[1], "x"):
                return self.state(base[1], None, conds)
        if v[0] == "attr" and v[2] == self.field:
            # field copied from another set together with its x
            px = self.heap.get((obj, "x"))
            if px == ("attr", v[1], "x"):
                return self.state(v[1], None, conds)
        return MAYBE
