"""C14 -- a checkpoint file stays self-consistent under any sequence of operations.

One clause is decided: there is no *stale-artifact guard*.  Whenever
sample_posterior is about to run a sampler with a checkpoint file, the flow
and (when requested) the configuration stored in the file are rewritten from
the instance; a skip that depends on what the file already contains is the
defect pattern.  The quantification over operation histories is a state-space
exploration and is not claimed.
"""

from __future__ import annotations

import ast

from .. import AnalysisError
from .. import terms as T
from ..cfg import CFG, calls_in
from ..evalr import Evaluator, Frame, State
from ..model import walk_no_nested
from ..mutants import M
from .common import SELF, loc_of, self_attr

META = {
    "explanation": (
        "In Aspire.sample_posterior, inside the with-block that precedes the sampler call: the call that writes /flow is "
        "guarded only by conditions on the instance (a flow exists; optionally the same-context 'already saved by this "
        "instance' flag), never by the file's prior content, and an existing /flow is deleted first; likewise /aspire_config is "
        "guarded only by the caller's save-config request and deleted before being rewritten, and it is written with the "
        "sampler configuration of the sampler that is about to run. This is the necessary condition that breaks in the "
        "refit-then-sample history; other histories are not explored."
    ),
    "not_decided": "consistency under arbitrary operation sequences (nested contexts, resume then sample with another sampler): needs state-space exploration; "
                   "two further histories are decided by their structural cause (a non-checkpointing sampler swapping /flow under an old checkpoint: C14.nocp; fit rewriting the configuration next to a checkpoint: C14.fit)",
    "assumptions": [],
}


def run(ctx, shared=True):
    """shared=False: C14's own rules only (for properties that borrow them; avoids mutual recursion with C11)."""
    repo = ctx.repo
    A = repo.cls("aspire.aspire:Aspire")
    sp = A.methods["sample_posterior"]
    g = CFG(sp.node)
    smp = [n for n in g.nodes for c in calls_in(n.ast) if isinstance(c.func, ast.Attribute) and c.func.attr == "sample"
           and isinstance(c.func.value, ast.Attribute) and c.func.value.attr == "_sampler"]
    if len(smp) != 1:
        ctx.unknown("C14.flow", sp.ident, loc_of(sp), "sampler call not found")
        return
    S = smp[0]
    withs = [n for n in walk_no_nested(sp.node) if isinstance(n, ast.With) and n.lineno < S.lineno
             and any(isinstance(c, ast.Call) and isinstance(c.func, ast.Attribute) and c.func.attr in ("save_flow", "save_config") for c in ast.walk(n))]
    if not withs:
        ctx.refute("C14.flow", sp.ident, loc_of(sp), "no block writes the flow / configuration to the checkpoint file before the sampler starts")
        return
    W = withs[0]
    handle = W.items[0].optional_vars.id if isinstance(W.items[0].optional_vars, ast.Name) else None
    parents = {ch: p for p in ast.walk(W) for ch in ast.iter_child_nodes(p)}
    fr = Frame(Evaluator(repo), sp, A, 0)

    def guard_terms(node):
        out = []
        cur = node
        while cur is not W:
            p = parents[cur]
            if isinstance(p, ast.If):
                t = fr.eval(p.test, State())
                if cur in p.orelse:
                    from ..evalr import negate
                    t = negate(t)
                out.extend(list(t[1]) if t[0] == "and" else [t])
            cur = p
        return out

    def deleted_before(call, key):
        """a ``del handle[key]`` precedes the call inside its innermost branch."""
        p = parents[call]
        while not isinstance(p, (ast.If, ast.With)):
            p = parents[p]
        body = p.body if call in ast.walk(ast.Module(body=p.body, type_ignores=[])) else p.orelse
        for st in body:
            if st.lineno >= call.lineno:
                break
            for d in ast.walk(st):
                if isinstance(d, ast.Delete):
                    for t in d.targets:
                        if isinstance(t, ast.Subscript) and isinstance(t.value, ast.Name) and t.value.id == handle and isinstance(t.slice, ast.Constant) and t.slice.value == key:
                            return True
        return False

    for attr, key, rule in (("save_flow", "flow", "C14.flow"), ("save_config", "aspire_config", "C14.config")):
        calls = [c for c in ast.walk(W) if isinstance(c, ast.Call) and isinstance(c.func, ast.Attribute) and c.func.attr == attr]
        if not calls:
            ctx.refute(rule, sp.ident, loc_of(sp, W), f"/{key} is not written before the sampler starts")
            continue
        c = calls[0]
        gs = guard_terms(c)
        file_dep = [t for t in gs if any(s == T.atom(handle) for s in T.subterms(t))]
        if attr == "save_flow":
            # a "this context already saved it" flag is stale after a refit inside the context
            file_dep += [t for t in gs if any(s_ and s_[0] == "f" and s_[1] == "method:get" and len(s_[2]) > 1 and s_[2][1] == T.K("saved_flow") for s_ in T.subterms(t))
                         or any(s_ == T.atom("saved_flow") for s_ in T.subterms(t))]
        ctx.decide(not file_dep, rule, sp.ident, loc_of(sp, c),
                   f"writing /{key} does not depend on what the file already contains (guards: {[T.show(t)[:50] for t in gs]})",
                   f"/{key} is only written when {[T.show(t)[:60] for t in file_dep]}: an artifact left in the file by an earlier fit or run is kept, so the "
                   f"file can hold a {key} that does not belong to the checkpoint the sampler is about to write (e.g. refit, then sample)")
        ctx.decide(deleted_before(c, key), rule, sp.ident, loc_of(sp, c), f"an existing /{key} is deleted before it is rewritten",
                   f"/{key} is rewritten without deleting an existing one first (the write raises or is skipped when it exists)", disc="delete")
        if attr == "save_flow":
            ok = isinstance(c.func.value, ast.Name) and c.func.value.id == sp.params[0] and c.args and isinstance(c.args[0], ast.Name) and c.args[0].id == handle
            ctx.decide(ok, rule, sp.ident, loc_of(sp, c), "the flow written is the instance's current flow, into the opened checkpoint file",
                       "save_flow is not called on the instance with the opened checkpoint file", disc="source")
        else:
            kw = {k.arg: k.value for k in c.keywords}
            inc = kw.get("include_sampler_config")
            ok = isinstance(inc, ast.Constant) and inc.value is True
            ctx.decide(ok, rule, sp.ident, loc_of(sp, c), "the configuration written before sampling includes the sampler about to run",
                       "the configuration written before sampling does not include the sampler configuration", disc="sampler")
    # the sampler named in the config is the one about to run
    assigns = [n for n in walk_no_nested(sp.node) if isinstance(n, ast.Assign) and isinstance(n.targets[0], ast.Attribute) and n.targets[0].attr == "_last_sampler_type"]
    # value-based: what is recorded is the sampler that was actually built (after a primed resume substituted the recorded one)
    evt = Evaluator(repo, max_depth=0)
    evt.run(sp, A)
    built = [e for e in evt.events if e.func is sp and e.callee.endswith("Aspire.init_sampler")]
    recorded = [st_ for st_ in evt.stores if st_[0] == T.atom(sp.params[0]) and st_[1] == "_last_sampler_type"]
    same = len(built) == 1 and len(recorded) == 1 and built[0].args and recorded[0][2] == built[0].args[0]
    ok = bool(assigns) and assigns[0].lineno < W.lineno and same
    ctx.decide(ok, "C14.config", sp.ident, loc_of(sp, assigns[0] if assigns else W), "sampler_type is updated to the requested sampler before the configuration is written",
               "the sampler type recorded for the configuration is not (yet) the sampler that was built for this run when the configuration is written: "
               "the file names another sampler than the one whose checkpoint it holds", disc="type")
    # ---- a checkpoint the instance was primed with (resume_from_file) belongs to the flow that was loaded with it: once the run it resumes has been
    #      handed over, or the flow is refitted, it must not be handed to a later sample_posterior call again
    PRIMED = "_resume_from_default"
    drops = []
    for m_ in A.methods.values():
        for n_ in walk_no_nested(m_.node):
            if isinstance(n_, ast.Delete) and any(isinstance(t_, ast.Attribute) and t_.attr == PRIMED for t_ in n_.targets):
                drops.append(m_.name)
            if isinstance(n_, ast.Call) and isinstance(n_.func, ast.Name) and n_.func.id == "delattr" and len(n_.args) == 2 and isinstance(n_.args[1], ast.Constant) and n_.args[1].value == PRIMED:
                drops.append(m_.name)
            if isinstance(n_, ast.Assign) and any(isinstance(t_, ast.Attribute) and t_.attr == PRIMED for t_ in n_.targets) and isinstance(n_.value, ast.Constant) and n_.value.value is None:
                drops.append(m_.name)
            if isinstance(n_, ast.Call) and isinstance(n_.func, ast.Attribute) and n_.func.attr == "pop" and n_.args and isinstance(n_.args[0], ast.Constant) and n_.args[0].value == PRIMED:
                drops.append(m_.name)
    primed_somewhere = any(isinstance(n_, ast.Attribute) and n_.attr == PRIMED and isinstance(n_.ctx, ast.Store) for m_ in A.methods.values() for n_ in ast.walk(m_.node))
    if primed_somewhere:
        okp = any(d_ in ("fit", "sample_posterior", "init_flow") for d_ in drops)
        ctx.decide(okp, "C14.fit", A.methods["fit"].ident if "fit" in A.methods else A.ident, loc_of(A.methods.get("fit", sp)),
                   "the primed checkpoint is dropped when it has been used or when the flow is refitted",
                   f"an instance built by resume_from_file keeps {PRIMED} for good: neither fit() nor sample_posterior() ever clears it, so after resume -> sample_posterior() -> fit(new data) -> "
                   "sample_posterior() the second call is handed the old checkpoint as resume_from; the sampler continues the old population while /flow has just been replaced by the "
                   "refitted flow, and the file pairs that population with a proposal it was not weighted under", disc="primed|0")
    # ---- a sampler that cannot checkpoint: sample_posterior must not swap /flow and /aspire_config under a checkpoint it will not replace
    sup_ifs = [n for n in walk_no_nested(sp.node) if isinstance(n, ast.If) and n.lineno < S.lineno
               and {"checkpoint_file_path", "checkpoint_every"} & {x.value for x in ast.walk(n.test) if isinstance(x, ast.Constant) and isinstance(x.value, str)}
               and any(isinstance(x, ast.Call) and getattr(x.func, "id", getattr(x.func, "attr", None)) in ("signature", "issubset", "getfullargspec") for x in ast.walk(n.test))]
    if not sup_ifs:
        ctx.unknown("C14.nocp", sp.ident, loc_of(sp), "no test of the sampler's checkpoint support found before the pre-sampling write", disc="unsupported")
    else:
        si = sup_ifs[0]
        t_ = si.test
        neg_ = False
        while isinstance(t_, ast.UnaryOp) and isinstance(t_.op, ast.Not):
            t_, neg_ = t_.operand, not neg_
        unsupported, supported = (si.body, si.orelse) if neg_ else (si.orelse, si.body)
        in_supported = any(W is x for b in supported for x in ast.walk(b))

        def drops_checkpoint(stmts):
            return any(isinstance(d, ast.Delete) and any(isinstance(t, ast.Subscript) and isinstance(t.slice, ast.Constant) and t.slice.value == "checkpoint" for t in d.targets)
                       for b in stmts for d in ast.walk(b))
        ctx.decide(in_supported or drops_checkpoint(unsupported) or drops_checkpoint([W]), "C14.nocp", sp.ident, loc_of(sp, W),
                   "the pre-sampling rewrite of /flow and /aspire_config happens only for samplers that go on to write their own checkpoint (or the old checkpoint is removed)",
                   "for a sampler without checkpoint support (the branch that only warns) the block still replaces /flow and /aspire_config while /checkpoint is left in place: "
                   "the file then pairs the new flow and a configuration naming that sampler with the particles an earlier SMC run weighted under the previous flow", disc="unsupported")

        # ---- the window before the first checkpoint: a run that starts a new population (no resume) replaces /flow before it samples and writes its first
        #      checkpoint only at its first cadence iteration; a checkpoint an earlier run left in the file stays there in between, next to the new flow
        ctx.decide(drops_checkpoint([W]), "C14.flow", sp.ident, loc_of(sp, W),
                   "the block that replaces /flow before sampling also removes a checkpoint left by an earlier run",
                   "the block replaces /flow (and the configuration) before the sampler starts and leaves /checkpoint in place: a run that is not a resume and dies before its first "
                   "checkpoint leaves the new flow next to the previous run's population, and resume_from_file continues that population under a proposal it was not weighted under",
                   disc="window")

    from ..report import reuse
    from . import c19
    # ---- fit(): the flow stored in the file is replaced only when the caller asks (overwrite), and a replacement must not
    # leave a checkpoint behind whose particles were weighted under the replaced flow
    from .common import flat_conds
    fit = A.methods["fit"]
    evf = Evaluator(repo, max_depth=0)
    evf.run(fit, A)
    repl = []
    for e in evf.events:
        if e.func is fit and e.callee.endswith("Aspire.save_flow"):
            fc = flat_conds(e.conds)
            if any(c[0] == "in" and c[1] == T.K("flow") and pol for c, pol in fc):
                repl.append((e, fc))
    ctx.floor("flow replacements in fit()", len(repl), 1)
    # fit() also rewrites /aspire_config, with the sampler type the instance used last: next to a checkpoint another sampler wrote, that names the wrong sampler
    for i, e in enumerate(e_ for e_ in evf.events if e_.func is fit and e_.callee.endswith("Aspire.save_config")):
        fc = flat_conds(e.conds)
        looks = any(any(x == T.K("checkpoint") for x in T.subterms(c)) for c, pol in fc)
        ctx.decide(looks, "C14.fit", fit.ident, loc_of(fit, e.node), "fit rewrites the stored configuration only after looking at whether the file holds a checkpoint",
                   "fit(..., checkpoint_path=f) deletes and rewrites /aspire_config without looking at /checkpoint: the configuration it writes carries the sampler type this instance used "
                   "last (or none), so a file holding an SMC checkpoint ends up with a configuration that names another sampler", disc=f"config|{i}")
    for i, (e, fc) in enumerate(repl):
        rest = {(c, pol) for c, pol in fc if not (c[0] == "in" and c[1] == T.K("flow")) and not any(x == T.atom("checkpoint_path") for x in T.subterms(c))}
        ctx.decide(rest == {(T.atom("overwrite"), True)}, "C14.fit", fit.ident, loc_of(fit, e.node), "fit replaces a flow already in the file only when the caller passes overwrite",
                   "fit replaces the flow stored in the file when " + (" and ".join(("" if pol else "not ") + T.show(c)[:60] for c, pol in sorted(rest, key=repr)) or "a checkpoint context is active (no explicit request)")
                   + ", not only on the caller's overwrite: a refit inside an auto-checkpoint context swaps /flow under a checkpoint weighted with the previous flow", disc=f"implicit|{i}")
        # the same branch must also drop / refresh the stored checkpoint
        branch = None
        for n_ in ast.walk(fit.node):
            if isinstance(n_, ast.If) and any(x is e.node for b in n_.body for x in ast.walk(b)):
                branch = n_  # innermost enclosing if (ast.walk is outer-first, so the last hit is the innermost)
        touches = branch is not None and any(isinstance(x, ast.Constant) and x.value == "checkpoint" for b in branch.body for x in ast.walk(b))
        ctx.decide(touches, "C14.fit", fit.ident, loc_of(fit, e.node), "when fit replaces the stored flow it also removes or refreshes the stored checkpoint",
                   "fit(..., overwrite=True) replaces /flow but leaves /checkpoint in place: its particles were weighted under the replaced flow, and resume_from_file "
                   "then continues that population with the new flow as proposal", disc=f"overwrite|{i}")
    from . import c12
    if shared:
        reuse(ctx, lambda c: c12.run(c, shared=False), ("C12.cad",), "C14cad", "cadence rule shared with C12: sample_posterior rewrites /flow and the configuration before sampling, so every run that has a "
              "checkpoint callback must end by writing its own checkpoint -- otherwise the file pairs the new flow with the checkpoint of an earlier run")
    if shared:
        reuse(ctx, lambda c: c12.run(c, shared=False), ("C12.blob",), "C14blob", "blob-writer rule shared with C12: sample_posterior has already replaced /flow when the sampler stores its checkpoint, so a payload that is "
              "not written (or an old one that is kept) pairs the new flow with the particles of an earlier run")
    if shared:
        reuse(ctx, lambda c: c12.run(c, shared=False), ("C12.before",), "C14before", "write-before-sampling rule shared with C12: every run that can write a checkpoint first replaces /flow with the proposal it "
              "weights its particles under; a switch that can turn that write off (the defaults primed by resume_from_file, say) leaves new checkpoints next to the flow of an earlier fit")
    if shared:
        reuse(ctx, lambda c: c12.run(c, shared=False), ("C12.probe",), "C14probe", "probe rule shared with C12: sample_posterior replaces /flow and the configuration whether or not the signature probe "
              "recognises the sampler; a checkpointing sampler the probe does not recognise runs without a file callback, so the file pairs the new flow with the checkpoint an earlier run left")
    from . import c13
    if shared:
        reuse(ctx, c13.run, ("C13.flow", "C13.nomut"), "C14rt", "flow round-trip rules shared with C13: sample_posterior saves the flow again on every call, also the one a resumed instance loaded from the file, "
              "so a flow that does not survive load-then-save (or a second save) unchanged leaves a proposal in the file that is not the one the stored particles were weighted under")
    from . import c11
    if shared:
        reuse(ctx, c11.run, ("C11.prime",), "C14res", "resume-route rule shared with C11: the population a resumed instance continues from is the checkpoint read in the same pass as the flow it loaded, "
              "and it is forwarded exactly when the caller gave none")
    if shared:
        from . import cachecoh
        cachecoh.rule(ctx, "C14.stale", ("aspire.flows",), "the run keeps weighting particles under the flow the cached callable was built from while save_flow() writes the refitted one: "
                      "the checkpoint's log_q values are not those of the /flow stored next to it")
    if shared:
        from . import c04 as _c04
        reuse(ctx, lambda c: _c04.run(c, shared=False), ("C04.wire",), "C14wire", "wiring rule shared with C04: the configuration comes back from the file with its mappings in HDF5 (sorted) key order; transforms that "
              "take bounds in mapping order instead of parameter order are rebuilt with another parameter's bounds after resume_from_file, so the reloaded instance contradicts the checkpoint next to it")
    if shared:
        reuse(ctx, c19.run, ("C19.ac",), "C14ctx", "context rule shared with C19: checkpoint defaults left behind after the with-block make later calls write to the old file")
    cd = A.methods["config_dict"]
    reads = any(isinstance(n, ast.Attribute) and n.attr == "_last_sampler_type" for n in ast.walk(cd.node))
    ctx.decide(reads, "C14.config", cd.ident, loc_of(cd), "config_dict reports the last requested sampler type", "config_dict does not report the sampler type", disc="report")
    # value-based: once a sampler was requested, the dict names it and carries that sampler's configuration
    me = T.atom(cd.params[0])

    def _as(c):
        if c[0] == "f" and c[1] == "builtins.hasattr" and c[2] == (me, T.K("_last_sampler_type")):
            return True
        if c == T.atom("include_sampler_config"):
            return True
        if c[0] == "is" and c[2] == T.NONE and c[1][0] == "f" and "sampler" in c[1][1]:
            return False
        if c[0] == "is" and c[2] == T.NONE and c[1] == ("attr", me, "_sampler"):
            return False
        return None
    evc = Evaluator(repo, max_depth=1, assume=_as)
    rc = T.strip_raise(evc.run(cd, A))
    got = dict(rc[1]) if rc[0] == "d" else {}
    st_ = got.get(T.K("sampler_type"))
    sc_ = got.get(T.K("sampler_config"))
    okv = st_ == ("attr", me, "_last_sampler_type") and sc_ is not None and sc_[0] == "f" and sc_[1].endswith("config_dict") \
        and any(x_ == ("attr", me, "_sampler") for x_ in T.subterms(sc_))
    ctx.decide(okv, "C14.config", cd.ident, loc_of(cd), "after a sampler was requested the configuration holds sampler_type = the last requested sampler and that sampler's own configuration",
               f"with a sampler requested, config_dict gives sampler_type = {T.show(st_)[:60] if st_ else 'missing'}, sampler_config = {T.show(sc_)[:60] if sc_ else 'missing'}: "
               "the stored configuration does not name the sampler that writes the checkpoint", disc="report|value")


_A = "src/aspire/aspire.py"
MUTANTS = [
    M("refit inside a context replaces the stored flow", _A, "checkpoint_save_config = defaults[\"save_config\"]\n        saved_config = (", "checkpoint_save_config = defaults[\"save_config\"]\n            overwrite = overwrite or defaults[\"save_flow\"]\n        saved_config = (", "C14.fit", within="Aspire.fit"),
    M("requested name recorded instead of the sampler built", _A, "self._last_sampler_type = sampler\n", "self._last_sampler_type = requested\n", "C14.config",
      more=[("if (\n            sampler == \"importance\"\n            and hasattr(self, \"_resume_sampler_type\")", "requested = sampler\n        if (\n            sampler == \"importance\"\n            and hasattr(self, \"_resume_sampler_type\")")]),
    M("sampler type only reported before any run", _A, "if hasattr(self, \"_last_sampler_type\"):\n            config[\"sampler_type\"] = self._last_sampler_type", "if not hasattr(self, \"_last_sampler_type\"):\n            config[\"sampler_type\"] = self._last_sampler_type", "C14.config"),
    M("sampler configuration of nobody", _A, "config[\"sampler_config\"] = self.sampler.config_dict(**kwargs)", "config[\"sampler_config\"] = {}", "C14.config"),
    M("flow kept when the file already has one", _A, "if self.flow is not None:\n                    # Always store the flow the sampler is about to use: a\n                    # flow already in the file may come from an earlier fit\n                    if \"flow\" in h5_file:\n                        del h5_file[\"flow\"]\n                    self.save_flow(h5_file)",
      "if self.flow is not None and \"flow\" not in h5_file:\n                    self.save_flow(h5_file)", "C14.flow"),
    M("flow rewritten without deleting", _A, "if \"flow\" in h5_file:\n                        del h5_file[\"flow\"]\n                    self.save_flow(h5_file)\n                    saved_flow = True", "self.save_flow(h5_file)\n                    saved_flow = True", "C14.flow"),
    M("config kept when the file already has one", _A, "if checkpoint_save_config:\n                    if \"aspire_config\" in h5_file:\n                        del h5_file[\"aspire_config\"]\n                    self.save_config(\n                        h5_file,\n                        include_sampler_config=True,\n                        include_sample_calls=False,\n                    )\n                    saved_config = True",
      "if checkpoint_save_config and \"aspire_config\" not in h5_file:\n                    self.save_config(\n                        h5_file,\n                        include_sampler_config=True,\n                        include_sample_calls=False,\n                    )\n                    saved_config = True", "C14.config"),
    M("sampler type recorded after the config is written", _A, "self._last_sampler_type = sampler\n        # Auto-checkpoint", "# Auto-checkpoint", "C14.config",
      more=[("samples = self._sampler.sample(n_samples, **kwargs)", "samples = self._sampler.sample(n_samples, **kwargs)\n        self._last_sampler_type = sampler")]),
    M("config without the sampler", _A, "self.save_config(\n                        h5_file,\n                        include_sampler_config=True,\n                        include_sample_calls=False,\n                    )\n                    saved_config = True", "self.save_config(\n                        h5_file,\n                        include_sampler_config=False,\n                    )\n                    saved_config = True", "C14.config"),
]
MUTANTS += [
    M("loaded flow gets its data transform attached after construction (a re-save writes none)", "src/aspire/flows/torch/flows.py", "config[\"data_transform\"] = data_transform\n", "pass\n", "C14rt",
      more=[("obj = self(**config)\n", "obj = self(**config)\n        if \"data_transform\" in flow_grp:\n            obj.data_transform = data_transform\n")]),
    M("checkpoint of unchanged length not rewritten", "src/aspire/utils.py", "target[dsetname].resize((bdata.size,))\n    target[dsetname][:] = bdata", "target[dsetname].resize((bdata.size,))\n        target[dsetname][:] = bdata", "C14blob"),
    M("flow written once per context", _A, "if self.flow is not None:\n                    # Always store", "if self.flow is not None and not saved_flow:\n                    # Always store", "C14.flow"),
]
MUTANTS += [
    M("bounds stacked in mapping order", "src/aspire/transforms.py", "[self.prior_bounds[p][0] for p in parameters]", "[v[0] for v in self.prior_bounds.values()]", "C14wire.wire"),
]
MUTANTS += [
    M("flowjax proposal keeps a compiled log_prob across refits", "src/aspire/flows/jax/flows.py", "log_prob = self._flow.log_prob(x_prime)\n        x, log_abs_det_jacobian = self.inverse_rescale(x_prime)", "if getattr(self, \"_lp\", None) is None:\n            self._lp = self._flow.log_prob\n        log_prob = self._lp(x_prime)\n        x, log_abs_det_jacobian = self.inverse_rescale(x_prime)", "C14.stale"),
]
NEUTRALS = [
    M("flow existence test mirrored", _A, "if self.flow is not None:\n                    # Always store", "if not (self.flow is None):\n                    # Always store"),
]

# functions the property is anchored in (auto-mutant sweep of the thorough tier)
ANCHORS = [
    'aspire.aspire:Aspire.sample_posterior',
    'aspire.aspire:Aspire.fit',
]

MUTANTS += [
    M("blackjax sample() takes the checkpoint options through **kwargs (front end stops recognising it)", "src/aspire/samplers/smc/blackjax.py", "checkpoint_every: int | None = None,\n        checkpoint_file_path: str | None = None,\n        resume_from: str | bytes | dict | None = None,\n    ):\n        \"\"\"Sample using BlackJAX SMC.",
      "resume_from: str | bytes | dict | None = None,\n        **kwargs,\n    ):\n        \"\"\"Sample using BlackJAX SMC.", "C14probe.probe",
      more=[("checkpoint_every=checkpoint_every,\n            checkpoint_file_path=checkpoint_file_path,\n            resume_from=resume_from,\n        )\n\n    def mutate(self, particles, beta, n_steps=None):\n        \"\"\"Mutate particles using BlackJAX", "resume_from=resume_from,\n            **kwargs,\n        )\n\n    def mutate(self, particles, beta, n_steps=None):\n        \"\"\"Mutate particles using BlackJAX")]),
]
