"""Typestate of the checkpoint dataset inside the blob writer (utils.dump_pickle_to_hdf).

The writer must leave `group[name]` existing, of the new buffer's length and holding the new buffer -- whatever was in
the file before.  "Whatever was there" has four cases: no dataset; a dataset of the same length; a shorter one; a
longer one.  The function body (If / Expr / Assign / Delete / With over a handful of h5py calls) is interpreted once per
case over the abstract state (exists, length relation to the new buffer, holds the new buffer); branch tests on
`name in group` and on the two lengths are decided from the state, anything else makes the rule undecided.

Recognised effects
  group.create_dataset(name, shape=B.shape | (B.size,) | data=B, [maxshape=(None,)] ...)   exists, right length (holds B with data=)
  del group[name]                                                                          absent
  D.resize((B.size,)) | D.resize(B.shape) | D.resize(B.size, axis=0)                       right length, content stale
  D[:] = B | D[...] = B | D[: B.size] = B | D[()] ...                                       holds B when the length is right; raises / leaves a stale suffix otherwise
with D any expression equal (through single-assignment aliases) to group[name] and B the frombuffer(...) local.
"""

from __future__ import annotations

import ast


class Undecided(Exception):
    pass


class Raises(Exception):
    pass


CASES = ("absent", "same-length", "shorter-in-file", "longer-in-file")


def _aliases(fn):
    """single-assignment locals -> defining expression"""
    count, val = {}, {}
    for n in ast.walk(fn):
        if isinstance(n, ast.Assign):
            for t in n.targets:
                for x in ast.walk(t):
                    if isinstance(x, ast.Name) and isinstance(x.ctx, ast.Store):
                        count[x.id] = count.get(x.id, 0) + 1
                        if isinstance(t, ast.Name):
                            val[x.id] = n.value
        elif isinstance(n, (ast.AugAssign, ast.AnnAssign, ast.For, ast.NamedExpr)):
            t = n.target
            for x in ast.walk(t):
                if isinstance(x, ast.Name) and isinstance(x.ctx, ast.Store):
                    count[x.id] = count.get(x.id, 0) + 2
    return {k: v for k, v in val.items() if count.get(k) == 1}


class Blob:
    def __init__(self, finfo):
        self.fn = finfo.node
        self.params = set(finfo.params)
        self.alias = _aliases(self.fn)
        self.buf = next((k for k, v in self.alias.items() if isinstance(v, ast.Call) and (getattr(v.func, "attr", None) or getattr(v.func, "id", "")) == "frombuffer"), None)
        if self.buf is None:
            raise Undecided("no frombuffer(...) local found")
        self.creates = []
        self.has_resize = False
        self.n_effects = 0

    # -------------------------------------------------------------- recognisers
    def _res(self, e):
        """resolve aliases of plain names (not the buffer)"""
        seen = 0
        while isinstance(e, ast.Name) and e.id in self.alias and e.id != self.buf and seen < 8:
            e = self.alias[e.id]
            seen += 1
        return e

    def is_buf(self, e):
        return isinstance(e, ast.Name) and e.id == self.buf

    def is_key(self, e):
        return isinstance(e, ast.Name) and e.id in self.params

    def is_ds(self, e):
        e = self._res(e)
        return isinstance(e, ast.Subscript) and self.is_key(e.slice) and isinstance(e.value, ast.Name)

    def buf_len(self, e):
        """B.size | B.shape[0] | len(B) | B.shape (tuple)"""
        e = self._res(e)
        if isinstance(e, ast.Attribute) and e.attr in ("size", "shape", "nbytes") and self.is_buf(e.value):
            return True
        if isinstance(e, ast.Subscript) and isinstance(e.value, ast.Attribute) and e.value.attr == "shape" and self.is_buf(e.value.value):
            return True
        if isinstance(e, ast.Call) and getattr(e.func, "id", None) == "len" and e.args and self.is_buf(e.args[0]):
            return True
        if isinstance(e, ast.Tuple) and len(e.elts) == 1:
            return self.buf_len(e.elts[0])
        return False

    def ds_len(self, e):
        e = self._res(e)
        if isinstance(e, ast.Attribute) and e.attr in ("size", "shape") and self.is_ds(e.value):
            return True
        if isinstance(e, ast.Subscript) and isinstance(e.value, ast.Attribute) and e.value.attr == "shape" and self.is_ds(e.value.value):
            return True
        if isinstance(e, ast.Call) and getattr(e.func, "id", None) == "len" and e.args and self.is_ds(e.args[0]):
            return True
        return False

    # -------------------------------------------------------------- conditions
    def cond(self, t, st):
        if isinstance(t, ast.BoolOp):
            if isinstance(t.op, ast.And):
                return all(self.cond(v, st) for v in t.values)
            return any(self.cond(v, st) for v in t.values)
        if isinstance(t, ast.UnaryOp) and isinstance(t.op, ast.Not):
            return not self.cond(t.operand, st)
        if isinstance(t, ast.Compare) and len(t.ops) == 1:
            op, a, b = t.ops[0], t.left, t.comparators[0]
            if isinstance(op, (ast.In, ast.NotIn)) and self.is_key(a):
                return st["exists"] == isinstance(op, ast.In)
            rel = None  # length of the new buffer relative to the one in the file: -1 0 +1
            if self.buf_len(a) and self.ds_len(b):
                rel = st["rel"]
            elif self.ds_len(a) and self.buf_len(b):
                rel = None if st["rel"] is None else -st["rel"]
            else:
                raise Undecided(f"branch test `{ast.unparse(t)[:80]}` is not about the dataset's presence or length")
            if not st["exists"]:
                raise Raises(f"`{ast.unparse(t)[:60]}` looks the dataset up while it does not exist")
            if rel is None:
                raise Undecided("length relation unknown")
            return {ast.Eq: rel == 0, ast.NotEq: rel != 0, ast.Gt: rel > 0, ast.GtE: rel >= 0, ast.Lt: rel < 0, ast.LtE: rel <= 0}.get(type(op), None) \
                if type(op) in (ast.Eq, ast.NotEq, ast.Gt, ast.GtE, ast.Lt, ast.LtE) else self._undecided(t)
        raise Undecided(f"branch test `{ast.unparse(t)[:80]}` is not about the dataset's presence or length")

    def _undecided(self, t):
        raise Undecided(f"branch test `{ast.unparse(t)[:80]}`")

    # -------------------------------------------------------------- effects
    def call_effect(self, c, st):
        f = c.func
        name = f.attr if isinstance(f, ast.Attribute) else getattr(f, "id", None)
        if name in ("create_dataset", "require_dataset") and c.args and self.is_key(c.args[0]):
            if name == "require_dataset":
                raise Undecided("require_dataset")
            if st["exists"]:
                raise Raises("create_dataset on a name that already exists")
            kw = {k.arg: k.value for k in c.keywords}
            data = kw.get("data") or (c.args[2] if len(c.args) > 2 else None)
            shape = kw.get("shape") or (c.args[1] if len(c.args) > 1 else None)
            self.creates.append((c, kw))
            self.n_effects += 1
            st["exists"] = True
            st["rel"] = 0 if ((data is not None and self.is_buf(data)) or (shape is not None and self.buf_len(shape))) else None
            st["holds"] = data is not None and self.is_buf(data)
            if st["rel"] is None:
                raise Undecided("dataset created with a shape that is not the buffer's")
            return True
        if name == "resize" and isinstance(f, ast.Attribute) and self.is_ds(f.value):
            if not st["exists"]:
                raise Raises("resize of a dataset that does not exist")
            self.has_resize = True
            self.n_effects += 1
            arg = c.args[0] if c.args else None
            if arg is not None and self.buf_len(arg):
                st["rel"] = 0
                st["holds"] = False
            else:
                raise Undecided("resize to something other than the buffer's length")
            return True
        return False

    def store(self, target, value, st):
        if isinstance(target, ast.Subscript) and self.is_ds(target.value):
            if not st["exists"]:
                raise Raises("store into a dataset that does not exist")
            self.n_effects += 1
            sl = target.slice
            full = (isinstance(sl, ast.Slice) and sl.lower is None and sl.step is None and (sl.upper is None or self.buf_len(sl.upper))) \
                or (isinstance(sl, ast.Constant) and sl.value is Ellipsis)
            if not (full and self.is_buf(value)):
                raise Undecided(f"store `{ast.unparse(target)[:50]} = {ast.unparse(value)[:30]}`")
            if st["rel"] == 0:
                st["holds"] = True
            elif isinstance(sl, ast.Slice) and sl.upper is not None and st["rel"] is not None and st["rel"] < 0:
                st["holds"] = False  # prefix written, stale suffix kept
            else:
                raise Raises("the buffer is stored into a dataset of another length (broadcast error)")
            return True
        return False

    # -------------------------------------------------------------- statements
    def block(self, stmts, st):
        for s in stmts:
            if isinstance(s, ast.If):
                self.block(s.body if self.cond(s.test, st) else s.orelse, st)
            elif isinstance(s, ast.Expr) and isinstance(s.value, ast.Call):
                if not self.call_effect(s.value, st):
                    self._no_effect(s)
            elif isinstance(s, ast.Assign):
                done = False
                for t in s.targets:
                    done = self.store(t, s.value, st) or done
                if not done:
                    if isinstance(s.value, ast.Call) and self.call_effect(s.value, st):
                        continue
                    self._no_effect(s.value)
            elif isinstance(s, ast.Delete):
                for t in s.targets:
                    if isinstance(t, ast.Subscript) and self.is_key(t.slice):
                        if not st["exists"]:
                            raise Raises("del of a dataset that does not exist")
                        self.n_effects += 1
                        st["exists"], st["rel"], st["holds"] = False, None, False
                    else:
                        self._no_effect(t)
            elif isinstance(s, ast.With):
                self.block(s.body, st)
            elif isinstance(s, (ast.Return,)):
                return
            elif isinstance(s, (ast.Pass, ast.Expr)):
                self._no_effect(s)
            else:
                self._no_effect(s)

    def _no_effect(self, node):
        for n in ast.walk(node):
            if isinstance(n, ast.Call):
                nm = n.func.attr if isinstance(n.func, ast.Attribute) else getattr(n.func, "id", None)
                if nm in ("create_dataset", "require_dataset", "resize", "write_direct", "__setitem__", "__delitem__", "pop", "clear"):
                    raise Undecided(f"dataset operation `{ast.unparse(n)[:60]}` in a position the analysis does not model")
            if isinstance(n, (ast.For, ast.While, ast.Try)) and n is not node:
                pass
        if isinstance(node, (ast.For, ast.While, ast.Try)):
            for n in ast.walk(node):
                if isinstance(n, ast.Subscript) and isinstance(n.ctx, (ast.Store, ast.Del)) and self.is_ds(n.value):
                    raise Undecided("dataset written inside a loop / try block")

    def run_case(self, case):
        st = {"exists": case != "absent", "rel": {"absent": None, "same-length": 0, "shorter-in-file": 1, "longer-in-file": -1}[case], "holds": False}
        self.block(self.fn.body, st)
        return st
