"""C15 -- array-namespace and dtype conversions preserve values and precision."""

from __future__ import annotations

import ast

from .. import AnalysisError
from .. import terms as T
from ..evalr import Evaluator
from ..model import walk_no_nested
from ..mutants import M
from .carry import SAMPLES_MOD, CLASSES, CONVERT_METHODS, DICT_METHODS, rebuilds, derives_from
from .common import SELF, fold, loc_of, self_attr

META = {
    "explanation": (
        "Field-carry matrix: for each concrete sample class and each rebuild method resolved for it through the MRO "
        "(to_namespace, to_numpy, from_samples, __getitem__, concatenate, resample, rejection_sample, to_standard_samples), every "
        "constructor field of the result class is passed as keyword or stored on the result before return, derived from the "
        "source's same field, or is covered by a one-line exception in the frozen policy table. For conversions additionally: "
        "xp is the target namespace and the dtype reaching the constructor, and every asarray(..., dtype=), is the result of "
        "convert_dtype / resolve_dtype applied to the source or requested dtype for the target namespace (a dtype that is "
        "computed and then dropped is caught because the field is then not carried). sample_posterior(xp=...) reaches "
        "to_namespace; every sample set constructed or copied inside a sampler passes the sampler's dtype; torch-flow outputs "
        "handed to xp.asarray are produced under no_grad / inference_mode or detached; array_to_namespace is value preserving."
    ),
    "not_decided": "numerical value preservation, every dtype spelling accepted by the helpers",
    "assumptions": ["a constructor field that is not passed takes its declared default (None => namespace default dtype)"],
}

# (method, field) -> reason: deliberate, documented non-carries
POLICY = {
    ("*", "device"): "device is namespace specific and re-inferred from the array when omitted",
    ("__getitem__", "xp"): "same-namespace rebuild: xp is inferred from the selected array",
    ("concatenate", "xp"): "same-namespace rebuild: xp is inferred from the concatenated array",
    ("resample", "xp"): "same-namespace rebuild: xp is inferred from the resampled array",
    ("rejection_sample", "xp"): "same-namespace rebuild: xp is inferred from the selected array",
    ("rejection_sample", "log_q"): "rejection sampling returns an unweighted posterior sample set",
    ("rejection_sample", "log_evidence"): "rejection sampling returns an unweighted posterior sample set",
    ("rejection_sample", "log_evidence_error"): "rejection sampling returns an unweighted posterior sample set",
    ("rejection_sample", "parameters"): "not a conversion or selection API named by C15/C16 (row alignment is checked under C02.rejidx)",
    ("to_standard_samples", "log_q"): "final SMC particles are equally weighted: log_q is dropped by design (pinned by the suite)",
    ("resample", "log_evidence"): "the incremental evidence lives in the history, not on the resampled population",
    ("resample", "log_evidence_error"): "the incremental evidence lives in the history, not on the resampled population",
    ("concatenate", "log_evidence"): "weighted class: recomputed from the concatenated weights (SMCSamples is checked under C16.cat)",
    ("concatenate", "log_evidence_error"): "weighted class: recomputed from the concatenated weights (SMCSamples is checked under C16.cat)",
    ("concatenate", "beta"): "checked under C16.cat",
}
DTYPE_HELPERS = ("convert_dtype", "resolve_dtype")


def policy(method, field):
    return POLICY.get((method, field)) or POLICY.get(("*", field))


def target_xp(rb):
    """Target namespace term of a conversion method."""
    m = rb.method
    if m.name == "to_numpy":
        return ("ref", "array_api_compat.numpy")
    if "xp" in m.params:
        return T.atom("xp")
    return rb.values.get("xp")


def dtype_converted(v, target, sources, has_request=False) -> tuple:
    """Every leaf of the dtype value is convert_dtype/resolve_dtype(<source or
    requested dtype>, target)."""
    leaves = list(T.phi_leaves(v))
    for l in leaves:
        if not (l[0] == "f" and any(h in l[1] for h in DTYPE_HELPERS)):
            return False, f"dtype {T.show(l)[:80]} is not converted for the target namespace"
        args = l[2]
        if len(args) < 2:
            return False, "dtype helper called without a namespace"
        if target is not None and args[1] != target and not (args[1][0] == "ref" and target[0] == "ref" and args[1][1].split(".")[-1] == target[1].split(".")[-1]):
            return False, f"dtype converted for {T.show(args[1])[:60]}, not for the target namespace {T.show(target)[:60]}"
    # which dtype is converted on which path: the requested one when one was requested, else the source's
    src_dtypes = {("attr", s_, "dtype") for s_ in sources}

    def is_request(t):
        return t == T.atom("dtype") or (t[0] == "f" and t[1] == "method:pop" and len(t[2]) >= 2 and t[2][1] == T.K("dtype"))

    def walk(t, requested):  # requested: None unknown / True a dtype was requested on this path / False none was
        if t[0] == "phi":
            c, pol = t[1], True
            if c[0] == "not":
                c, pol = c[1], False
            if c[0] == "is" and c[2] == T.NONE and is_request(c[1]):
                # pol: the true branch is the one where the request is None
                return walk(t[2], (not pol)) or walk(t[3], pol)
            return walk(t[2], requested) or walk(t[3], requested)
        a0 = t[2][0]
        # resolve_dtype names a string / passes an object through; only convert_dtype translates a dtype *object of the source library*.
        # The source's own dtype therefore has to go through convert_dtype -- also when it arrives as the default of the caller's option.
        foreign = a0 in src_dtypes or (a0[0] == "f" and a0[1] == "method:pop" and len(a0[2]) >= 3 and a0[2][2] in src_dtypes)
        if foreign and "convert_dtype" not in t[1]:
            return (f"the source set's dtype object reaches {t[1].rsplit(':', 1)[-1]}(..., target) ({T.show(a0)[:70]}): that helper does not translate a dtype object of another library, "
                    "so converting into a different namespace without an explicit dtype raises (torch.float32 is not a NumPy dtype) -- the source's dtype must go through convert_dtype")
        if is_request(a0):
            if requested is False:
                return f"the requested dtype is converted on the path where none was requested (it is None there): {T.show(t)[:100]}"
            return None
        if a0 in src_dtypes:
            if requested is True or (requested is None and has_request):
                return "a dtype requested by the caller is ignored: the source's dtype is converted instead"
            return None
        return f"the converted dtype {T.show(a0)[:60]} is neither the requested dtype nor the source's"
    msg = walk(v, None if has_request else False)
    if msg:
        return False, msg
    return True, ""


def npscalar_rule(ctx):
    """Arithmetic on namespace arrays must not take a raw NumPy result as an operand: `np.log(n)` is a numpy.float64 scalar, and NumPy's
    promotion rules widen a float32 array combined with it to float64 (a Python float from `math.log` does not).  Accepted: the NumPy value
    wrapped in a namespace conversion (asarray(.., xp) / array_to_namespace / xp.asarray) or converted to a Python number (float(..), .item())."""
    repo = ctx.repo
    n_ops = 0
    bad = []
    for f in repo.all_functions():
        mod = f.ident.split(":")[0]
        if not any(mod.startswith(p) for p in ("aspire.samples", "aspire.samplers", "aspire.utils", "aspire.transforms")) or f.name.startswith("plot"):
            continue
        single = {}
        cnt = {}
        for n in walk_no_nested(f.node):
            if isinstance(n, ast.Assign):
                for t in n.targets:
                    for x in ast.walk(t):
                        if isinstance(x, ast.Name) and isinstance(x.ctx, ast.Store):
                            cnt[x.id] = cnt.get(x.id, 0) + 1
                            if isinstance(t, ast.Name):
                                single[x.id] = n.value
            elif isinstance(n, (ast.AugAssign, ast.For)):
                for x in ast.walk(n.target):
                    if isinstance(x, ast.Name):
                        cnt[x.id] = cnt.get(x.id, 0) + 2

        def raw_np(e):
            if isinstance(e, ast.Name) and cnt.get(e.id) == 1 and e.id in single:
                e = single[e.id]
            if isinstance(e, ast.Call) and isinstance(e.func, ast.Attribute) and isinstance(e.func.value, ast.Name) and e.func.value.id in ("np", "numpy") \
                    and e.func.attr not in ("asarray", "array", "frombuffer", "float32", "float16", "stack", "concatenate", "full", "zeros", "ones", "empty"):
                return e
            return None
        for n in walk_no_nested(f.node):
            ops = []
            if isinstance(n, ast.BinOp):
                ops = [(n.left, n.right), (n.right, n.left)]
            elif isinstance(n, ast.AugAssign):
                ops = [(n.value, n.target)]
            for o, other in ops:
                n_ops += 1
                r = raw_np(o)
                if r is None or isinstance(other, ast.Constant) or raw_np(other) is not None:
                    continue
                # the other side must be able to hold a namespace array: it mentions self / a call / a subscript
                if not any(isinstance(x, (ast.Attribute, ast.Call, ast.Subscript)) for x in ast.walk(other)):
                    continue
                bad.append((f, n, ast.unparse(r)[:40]))
    ctx.count("arithmetic_operands_scanned", n_ops)
    ctx.decide(not bad, "C15.dtype", "package", loc_of(bad[0][0], bad[0][1]) if bad else "src/aspire",
               "no arithmetic on namespace arrays takes a raw NumPy scalar / array as an operand",
               (f"{bad[0][0].ident}: `{bad[0][2]}` is a NumPy value (numpy.float64) used directly as an operand of array arithmetic: under the NumPy namespace a float32 "
                "array combined with it is promoted to float64, so the quantity computed here loses the requested precision width (math.log / float(...) or a namespace conversion keeps it)") if bad else "",
               disc="npscalar")



def a2n_rule(ctx):
    """C15.a2n on its own (shared with C16)."""
    repo = ctx.repo
    # ---- array_to_namespace is value preserving (frozen transparent-wrapper entry)
    B = repo.cls(f"{SAMPLES_MOD}:BaseSamples")
    a2n = B.methods.get("array_to_namespace")
    from ..evalr import TRANSPARENT_REPO_FUNCS
    saved = TRANSPARENT_REPO_FUNCS.pop("aspire.samples:BaseSamples.array_to_namespace", None)
    try:
        ev, ret = fold(repo, a2n, B)
    finally:
        if saved is not None:
            TRANSPARENT_REPO_FUNCS["aspire.samples:BaseSamples.array_to_namespace"] = saved
    ctx.decide(T.strip_raise(ret) == T.atom(a2n.params[1]), "C15.a2n", a2n.ident, loc_of(a2n), "array_to_namespace(x) is a value-preserving conversion of x",
               f"array_to_namespace returns {T.show(ret)[:120]}")
    conv = [e for e in ev.events if e.callee == "aspire.utils:asarray"]
    okd = len(conv) == 1 and conv[0].args[1] == self_attr("xp")
    ctx.decide(okd, "C15.a2n", a2n.ident, loc_of(a2n), "array_to_namespace converts into the set's own namespace", "array_to_namespace does not convert into self.xp", disc="xp")

    # every path converts: no return before (and no condition around) the asarray call.  An array of another library with an equal-looking dtype (a NumPy array in a
    # JAX set: JAX dtypes *are* numpy dtypes) would otherwise stay what it was, and the set holds fields of two namespaces
    early = [n_ for n_ in walk_no_nested(a2n.node) if isinstance(n_, ast.Return) and conv and conv[0].node is not None and n_.lineno < conv[0].node.lineno]
    cond_ = bool(conv) and any(True for _ in conv[0].conds)
    ctx.decide(bool(conv) and not early and not cond_, "C15.a2n", a2n.ident, loc_of(a2n, early[0] if early else None), "every path through array_to_namespace passes through the conversion into self.xp",
               f"array_to_namespace returns at line {early[0].lineno if early else '?'} before the conversion (or converts only under a condition): an array of another library whose dtype compares equal "
               "(a NumPy array handed to a JAX set -- JAX dtypes are numpy dtypes) is stored as it is, so from_dict / the constructor build a set whose fields live in two namespaces",
               disc="always")
    # the device is applied by safe_to_device (which leaves NumPy / JAX alone), never handed to asarray: a conversion forwards the *source* set's device, and
    # numpy.asarray / jax.numpy.asarray reject a torch.device
    dev_kw = [n_ for n_ in walk_no_nested(a2n.node) if (isinstance(n_, ast.keyword) and n_.arg == "device" and isinstance(n_.value, ast.Attribute))
              or (isinstance(n_, ast.Subscript) and isinstance(n_.ctx, ast.Store) and isinstance(n_.slice, ast.Constant) and n_.slice.value == "device")]
    moves = any(isinstance(n_, ast.Call) and getattr(n_.func, "id", getattr(n_.func, "attr", None)) == "safe_to_device" for n_ in walk_no_nested(a2n.node))
    ctx.decide(not dev_kw and moves, "C15.a2n", a2n.ident, loc_of(a2n, dev_kw[0] if dev_kw else None), "array_to_namespace moves arrays with safe_to_device and passes no device to asarray",
               "array_to_namespace hands the set's device to asarray (or no longer uses safe_to_device): to_namespace / from_samples forward the source set's device, so a PyTorch set converted "
               "to NumPy or JAX passes torch.device('cpu') to numpy.asarray / jnp.asarray, which raises", disc="device")

def run(ctx):
    repo = ctx.repo
    rbs = rebuilds(repo)
    ctx.count("rebuild_methods_folded", len(rbs))
    seen = 0
    for rb in rbs:
        C, m, R = rb.cls, rb.method, rb.result_cls
        if m.name in DICT_METHODS:
            continue
        seen += 1
        construct = f"{C.name}.{m.name}"
        loc = loc_of(m, rb.node)
        convert = m.name in CONVERT_METHODS
        tgt = target_xp(rb) if convert else None
        # fields of the *source* class that the result class can hold
        for f in R.init_fields():
            v = rb.values.get(f.name)
            why = policy(m.name, f.name)
            if f.name == "xp" and convert:
                if m.name == "from_samples":
                    ok = v is not None and v[0] == "f" and v[1] == "method:pop" and v[2][1] == T.K("xp")
                else:
                    ok = v is not None and (v == tgt or (v[0] == "ref" and tgt[0] == "ref" and v[1].split(".")[-1] == tgt[1].split(".")[-1]))
                    if v is None:
                        # accepted idiom: the arrays handed to the constructor were already
                        # converted to the target namespace in this method (xp is then inferred)
                        conv = [e for e in rb.ev.events if e.func is m and e.args and e.args[0] == self_attr("x") and (
                            (m.name == "to_numpy" and e.callee == "aspire.utils:to_numpy")
                            or (e.callee == "aspire.utils:asarray" and len(e.args) > 1 and e.args[1] == tgt))]
                        ok = bool(conv)
                ctx.decide(ok, "C15.xp", construct, loc, "the result is built in the target namespace (xp passed to the constructor)",
                           f"the constructor does not receive the target namespace (xp={T.show(v)[:60] if v else 'omitted: inferred from the source array'}): "
                           "the result stays in the source namespace or the conversion raises", disc="xp")
                continue
            if f.name == "dtype" and convert:
                if v is None:
                    ctx.refute("C15.dtype", construct, loc,
                               "dtype is not passed to the constructor: the result falls back to the target namespace's default dtype, so float32 becomes float64 "
                               "(a converted dtype may be computed in the method, but it never reaches the result)", disc="dtype")
                else:
                    has_req = "dtype" in m.params or any(e.callee == "method:pop" and len(e.args) >= 2 and e.args[1] == T.K("dtype") for e in rb.ev.events if e.func is m)
                    ok, msg = dtype_converted(v, tgt, rb.sources, has_req)
                    ctx.decide(ok, "C15.dtype", construct, loc, "dtype handed to the constructor is converted for the target namespace", msg, disc="dtype")
                continue
            if v is None and rb.splat is None:
                if f.name in [x.name for x in C.init_fields()] or f.name in ("dtype",):
                    if why:
                        ctx.prove("C15.carry", construct, loc, f"{f.name} not carried -- policy: {why}", disc=f.name, trivial=True)
                    else:
                        ctx.refute("C15.carry", construct, loc,
                                   f"{f.name} of the source set is dropped: the {R.name} result takes the default ({'namespace default precision' if f.name == 'dtype' else 'None'})", disc=f.name)
                continue
            if v is None:
                # **kwargs may supply anything, but from_samples' contract is to copy the arrays and names of `samples`
                if m.name == "from_samples" and (f.per_sample or f.name in ("x", "parameters")) and f.name in [x.name for x in repo.cls(f"{SAMPLES_MOD}:BaseSamples").init_fields()]:
                    ctx.refute("C15.carry", construct, loc, f"{f.name} of the source set is not handed to the constructor (only a caller-supplied keyword could fill it): "
                               f"the converted {R.name} loses it", disc=f.name)
                continue
            if why:
                ctx.prove("C15.carry", construct, loc, f"{f.name} filled ({T.show(v)[:40]}); policy would allow dropping it", disc=f.name, trivial=True)
                continue
            srcs = rb.sources
            okv = derives_from(v, srcs, f.name, allow_none=(m.name == "concatenate")) or (m.name == "resample" and f.name == "beta" and v == T.atom("beta"))
            ctx.decide(okv, "C15.carry", construct, loc, f"{f.name} carried from the source's {f.name}",
                       f"{f.name} of the result is {T.show(v)[:100]}, which is not the source's {f.name}", disc=f.name)
        # asarray calls inside conversions must not be handed the source-namespace dtype object
        if convert or m.name == "to_namespace":
            for e in rb.ev.events:
                if e.callee == "aspire.utils:asarray" and e.func is m:
                    kw = dict(e.kwargs)
                    dt = kw.get("dtype")
                    if dt is not None and dt == self_attr("dtype"):
                        ctx.refute("C15.asarray", construct, loc_of(m, e.node),
                                   "asarray(..., target_xp, dtype=self.dtype) hands the *source* namespace's dtype object to the target namespace "
                                   "(numpy dtype -> torch raises TypeError; width is not converted)", disc="asarray")
                        break
    ctx.floor("rebuild methods analysed", seen, 18)
    npscalar_rule(ctx)

    a2n_rule(ctx)
    # ---- NumPy -> PyTorch succeeds for every layout.  Frozen API fact: torch.asarray / as_tensor / from_numpy raise ValueError for a NumPy array with a negative
    #      stride (what a reversed selection s[::-1] of a NumPy sample set holds).  The conversion helper hands PyTorch a compact copy of such an array.
    try:
        asf = repo.func("aspire.utils:asarray")
    except Exception:  # noqa: BLE001
        asf = None
    if asf is None:
        ctx.unknown("C15.helpers", "aspire.utils:asarray", "src/aspire/utils.py", "the conversion helper asarray was not found", disc="negative-strides")
    else:
        handled = False
        for n_ in walk_no_nested(asf.node):
            if isinstance(n_, ast.If) and any(isinstance(x_, ast.Call) and getattr(x_.func, "id", getattr(x_.func, "attr", None)) == "is_torch_namespace" for x_ in ast.walk(n_.test)):
                mentions_layout = any(isinstance(x_, ast.Attribute) and x_.attr in ("strides", "flags") for x_ in ast.walk(n_.test))
                compacts = any(isinstance(x_, ast.Call) and getattr(x_.func, "attr", getattr(x_.func, "id", None)) in ("copy", "ascontiguousarray", "array") for b_ in n_.body for x_ in ast.walk(b_))
                if compacts and (mentions_layout or any(isinstance(x_, ast.Call) and getattr(x_.func, "id", getattr(x_.func, "attr", None)) in ("is_numpy_array", "isinstance") for x_ in ast.walk(n_.test))):
                    handled = True
        ctx.decide(handled, "C15.helpers", asf.ident, loc_of(asf), "a NumPy array is handed to PyTorch as a compact copy when its layout needs it (negative strides)",
                   "asarray() passes a NumPy array to torch.asarray as it is: PyTorch raises ValueError for arrays with a negative stride, so a NumPy sample set obtained by a reversed selection "
                   "(s[::-1]) cannot be converted to PyTorch although every other set can", disc="negative-strides")
    # ---- a conversion must succeed for every ordered pair: no helper turns a library's warnings into errors.  Frozen API fact: torch.as_tensor / torch.asarray
    #      of a read-only NumPy array (NumPy's view of a JAX buffer is one) emits UserWarning("The given NumPy array is not writable ...") and converts; JAX emits
    #      UserWarning when it truncates float64 without x64.  simplefilter("error") around the conversion makes those ordered pairs raise.
    esc = []
    for f_ in repo.all_functions():
        if f_.ident.split(":")[0] not in ("aspire.utils", "aspire.samples"):
            continue  # the conversion layer
        for n_ in walk_no_nested(f_.node):
            if isinstance(n_, ast.Call) and isinstance(n_.func, ast.Attribute) and n_.func.attr in ("simplefilter", "filterwarnings") and n_.args \
                    and isinstance(n_.args[0], ast.Constant) and n_.args[0].value == "error":
                esc.append((f_, n_))
    ctx.decide(not esc, "C15.helpers", "package", loc_of(esc[0][0], esc[0][1]) if esc else "src/aspire",
               "no function of the conversion layer (aspire.utils, aspire.samples) escalates warnings to errors",
               (f"{esc[0][0].ident} runs `{ast.unparse(esc[0][1])[:60]}`: inside that block a library warning becomes an exception -- PyTorch warns (UserWarning) when it is handed a read-only NumPy "
                "array, which is what NumPy's view of a JAX buffer is, so a proposal drawn with flowjax and converted to torch raises instead of converting") if esc else "", disc="warnings-as-errors")
    # ---- conversion helpers (entries of the frozen transparent-wrapper table) are value preserving
    from ..evalr import TRANSPARENT_REPO_FUNCS as TRF
    for name in ("asarray", "to_numpy", "safe_to_device", "copy_array"):
        f = repo.func(f"aspire.utils:{name}")
        saved_all = dict(TRF)
        TRF.clear()
        try:
            evh = Evaluator(repo, max_depth=1)
            rh = T.strip_raise(evh.run(f, None))
        finally:
            TRF.update(saved_all)
        xin = T.atom(f.params[0])
        leaves = list(T.phi_leaves(rh))
        def _same_values(t):
            # x itself, or x through layout-only methods (detach / contiguous / clone keep every value)
            while t and t[0] == "f" and t[1] in ("method:detach", "method:contiguous", "method:clone") and t[2]:
                t = t[2][0]
            return t == xin
        okh = all(_same_values(l) or (l[0] == "f" and l[1].endswith("from_dlpack") and any(_same_values(a_) for a_ in l[2])) for l in leaves)
        ctx.decide(okh, "C15.helpers", f.ident, loc_of(f), f"{name}(x, ...) returns x converted (value preserving) on every path",
                   f"{name} returns {T.show(rh)[:160]}, which is not a conversion of its first argument on every path", disc="value")
        if name == "asarray":
            rd = [e for e in evh.events if e.callee == "aspire.utils:resolve_dtype"]
            okd = len(rd) >= 1 and all(e.args and e.args[0] == T.atom("dtype") and dict(e.kwargs).get("xp", e.args[1] if len(e.args) > 1 else None) == T.atom("xp")
                                       and any((c == ("is", T.atom("dtype"), T.NONE) and not pol) or (c == ("not", ("is", T.atom("dtype"), T.NONE)) and pol) for c, pol in e.conds) for e in rd)
            conv = [e for e in evh.events if e.callee == "xp.asarray"]
            okc = len(conv) == 1 and conv[0].args[0] == xin and any(r_.result in set(T.subterms(v)) for r_ in rd for _, v in conv[0].kwargs)
            tos = [e for e in evh.events if e.callee == "method:to"]
            dl = [e for e in evh.events if e.callee.endswith("from_dlpack")]
            okt = (not dl) or (bool(tos) and all(any(r_.result == a for r_ in rd) for e in tos for a in e.args[1:]))
            ctx.decide(okd and okc and okt, "C15.helpers", f.ident, loc_of(f), "a requested dtype is resolved for the target namespace and applied on both conversion paths",
                       "asarray does not apply the requested dtype, resolved for the target namespace, on every conversion path (plain xp.asarray and the JAX->torch DLPack route)", disc="dtype")

    # ---- zero-copy hand-over (DLPack): the importer must accept every layout the exporter can produce.  Frozen API table, one line each:
    #      JAX arrays are always compact -> any importer takes them; torch tensors may be strided views (row selection, `x[:, 0]`, `x[::2]`
    #      -- BaseSamples.__getitem__ produces them) and JAX's importer rejects non-compact strides -> a torch source needs .contiguous() / .clone()
    n_dl = 0
    for f_ in repo.all_functions():
        par_ = None
        for c_ in walk_no_nested(f_.node):
            if not (isinstance(c_, ast.Call) and ((isinstance(c_.func, ast.Attribute) and c_.func.attr == "from_dlpack") or getattr(c_.func, "id", None) == "from_dlpack") and c_.args):
                continue
            n_dl += 1
            if par_ is None:
                par_ = {ch: p_ for p_ in ast.walk(f_.node) for ch in ast.iter_child_nodes(p_)}
            tests, cur = [], c_
            while cur in par_:
                prev, cur = cur, par_[cur]
                if isinstance(cur, ast.If) and prev in cur.body:
                    tests.append(cur.test)
            names = {getattr(x.func, "id", getattr(x.func, "attr", None)) for t_ in tests for x in ast.walk(t_) if isinstance(x, ast.Call)}
            src_txt = ast.unparse(c_.args[0])
            compact = any(isinstance(x, ast.Call) and isinstance(x.func, ast.Attribute) and x.func.attr in ("contiguous", "clone", "copy") for x in ast.walk(c_.args[0]))
            if "is_jax_array" in names and "is_torch_array" not in names:
                ctx.prove("C15.helpers", f_.ident, loc_of(f_, c_), "DLPack hand-over of a JAX array (always compact): every importer accepts it", disc=f"dlpack|{n_dl}")
            elif "is_torch_array" in names:
                ctx.decide(compact, "C15.helpers", f_.ident, loc_of(f_, c_), "DLPack hand-over of a torch tensor made contiguous first",
                           f"from_dlpack({src_txt[:40]}) imports a torch tensor as it is: tensors that are strided views (a thinned chain `x[::2]`, a column `x[:, 0]`, a row selection) are exported "
                           "with their real strides and JAX's importer rejects non-compact layouts -- the conversion of such a sample set raises, where xp.asarray() copied and accepted any layout",
                           disc=f"dlpack|{n_dl}")
            else:
                ctx.unknown("C15.helpers", f_.ident, loc_of(f_, c_), f"from_dlpack({src_txt[:40]}): the library of the source array is not established by the enclosing tests", disc=f"dlpack|{n_dl}")
    ctx.count("dlpack_hand_overs", n_dl)

    # ---- every transform the front end or a sampler builds for itself is built in that object's dtype: a transform without one takes the namespace default
    #      (float32 under torch), and fit_preconditioning_transform casts the population to the transform's dtype before the kernel sees it
    n_tc = 0
    for f_ in repo.all_functions():
        mod_ = f_.ident.split(":")[0]
        if not (mod_.startswith("aspire.samplers") or mod_ == "aspire.aspire") or f_.cls is None:
            continue
        for n_ in walk_no_nested(f_.node):
            if isinstance(n_, ast.Call) and isinstance(n_.func, ast.Name) and n_.func.id.endswith("Transform") and n_.func.id[0].isupper():
                n_tc += 1
                has = any(k.arg == "dtype" for k in n_.keywords) or any(k.arg is None for k in n_.keywords)
                ctx.decide(has, "C15.pop", f_.ident, loc_of(f_, n_), f"{n_.func.id}(...) is built with the object's dtype",
                           f"{n_.func.id}(...) is built without a dtype: under torch it takes the default float32, and a sampler built for float64 then hands its populations to the kernel "
                           "rounded to float32 (fit_preconditioning_transform casts to the transform's dtype); the populations it builds from the kernel's state keep only single precision",
                           disc=f"transform-dtype|{n_tc}")
    ctx.count("transform_constructions_in_front_end_and_samplers", n_tc)
    # ---- buffers a sampler allocates in the run's namespace carry the run's dtype: xp.empty / zeros / ones / full without one give the namespace default,
    #      and an indexed update (x[i] = y, x.at[i].set(y)) keeps the buffer's dtype, so a population collected in such a buffer is rounded on the way in
    def _holds_population(fn_, alloc_):
        """is the allocated buffer filled by indexed updates or handed to a sample-set constructor? (a scratch array that is only read is not judged)"""
        tgt = None
        for a_ in walk_no_nested(fn_.node):
            if isinstance(a_, ast.Assign) and a_.value is alloc_ and len(a_.targets) == 1 and isinstance(a_.targets[0], ast.Name):
                tgt = a_.targets[0].id
        if tgt is None:
            return True  # used in place (an argument, a return value): judged
        for u_ in walk_no_nested(fn_.node):
            if isinstance(u_, ast.Call):
                nm_ = getattr(u_.func, "id", getattr(u_.func, "attr", None))
                args_ = list(u_.args) + [k.value for k in u_.keywords]
                if nm_ in ("update_at_indices",) + tuple(CLASSES) and any(isinstance(x_, ast.Name) and x_.id == tgt for x_ in args_):
                    return True
            if isinstance(u_, ast.Subscript) and isinstance(u_.ctx, ast.Store) and isinstance(u_.value, ast.Name) and u_.value.id == tgt:
                return True
            if isinstance(u_, ast.Attribute) and u_.attr == "at" and isinstance(u_.value, ast.Name) and u_.value.id == tgt:
                return True
            if isinstance(u_, ast.Return) and u_.value is not None and any(isinstance(x_, ast.Name) and x_.id == tgt for x_ in ast.walk(u_.value)):
                return True
        return False
    n_al = 0
    bad_al = []
    for f_ in repo.all_functions():
        mod_ = f_.ident.split(":")[0]
        if not mod_.startswith("aspire.samplers") or f_.cls is None:
            continue
        for n_ in walk_no_nested(f_.node):
            if (isinstance(n_, ast.Call) and isinstance(n_.func, ast.Attribute) and n_.func.attr in ("empty", "zeros", "ones", "full")
                    and isinstance(n_.func.value, ast.Attribute) and n_.func.value.attr == "xp"):
                n_al += 1
                if not any(k.arg == "dtype" or k.arg is None for k in n_.keywords) and _holds_population(f_, n_):
                    bad_al.append((f_, n_))
    for f_, n_ in bad_al:
        ctx.refute("C15.pop", f_.ident, loc_of(f_, n_), f"{ast.unparse(n_)[:60]} allocates a buffer in the namespace's default dtype: what is written into it (indexed update) is rounded to that "
                   "dtype, so a population collected in it no longer has the precision the sampler was built for, whatever dtype the sample set is given afterwards", disc=f"alloc|{n_.func.attr}")
    if not bad_al:
        ctx.prove("C15.pop", "aspire.samplers", "src/aspire/samplers", f"no sampler allocates a run-namespace buffer without a dtype ({n_al} allocation sites)", disc="alloc")
    ctx.count("run_namespace_buffers_in_samplers", n_al)
    # ---- samplers do not write in place into arrays they were handed: a proposal output converted without a copy can be a read-only view of a buffer
    #      of another library (NumPy view of a JAX array), which an in-place update cannot modify
    from ..report import reuse as _reuse
    from . import c10 as _c10
    _reuse(ctx, lambda c: _c10.own_rule(c, only_module="aspire.samplers"), ("C10.own",), "C15own",
           "ownership rule shared with C10: update_at_indices assigns in place and only falls back for TypeError; a NumPy view of a JAX proposal output is read-only and raises ValueError, "
           "so that back end / namespace pair can no longer be consumed")
    # ---- output namespace option
    A = repo.cls("aspire.aspire:Aspire")
    sp = A.methods["sample_posterior"]
    routed = False
    for n in walk_no_nested(sp.node):
        if isinstance(n, ast.If) and isinstance(n.test, ast.Compare) and isinstance(n.test.left, ast.Name) and n.test.left.id == "xp":
            for c in ast.walk(n):
                if isinstance(c, ast.Call) and isinstance(c.func, ast.Attribute) and c.func.attr == "to_namespace" and c.args and isinstance(c.args[0], ast.Name) and c.args[0].id == "xp":
                    routed = True
    # a dtype handed to a namespace conversion from outside the sample classes is a dtype *of the target namespace*: the conversion only
    # resolve_dtype()s it, which names strings but does not translate a dtype object of another library (convert_dtype does)
    n_tn = 0
    for f_ in repo.all_functions():
        for c_ in walk_no_nested(f_.node):
            if not (isinstance(c_, ast.Call) and isinstance(c_.func, ast.Attribute) and c_.func.attr == "to_namespace" and c_.args):
                continue
            n_tn += 1
            dv = next((k.value for k in c_.keywords if k.arg == "dtype"), c_.args[1] if len(c_.args) > 1 else None)
            if dv is None or (isinstance(dv, ast.Constant) and (dv.value is None or isinstance(dv.value, str))):
                continue
            tgt_txt = ast.unparse(c_.args[0])
            conv = isinstance(dv, ast.Call) and (getattr(dv.func, "id", None) or getattr(dv.func, "attr", None)) == "convert_dtype" and len(dv.args) >= 2 and ast.unparse(dv.args[1]) == tgt_txt
            # a method of the sample classes passing its own `dtype` parameter on to the conversion it extends is the same request, not a new one
            passthrough = isinstance(dv, ast.Name) and dv.id in f_.params and f_.name == "to_namespace"
            ctx.decide(conv or passthrough, "C15.route", f_.ident, loc_of(f_, c_),
                       "the dtype handed to to_namespace() was converted for the target namespace",
                       f"to_namespace({tgt_txt}, dtype={ast.unparse(dv)[:40]}) hands a dtype configured for the instance's own namespace to a conversion into another one: "
                       "resolve_dtype() does not translate a dtype object of a foreign library (torch.float64 into NumPy, numpy.dtype into torch), so the conversion raises or "
                       "builds arrays of the wrong type for those ordered pairs -- use convert_dtype(dtype, target) or pass nothing", disc=f"dtype|{n_tn}")
    ctx.count("to_namespace_call_sites", n_tn)
    ctx.decide(routed, "C15.route", sp.ident, loc_of(sp), "sample_posterior(xp=...) converts the result with to_namespace(xp)",
               "sample_posterior ignores its xp option")

    # ---- populations built inside samplers carry the sampler's dtype
    base = repo.cls("aspire.samplers.base:Sampler")
    n_sites = 0
    for c in repo.subclasses(base):
        for m in c.methods.values():
            sites = []
            for n in walk_no_nested(m.node):
                if isinstance(n, ast.Call):
                    fn = n.func
                    if (isinstance(fn, ast.Name) and fn.id in CLASSES) or (isinstance(fn, ast.Attribute) and fn.attr == "from_samples"):
                        sites.append(n)
            if not sites:
                continue
            evm = Evaluator(repo, max_depth=0, assume=lambda cnd: None)
            try:
                evm.run(m, c)
            except Exception:
                evm = None
            for n in sites:
                n_sites += 1
                name = n.func.id if isinstance(n.func, ast.Name) else n.func.attr
                val = None
                if evm is not None:
                    for e in evm.events:
                        if e.node is n:
                            val = dict(e.kwargs).get("dtype")
                ok = val == self_attr("dtype")
                if val is None:
                    kw = {k.arg: k.value for k in n.keywords}
                    d = kw.get("dtype")
                    ok = d is not None and isinstance(d, ast.Attribute) and d.attr == "dtype" and isinstance(d.value, ast.Name) and d.value.id == m.params[0]
                ctx.decide(ok, "C15.pop", f"{m.ident}", loc_of(m, n),
                           f"{name}(...) receives the sampler's dtype",
                           f"{name}(...) at line {n.lineno} is built without the sampler's dtype: a precision requested by the user is not the precision of this population",
                           disc=f"{name}#{_rank(m, n)}")
    ctx.floor("sample-set constructions inside samplers", n_sites, 12)

    # ---- torch flow outputs can be consumed in any namespace
    try:
        Z = repo.cls("aspire.flows.torch.flows:ZukoFlow")
    except AnalysisError:
        Z = None
    if Z is not None:
        n_m = 0
        for name in ("sample", "sample_and_log_prob", "log_prob", "forward", "inverse"):
            m = Z.methods.get(name)
            if m is None:
                continue
            n_m += 1
            flow_calls = []
            parents = {ch: p for p in ast.walk(m.node) for ch in ast.iter_child_nodes(p)}
            for n in walk_no_nested(m.node):
                if isinstance(n, ast.Call) and isinstance(n.func, ast.Attribute) and isinstance(n.func.value, ast.Name) and n.func.value.id == m.params[0] and n.func.attr in ("flow", "_flow"):
                    flow_calls.append(n)
            bad = []
            for fc in flow_calls:
                cur, guarded = fc, False
                while cur in parents:
                    cur = parents[cur]
                    if isinstance(cur, ast.With):
                        for it in cur.items:
                            src = ast.unparse(it.context_expr)
                            if "no_grad" in src or "inference_mode" in src or "disable_gradients" in src:
                                guarded = True
                if not guarded:
                    bad.append(fc.lineno)
            ctx.decide(not bad, "C15.grad", m.ident, loc_of(m),
                       "the torch flow is evaluated under no_grad / inference_mode, so the output can be converted to any namespace",
                       f"the torch flow is evaluated with autograd enabled (line {bad[0] if bad else ''}) and the result is handed to xp.asarray: a tensor that requires grad "
                       "cannot be converted by NumPy or JAX (RuntimeError: Can't call numpy() on Tensor that requires grad)")
        ctx.floor("torch flow output methods", n_m, 5)
    # ---- JAX flow outputs can be consumed in any namespace: a JAX array is handed over with the package's asarray(v, xp) helper, which knows the JAX -> PyTorch
    #      DLPack route.  Frozen API fact (the reason that branch exists): torch.asarray(<jax array>) does not raise, it returns a tensor of another shape and dtype.
    try:
        J = repo.cls("aspire.flows.jax.flows:FlowJax")
    except AnalysisError:
        J = None
    if J is not None:
        n_j = 0
        for name in ("sample", "sample_and_log_prob", "log_prob", "forward", "inverse"):
            m = J.methods.get(name)
            if m is None or "xp" not in m.params:
                continue
            n_j += 1
            raw = [n for n in walk_no_nested(m.node) if isinstance(n, ast.Call) and isinstance(n.func, ast.Attribute) and n.func.attr in ("asarray", "array", "as_tensor")
                   and isinstance(n.func.value, ast.Name) and n.func.value.id == "xp"]
            ctx.decide(not raw, "C15.grad", m.ident, loc_of(m, raw[0] if raw else None), "the JAX flow's outputs are handed to the requested namespace through the package's conversion helper",
                       f"`{ast.unparse(raw[0])[:50]}` hands a JAX array straight to the requested namespace's own asarray: for PyTorch that returns a tensor of the wrong shape and dtype "
                       "(no DLPack hand-over), so FlowJax outputs cannot be consumed with xp=torch" if raw else "", disc="jax-output")
        ctx.floor("jax flow output methods", n_j, 5)
    cache_rule(ctx)
    evidence_dtype_rule(ctx)


STATE_READERS = {"default_dtype", "get_default_dtype", "default_device", "get_default_device"}
MEMOISERS = {"lru_cache", "cache", "cached_property", "memoize", "memoise"}


def cache_rule(ctx):
    """C15.cache: the default floating-point width of torch / jax is run-time state
    (torch.set_default_dtype, jax_enable_x64); a memoised lookup freezes the first
    answer for the rest of the process, and later populations built without an
    explicit dtype are silently cast to the stale width."""
    repo = ctx.repo
    bad, n = [], 0
    for f in repo.all_functions():
        n += 1
        decos = set()
        for d in f.node.decorator_list:
            t = d.func if isinstance(d, ast.Call) else d
            nm = t.attr if isinstance(t, ast.Attribute) else (t.id if isinstance(t, ast.Name) else None)
            if nm:
                decos.add(nm)
        if not (decos & MEMOISERS):
            continue
        for c in walk_no_nested(f.node):
            if isinstance(c, ast.Call):
                t = c.func
                nm = t.attr if isinstance(t, ast.Attribute) else (t.id if isinstance(t, ast.Name) else None)
                if nm in STATE_READERS:
                    bad.append((f, c, nm, sorted(decos & MEMOISERS)[0]))
    ctx.count("functions_scanned_for_memoised_state", n)
    ctx.decide(not bad, "C15.cache", "package", loc_of(bad[0][0], bad[0][1]) if bad else "src/aspire",
               "no memoised function reads the namespace's default dtype / device (run-time state of torch and jax)",
               (f"{bad[0][0].ident} is memoised ({bad[0][3]}) and calls {bad[0][2]}(): the first answer is frozen, so after torch.set_default_dtype / jax_enable_x64 "
                "sample sets built without an explicit dtype are cast to the old width") if bad else "")


def evidence_dtype_rule(ctx):
    """C15.evid: the evidence stored on the population an SMC run returns is rebuilt from the recorded per-step series with
    `asarray(series, xp)`.  Its precision is the population's only if the series holds backend scalars of that precision, or the
    rebuild names the dtype: values narrowed to Python floats come back in the namespace's *default* width (float64 for a float32
    NumPy/JAX run, float32 for a float64 torch run)."""
    from .smcloop import SMC, history_appends
    repo = ctx.repo
    smc = repo.cls(SMC)
    sample = smc.methods["sample"]
    rebuilt = {}
    for n in walk_no_nested(sample.node):
        if isinstance(n, ast.Call) and ((isinstance(n.func, ast.Name) and n.func.id == "asarray") or (isinstance(n.func, ast.Attribute) and n.func.attr == "asarray")) and n.args:
            a0 = n.args[0]
            if isinstance(a0, ast.Attribute) and isinstance(a0.value, ast.Attribute) and a0.value.attr == "history":
                rebuilt[a0.attr] = any(k.arg == "dtype" for k in n.keywords)
    if not rebuilt:
        ctx.prove("C15.evid", sample.ident, loc_of(sample), "the returned evidence is not rebuilt from Python lists with asarray(..., xp)", trivial=True)
    narrowed = {}
    for series, call in history_appends(sample, repo, smc):
        if series in rebuilt and call.args:
            v = call.args[-1]
            # the value appended, followed through the local it was bound to (the last binding before the append)
            for _ in range(3):
                if not isinstance(v, ast.Name):
                    break
                defs = [n for n in walk_no_nested(sample.node) if isinstance(n, ast.Assign) and any(isinstance(t, ast.Name) and t.id == v.id for t in n.targets)
                        and (n.lineno, n.col_offset) < (call.lineno, call.col_offset)]
                if not defs:
                    break
                v = max(defs, key=lambda n: (n.lineno, n.col_offset)).value
            def _narrows(x):
                return isinstance(x, ast.Call) and ((isinstance(x.func, ast.Name) and x.func.id in ("float", "int")) or (isinstance(x.func, ast.Attribute) and x.func.attr in ("item", "tolist")))
            if _narrows(v):
                narrowed[series] = call
            elif isinstance(v, ast.Call) and isinstance(v.func, ast.Attribute):
                # the value is what a method of the population returns: narrowed if one of that method's returns is (followed through one local)
                S_ = repo.cls("aspire.samples:SMCSamples")
                m_ = S_.resolve(v.func.attr)
                if m_ is not None:
                    for r_ in walk_no_nested(m_.node):
                        if not (isinstance(r_, ast.Return) and r_.value is not None):
                            continue
                        rv = r_.value
                        if isinstance(rv, ast.Name):
                            ds = [n for n in walk_no_nested(m_.node) if isinstance(n, ast.Assign) and any(isinstance(t, ast.Name) and t.id == rv.id for t in n.targets) and n.lineno < r_.lineno]
                            if ds:
                                rv = max(ds, key=lambda n: n.lineno).value
                        if _narrows(rv):
                            narrowed[series] = call
    for series, has_dtype in sorted(rebuilt.items()):
        bad = series in narrowed and not has_dtype
        ctx.decide(not bad, "C15.evid", sample.ident, loc_of(sample, narrowed.get(series)), f"history.{series}: recorded as backend scalars (or rebuilt with an explicit dtype), so the returned evidence keeps the population's precision",
                   f"history.{series} receives values narrowed to Python scalars and is rebuilt with asarray(..., xp) without a dtype: the evidence of the returned population comes back in "
                   "the namespace's default width, not the requested precision", disc=series)


def _rank(m, n):
    calls = sorted((x.lineno, x.col_offset) for x in ast.walk(m.node) if isinstance(x, ast.Call))
    return calls.index((n.lineno, n.col_offset))


_S = "src/aspire/samples.py"
_A = "src/aspire/aspire.py"
MUTANTS = [
    M("base to_namespace drops log_q", _S, "log_q=self.log_q,\n            xp=xp,\n            device=self.device,", "xp=xp,\n            device=self.device,", "C15.carry"),
    M("log N taken with NumPy (a numpy.float64 scalar widens float32 evidence)", _S, "asarray(logsumexp(self.log_w), self.xp) - math.log(\n            len(self.x)\n        )", "asarray(logsumexp(self.log_w), self.xp) - np.log(len(self.x))", "C15.dtype"),
    M("log N taken with NumPy through a local", _S, "return logsumexp(log_w) - math.log(len(self.x))", "log_n = np.log(len(self.x))\n        return logsumexp(log_w) - log_n", "C15.dtype"),
    M("base to_namespace keeps source dtype", _S, "device=self.device,\n            dtype=dtype,", "device=self.device,\n            dtype=self.dtype,", "C15.dtype"),
    M("base to_namespace without xp", _S, "log_q=self.log_q,\n            xp=xp,\n            device=self.device,", "log_q=self.log_q,\n            device=self.device,", "C15.xp"),
    M("resample drops dtype", _S, "beta=beta,\n            dtype=self.dtype,\n            parameters=self.parameters,", "beta=beta,\n            parameters=self.parameters,", "C15.carry"),
    M("selection drops dtype", _S, "parameters=self.parameters,\n            dtype=self.dtype,\n        )\n\n    def __setitem__", "parameters=self.parameters,\n        )\n\n    def __setitem__", "C15.carry"),
    M("output namespace option ignored", _A, "if xp is not None:\n            samples = samples.to_namespace(xp)", "if xp is not None:\n            pass", "C15.route"),
    M("importance population without dtype", "src/aspire/samplers/importance.py", "parameters=self.parameters,\n            dtype=self.dtype,", "parameters=self.parameters,", "C15.pop"),
    M("restored population without dtype", "src/aspire/samplers/base.py", "samples_saved, xp=self.xp, dtype=self.dtype", "samples_saved, xp=self.xp", "C15.pop"),
    M("zuko sample with autograd", "src/aspire/flows/torch/flows.py", "with torch.no_grad():\n            x_prime = self.flow().rsample((n_samples,))", "if True:\n            x_prime = self.flow().rsample((n_samples,))", "C15.grad"),
    M("array_to_namespace skips the conversion when the dtype already matches", _S, "x = asarray(x, self.xp, **kwargs)\n        x = safe_to_device(x, self.device, self.xp)\n        return x",
      "if self.device is None and hasattr(x, \"dtype\") and x.dtype == kwargs[\"dtype\"]:\n            return x\n        x = asarray(x, self.xp, **kwargs)\n        x = safe_to_device(x, self.device, self.xp)\n        return x", "C15.a2n"),
    M("asarray turns backend warnings into errors", "src/aspire/utils.py", "return xp.asarray(x, **kwargs)", "with warnings.catch_warnings():\n        warnings.simplefilter(\"error\", UserWarning)\n        return xp.asarray(x, **kwargs)", "C15.helpers", within="asarray"),
    M("asarray hands PyTorch negatively strided NumPy arrays as they are", "src/aspire/utils.py", "if (\n        isinstance(x, np.ndarray)\n        and is_torch_namespace(xp)\n        and any(stride < 0 for stride in x.strides)\n    ):\n        x = x.copy()\n", "", "C15.helpers"),
    M("jax flow hands its draws straight to the requested namespace's asarray", "src/aspire/flows/jax/flows.py", "return asarray(x, xp), asarray(log_prob - log_abs_det_jacobian, xp)", "return xp.asarray(x), xp.asarray(log_prob - log_abs_det_jacobian)", "C15.grad"),
    M("array_to_namespace into numpy always", _S, "x = asarray(x, self.xp, **kwargs)", "x = asarray(x, np, **kwargs)", "C15.a2n"),
]
MUTANTS += [
    M("sample sets hand their device to asarray", _S, "x = asarray(x, self.xp, **kwargs)\n        x = safe_to_device(x, self.device, self.xp)\n        return x", "if self.device is not None:\n            kwargs[\"device\"] = self.device\n        return asarray(x, self.xp, **kwargs)", "C15.a2n"),
    M("fallback identity preconditioning built without the sampler's dtype", "src/aspire/samplers/base.py", "self.preconditioning_transform = IdentityTransform(\n                xp=self.xp, dtype=self.dtype\n            )", "self.preconditioning_transform = IdentityTransform(xp=self.xp)", "C15.pop"),
    M("importance sampler patches the proposal density in place", "src/aspire/samplers/importance.py", "samples.log_prior = samples.array_to_namespace(", "samples.log_q = update_at_indices(samples.log_q, samples.xp.isnan(samples.log_q), samples.xp.inf)\n        samples.log_prior = samples.array_to_namespace(", "C15own.own",
      more=[("from ..utils import track_calls", "from ..utils import track_calls, update_at_indices")]),
    M("from_samples defaults the requested dtype to the source set's dtype object", _S, "dtype = kwargs.pop(\"dtype\", None)\n        if dtype is not None:\n            dtype = resolve_dtype(dtype, xp)", "dtype = kwargs.pop(\"dtype\", samples.dtype)\n        if dtype is not None:\n            dtype = resolve_dtype(dtype, xp)", "C15.dtype"),
    M("torch to JAX hand-over through DLPack without making the tensor contiguous", "src/aspire/utils.py", "if dtype is not None:\n        kwargs[\"dtype\"] = resolve_dtype(dtype, xp=xp)\n    return xp.asarray(x, **kwargs)",
      "if is_torch_array(x) and is_jax_namespace(xp) and not kwargs:\n        array = xp.from_dlpack(x.detach())\n        if dtype is not None:\n            array = array.astype(resolve_dtype(dtype, xp=xp))\n        return array\n    if dtype is not None:\n        kwargs[\"dtype\"] = resolve_dtype(dtype, xp=xp)\n    return xp.asarray(x, **kwargs)", "C15.helpers"),
    M("output namespace option re-applies the instance's dtype object", _A, "samples = samples.to_namespace(xp)", "samples = samples.to_namespace(xp, dtype=self.dtype)", "C15.route"),
    M("per-step ratio returned as a Python float", _S, "return logsumexp(log_w) - math.log(len(self.x))", "return float(logsumexp(log_w) - math.log(len(self.x)))", "C15.evid"),
    M("evidence ratios narrowed to Python floats before they are recorded", "src/aspire/samplers/smc/base.py", "log_evidence_ratio = samples.log_evidence_ratio(beta)", "log_evidence_ratio = float(samples.log_evidence_ratio(beta))", "C15.evid"),
    M("evidence ratios recorded as Python floats", "src/aspire/samplers/smc/base.py", "self.history.log_norm_ratio.append(log_evidence_ratio)", "self.history.log_norm_ratio.append(float(log_evidence_ratio))", "C15.evid"),
    M("namespace default dtype memoised", _S, "            self.dtype = default_dtype(self.xp)\n", "            self.dtype = _cached_default(self.xp)\n", "C15.cache",
      more=[("@dataclass\nclass BaseSamples:", "import functools\n\n\n@functools.lru_cache(maxsize=None)\ndef _cached_default(xp):\n    return default_dtype(xp)\n\n\n@dataclass\nclass BaseSamples:")]),
    M("conversion keeps the likelihood only when it is unset", _S, "log_likelihood=asarray(self.log_likelihood, xp, dtype=dtype)\n            if self.log_likelihood is not None\n            else None,", "log_likelihood=asarray(self.log_likelihood, xp, dtype=dtype)\n            if self.log_likelihood is None\n            else None,", "C15.carry"),
    M("from_samples loses the likelihood", _S, "x=samples.x,\n            log_likelihood=samples.log_likelihood,\n            log_prior=samples.log_prior,", "x=samples.x,\n            log_prior=samples.log_prior,", "C15.carry"),
    M("to_numpy ignores a requested dtype", _S, "if dtype is not None:\n            dtype = resolve_dtype(dtype, np)\n        else:\n            dtype = convert_dtype(self.dtype, np)", "if dtype is None:\n            dtype = resolve_dtype(dtype, np)\n        else:\n            dtype = convert_dtype(self.dtype, np)", "C15.dtype"),
    M("to_namespace ignores a requested dtype", _S, "if dtype is None:\n            dtype = convert_dtype(self.dtype, xp)\n        else:\n            dtype = resolve_dtype(dtype, xp)", "dtype = convert_dtype(self.dtype, xp)", "C15.dtype", within="BaseSamples.to_namespace"),
    M("from_samples computes dtype and drops it", _S, "device=device,\n            dtype=dtype,\n            **kwargs,", "device=device,\n            **kwargs,", "C15.dtype"),
    M("base to_numpy drops dtype", _S, "xp=np,\n            dtype=dtype,\n        )", "xp=np,\n        )", "C15.dtype"),
    M("Samples.to_numpy drops dtype", _S, "dtype=convert_dtype(self.dtype, np),\n        )\n\n    def to_dataframe", ")\n\n    def to_dataframe", "C15.dtype"),
    M("to_standard_samples drops dtype", _S, "log_evidence_error=self.log_evidence_error,\n            dtype=self.dtype,\n        )", "log_evidence_error=self.log_evidence_error,\n        )", "C15.carry"),
    M("Samples.to_namespace hands over the source dtype", _S, "dtype = convert_dtype(self.dtype, xp)\n        return self.__class__(\n            x=asarray(self.x, xp, dtype=dtype),", "dtype = self.dtype\n        return self.__class__(\n            x=asarray(self.x, xp, dtype=dtype),", ("C15.dtype", "C15.asarray")),
    M("SMCSamples.to_namespace loses beta", _S, "samples = super().to_namespace(xp, dtype=dtype)\n        samples.beta = self.beta\n", "samples = super().to_namespace(xp, dtype=dtype)\n", "C15.carry"),
    M("zuko log_prob with autograd", "src/aspire/flows/torch/flows.py", "with torch.no_grad():\n            x_prime, log_abs_det_jacobian = self.rescale(x)\n            log_prob = self._flow().log_prob(x_prime) + log_abs_det_jacobian", "if True:\n            x_prime, log_abs_det_jacobian = self.rescale(x)\n            log_prob = self._flow().log_prob(x_prime) + log_abs_det_jacobian", "C15.grad"),
    M("initial population collected in a default-dtype buffer", "src/aspire/samplers/mcmc.py", "n_samples_drawn = 0\n        samples = None\n", "n_samples_drawn = 0\n        samples = None\n        buf = self.xp.empty((n_samples, self.dims))\n        buf[:0] = buf[:0]\n", "C15.pop"),
    M("minipcn samples without dtype", "src/aspire/samplers/mcmc.py", "x, xp=self.xp, parameters=self.parameters, dtype=self.dtype", "x, xp=self.xp, parameters=self.parameters", "C15.pop", within="MiniPCN.sample"),
]
_U = "src/aspire/utils.py"
MUTANTS += [
    M("asarray drops the requested dtype", _U, "if dtype is not None:\n        kwargs[\"dtype\"] = resolve_dtype(dtype, xp=xp)\n    return xp.asarray(x, **kwargs)", "return xp.asarray(x, **kwargs)", "C15.helpers"),
    M("DLPack route ignores the dtype", _U, "if dtype is not None:\n            tensor = tensor.to(resolve_dtype(dtype, xp=xp))\n        return tensor", "return tensor", "C15.helpers"),
    M("asarray resolves the dtype for numpy", _U, "kwargs[\"dtype\"] = resolve_dtype(dtype, xp=xp)", "kwargs[\"dtype\"] = resolve_dtype(dtype, xp=np)", "C15.helpers"),
    M("to_numpy returns something else on the fallback path", _U, "except (ValueError, NotImplementedError):\n        return np.asarray(x, **kwargs)", "except (ValueError, NotImplementedError):\n        return np.zeros_like(x)", "C15.helpers"),
]
NEUTRALS = [
    M("scratch array without a dtype that is only read (not a population buffer)", "src/aspire/samplers/mcmc.py", "n_samples_drawn = 0\n        samples = None\n", "n_samples_drawn = 0\n        samples = None\n        scratch = self.xp.zeros(3)\n        _ = float(scratch[0])\n"),
    M("initial population collected in a buffer of the sampler's dtype", "src/aspire/samplers/mcmc.py", "n_samples_drawn = 0\n        samples = None\n", "n_samples_drawn = 0\n        samples = None\n        buf = self.xp.empty((n_samples, self.dims), dtype=self.dtype)\n"),
    M("torch to JAX hand-over through DLPack of a contiguous copy", "src/aspire/utils.py", "if dtype is not None:\n        kwargs[\"dtype\"] = resolve_dtype(dtype, xp=xp)\n    return xp.asarray(x, **kwargs)",
      "if is_torch_array(x) and is_jax_namespace(xp) and not kwargs:\n        array = xp.from_dlpack(x.detach().contiguous())\n        if dtype is not None:\n            array = array.astype(resolve_dtype(dtype, xp=xp))\n        return array\n    if dtype is not None:\n        kwargs[\"dtype\"] = resolve_dtype(dtype, xp=xp)\n    return xp.asarray(x, **kwargs)"),
    M("log N taken with NumPy but converted to a Python float", _S, "asarray(logsumexp(self.log_w), self.xp) - math.log(\n            len(self.x)\n        )", "asarray(logsumexp(self.log_w), self.xp) - float(np.log(len(self.x)))"),
    M("sampler dtype through a local", "src/aspire/samplers/importance.py", "x, log_q = self.prior_flow.sample_and_log_prob(n_samples)\n        samples = Samples(\n            x,\n            log_q=log_q,\n            xp=self.xp,\n            parameters=self.parameters,\n            dtype=self.dtype,",
      "x, log_q = self.prior_flow.sample_and_log_prob(n_samples)\n        precision = self.dtype\n        samples = Samples(\n            x,\n            log_q=log_q,\n            xp=self.xp,\n            parameters=self.parameters,\n            dtype=precision,"),
    M("to_namespace builds its keywords first", _S, "return self.__class__(\n            x=self.x,\n            parameters=self.parameters,\n            log_likelihood=self.log_likelihood,\n            log_prior=self.log_prior,\n            log_q=self.log_q,\n            xp=xp,\n            device=self.device,\n            dtype=dtype,\n        )",
      "kw = dict(x=self.x, parameters=self.parameters, log_likelihood=self.log_likelihood, log_prior=self.log_prior, log_q=self.log_q)\n        kw[\"xp\"] = xp\n        kw[\"device\"] = self.device\n        kw[\"dtype\"] = dtype\n        return self.__class__(**kw)"),
    M("to_namespace keyword order", _S, "xp=xp,\n            device=self.device,\n            dtype=dtype,", "dtype=dtype,\n            xp=xp,\n            device=self.device,"),
]

# functions the property is anchored in (auto-mutant sweep of the thorough tier)
ANCHORS = [
    'aspire.samples:BaseSamples.to_numpy',
    'aspire.samples:BaseSamples.to_namespace',
    'aspire.samples:BaseSamples.from_samples',
    'aspire.samples:Samples.to_namespace',
    'aspire.samples:Samples.to_numpy',
    'aspire.samples:SMCSamples.to_numpy',
    'aspire.samples:SMCSamples.to_namespace',
    'aspire.samples:SMCSamples.to_standard_samples',
    'aspire.samples:BaseSamples.array_to_namespace',
    'aspire.utils:asarray',
    'aspire.utils:to_numpy',
]
